"""Entry point: bin/check <Cxx> [--tier quick|thorough] [--replay file] | --audit"""
import argparse
import importlib
import os
import sys
import traceback

HARNESS = os.path.dirname(os.path.abspath(__file__))
sys.path.insert(0, HARNESS)

import core  # noqa: E402


def main():
    ap = argparse.ArgumentParser()
    ap.add_argument("pid", nargs="?")
    ap.add_argument("--tier", default=os.environ.get("VERIF_TIER", "quick"))
    ap.add_argument("--replay")
    ap.add_argument("--audit", action="store_true")
    a = ap.parse_args()
    if a.audit:
        bad = core.audit_sources()
        if bad:
            print("AUDIT FAILED:\n" + "\n".join(bad))
            return 2
        print("audit ok: no Admitted/admit/Axiom/Parameter/Conjecture/guard switches in coq/theories")
        return 0
    if not a.pid:
        ap.error("property id required")
    tier = a.tier if a.tier in ("quick", "thorough") else "quick"
    seed = int(os.environ.get("VERIF_SEED", "20260922"))
    mod = importlib.import_module("props." + a.pid)
    ctx = core.Ctx(a.pid, tier, seed)
    try:
        if a.replay:
            mod.replay(ctx, a.replay)
        else:
            mod.run(ctx)
    except core.CheckError as e:
        # machinery failure: reported as an error of the check (exit 2), never as a pass
        print("CHECK-ERROR property=%s: %s" % (a.pid, e))
        traceback.print_exc()
        if ctx.violations or ctx.broken_obligations:
            # violations already established are reported even though a later stage of the check
            # (typically a coverage requirement that the broken behaviour itself starves) failed
            ctx.notes.append("check aborted by a machinery error after violations were found: %s" % e)
            ctx.finish()
            return 1
        return 2
    return ctx.finish()


if __name__ == "__main__":
    sys.exit(main())
