"""Entry point: bin/check <Cxx> [--tier quick|thorough] [--replay file] | --audit"""
import argparse
import importlib
import os
import sys
import traceback

HARNESS = os.path.dirname(os.path.abspath(__file__))
sys.path.insert(0, HARNESS)

import core  # noqa: E402


def main():
    ap = argparse.ArgumentParser()
    ap.add_argument("pid", nargs="?")
    ap.add_argument("--tier", default=os.environ.get("VERIF_TIER", "quick"))
    ap.add_argument("--replay")
    ap.add_argument("--audit", action="store_true")
    a = ap.parse_args()
    if a.audit:
        bad = core.audit_sources()
        if bad:
            print("AUDIT FAILED:\n" + "\n".join(bad))
            return 2
        print("audit ok: no Admitted/admit/Axiom/Parameter/Conjecture/guard switches in coq/theories")
        return 0
    if not a.pid:
        ap.error("property id required")
    tier = a.tier if a.tier in ("quick", "thorough") else "quick"
    seed = int(os.environ.get("VERIF_SEED", "20260922"))
    ctx = core.Ctx(a.pid, tier, seed)
    try:
        mod = importlib.import_module("props." + a.pid)
        if a.replay:
            mod.replay(ctx, a.replay)
        else:
            mod.run(ctx)
    except core.CheckError as e:
        # machinery failure: reported as an error of the check (exit 2), never as a pass
        print("CHECK-ERROR property=%s: %s" % (a.pid, e))
        traceback.print_exc()
        if ctx.violations or ctx.broken_obligations:
            # violations already established are reported even though a later stage of the check
            # (typically a coverage requirement that the broken behaviour itself starves) failed
            ctx.notes.append("check aborted by a machinery error after violations were found: %s" % e)
            ctx.finish()
            return 1
        return 2
    except Exception as e:  # noqa: BLE001
        # The correspondence harness reads the implementation's objects (attributes, signatures, record shapes).  When the
        # code under check no longer has the shape the harness and the model were written for, the tie between model and
        # code can no longer be evaluated: the property is no longer shown to hold.  Reported as a violation without a
        # failing input, the replay naming what could not be evaluated (a defect of the harness itself shows up the same
        # way on the unchanged tree, where any non-zero exit marks the check as broken).
        tb = traceback.format_exc()
        print(tb)
        if not ctx.violations:
            ctx.violation("the correspondence harness could not evaluate the implementation: %s: %s" % (type(e).__name__, e),
                          dict(kind="harness-exception", exception=repr(e), traceback=tb[-4000:],
                               theorem="every theorem of Properties/%s.v (the tie to the code cannot be checked)" % a.pid),
                          found_input=False)
        else:
            ctx.notes.append("check aborted by %r after violations were found" % (e,))
        return ctx.finish()
    return ctx.finish()


if __name__ == "__main__":
    sys.exit(main())
