"""Translator part for C26/C36/C14 (kept in its own module; harness/translate.py only calls extract()).

Extracted from the source on every run:
  * llama_agents/dbos/idle_release.py: CRASH_TIMEOUT_SECONDS (numeric literal), that
    DBOSIdleReleaseExternalRunAdapter.send_event passes it as crash_timeout_seconds to
    try_begin_resume, and the polling sleep of that loop;
  * llama_agents/server/_runtime/idle_release_runtime.py: the comparison that makes
    _release_idle_handler return early (`elapsed < self._idle_timeout`).
Unknown shapes raise Err: only the definitions of this part are withheld then (the developments
that use them stop compiling), never a silent default."""
import ast


class Err(Exception):
    pass


DBOS = "packages/llama-agents-dbos/src/llama_agents/dbos/idle_release.py"
INPROC = "packages/llama-agents-server/src/llama_agents/server/_runtime/idle_release_runtime.py"


def _num(node, what):
    if isinstance(node, ast.Constant) and isinstance(node.value, (int, float)) and not isinstance(node.value, bool):
        ms = node.value * 1000
        if ms != int(ms):
            raise Err("%s is not a whole number of milliseconds: %r" % (what, node.value))
        return int(ms)
    if isinstance(node, ast.UnaryOp) and isinstance(node.op, ast.USub):
        return -_num(node.operand, what)
    raise Err("%s is not a numeric literal: %s" % (what, ast.unparse(node)))


def _func(node, name):
    for n in ast.walk(node):
        if isinstance(n, (ast.FunctionDef, ast.AsyncFunctionDef)) and n.name == name:
            return n
    raise Err("function %s not found" % name)


def _cls(mod, name):
    for n in ast.walk(mod):
        if isinstance(n, ast.ClassDef) and n.name == name:
            return n
    raise Err("class %s not found" % name)


def extract(src):
    out = ["(* from %s and %s *)" % (DBOS, INPROC)]
    mod = ast.parse(src(DBOS))
    ct = None
    for n in mod.body:
        if isinstance(n, ast.Assign) and len(n.targets) == 1 and isinstance(n.targets[0], ast.Name) \
                and n.targets[0].id == "CRASH_TIMEOUT_SECONDS":
            ct = _num(n.value, "CRASH_TIMEOUT_SECONDS")
    if ct is None:
        raise Err("CRASH_TIMEOUT_SECONDS not found")
    send = _func(_cls(mod, "DBOSIdleReleaseExternalRunAdapter"), "send_event")
    calls = [c for c in ast.walk(send) if isinstance(c, ast.Call) and isinstance(c.func, ast.Attribute)
             and c.func.attr == "try_begin_resume"]
    if len(calls) != 1:
        raise Err("send_event: expected exactly one try_begin_resume call")
    kw = {k.arg: k.value for k in calls[0].keywords}
    passes = isinstance(kw.get("crash_timeout_seconds"), ast.Name) and kw["crash_timeout_seconds"].id == "CRASH_TIMEOUT_SECONDS"
    if "crash_timeout_seconds" in kw and not passes:
        raise Err("send_event: crash_timeout_seconds is not the module constant: %s" % ast.unparse(kw["crash_timeout_seconds"]))
    sleeps = [c for c in ast.walk(send) if isinstance(c, ast.Call) and ast.unparse(c.func) == "asyncio.sleep"]
    if len(sleeps) != 1:
        raise Err("send_event: expected exactly one asyncio.sleep (poll) call")
    poll = _num(sleeps[0].args[0], "poll interval")
    out.append("Definition dbos_crash_timeout_ms : Z := %s." % ("(%d)" % ct if ct < 0 else ct))
    out.append("Definition dbos_resume_passes_crash_timeout : bool := %s." % ("true" if passes else "false"))
    out.append("Definition dbos_resume_poll_ms : Z := %s." % ("(%d)" % poll if poll < 0 else poll))

    mod2 = ast.parse(src(INPROC))
    rel = _func(_cls(mod2, "IdleReleaseDecorator"), "_release_idle_handler")
    cmps = [n for n in ast.walk(rel) if isinstance(n, ast.If) and isinstance(n.test, ast.Compare)
            and len(n.test.ops) == 1 and len(n.test.comparators) == 1
            and "self._idle_timeout" in (ast.unparse(n.test.left), ast.unparse(n.test.comparators[0]))]
    if len(cmps) != 1:
        raise Err("_release_idle_handler: expected exactly one comparison with self._idle_timeout")
    c = cmps[0]
    if not (len(c.body) == 1 and isinstance(c.body[0], ast.Return) and c.body[0].value is None and not c.orelse):
        raise Err("_release_idle_handler: the idle_timeout test does not guard a bare return")
    op = type(c.test.ops[0]).__name__
    if ast.unparse(c.test.left) == "self._idle_timeout":      # normalise to  <elapsed> op self._idle_timeout
        op = {"Lt": "Gt", "Gt": "Lt", "LtE": "GtE", "GtE": "LtE"}.get(op, op)
    out.append('Definition idle_release_early_return_when_elapsed : string := "%s self._idle_timeout".' % op)
    return "\n".join(out)
