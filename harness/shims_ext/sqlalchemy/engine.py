class URL: pass
class Engine: pass
