def _get_dbos_instance(): raise RuntimeError('stub')
