class _Ctx: function_id = 0
_ctx=_Ctx()
def get_local_dbos_context(): return _ctx
