class _D:
    @staticmethod
    def step(*a, **k):
        def deco(f): return f
        return deco
    workflow = step
    async def recv_async(*a, **k): return None
    async def send_async(*a, **k): return None
    @staticmethod
    def send(*a, **k): return None
    async def write_stream_async(*a, **k): return None
    async def retrieve_workflow_async(*a, **k): raise RuntimeError("stub")
    async def delete_workflow_async(*a, **k): return None
DBOS=_D
class SetWorkflowID:
    def __init__(self, *a): pass
    def __enter__(self): return self
    def __exit__(self, *a): return False
class WorkflowHandleAsync: 
    def __class_getitem__(cls, item): return cls
class DBOSConfig(dict): pass
