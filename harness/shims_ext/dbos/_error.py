class DBOSNonExistentWorkflowError(Exception): pass
