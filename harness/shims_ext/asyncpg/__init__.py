class Pool: pass
