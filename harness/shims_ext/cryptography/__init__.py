"""STAND-IN for the `cryptography` package (absent from the sandbox, not installable).

Only the names used by llama_agents/control_plane/backup/encryption.py exist:
  cryptography.exceptions.InvalidTag
  cryptography.hazmat.primitives.hashes.SHA256
  cryptography.hazmat.primitives.ciphers.aead.AESGCM      (encrypt / decrypt, 16-byte tag)
  cryptography.hazmat.primitives.kdf.pbkdf2.PBKDF2HMAC     (derive)
AESGCM is replaced by an encrypt-then-MAC construction from the standard library (SHA-256 counter
keystream + HMAC-SHA256 truncated to 16 bytes) with the same interface, the same ciphertext length
(len(plaintext) + 16) and the same failure (InvalidTag) on a wrong key or modified data; PBKDF2HMAC
uses hashlib.pbkdf2_hmac with a reduced iteration count.  It is NOT AES-GCM: every statement of the
verification framework about confidentiality/authenticity is a statement about an idealised AEAD
(see /verif/DESIGN.md §9, design.d/C33.md); this package only lets the repository's own
encrypt()/decrypt() wire-format code run."""
STAND_IN = True
