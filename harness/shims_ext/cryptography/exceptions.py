class InvalidTag(Exception):
    pass
