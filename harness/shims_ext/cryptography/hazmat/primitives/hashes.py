class SHA256:
    name = "sha256"
    digest_size = 32
