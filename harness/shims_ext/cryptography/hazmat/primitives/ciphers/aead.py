"""Stand-in AEAD (see cryptography/__init__.py): encrypt-then-MAC, stdlib only."""
import hashlib
import hmac

from cryptography.exceptions import InvalidTag

TAG = 16


class AESGCM:
    def __init__(self, key):
        if len(key) not in (16, 24, 32):
            raise ValueError("AESGCM key must be 128, 192, or 256 bits.")
        self._k = bytes(key)

    def _stream(self, nonce, n):
        out, c = b"", 0
        while len(out) < n:
            out += hashlib.sha256(b"ks" + self._k + nonce + c.to_bytes(8, "big")).digest()
            c += 1
        return out[:n]

    def _tag(self, nonce, aad, ct):
        return hmac.new(self._k, b"tag" + len(nonce).to_bytes(2, "big") + nonce
                        + len(aad).to_bytes(8, "big") + aad + ct, hashlib.sha256).digest()[:TAG]

    def encrypt(self, nonce, data, associated_data):
        aad = associated_data or b""
        ct = bytes(x ^ y for x, y in zip(data, self._stream(nonce, len(data))))
        return ct + self._tag(nonce, aad, ct)

    def decrypt(self, nonce, data, associated_data):
        aad = associated_data or b""
        if len(data) < TAG:
            raise InvalidTag()
        ct, tag = data[:-TAG], data[-TAG:]
        if not hmac.compare_digest(tag, self._tag(nonce, aad, ct)):
            raise InvalidTag()
        return bytes(x ^ y for x, y in zip(ct, self._stream(nonce, len(ct))))
