"""Stand-in PBKDF2HMAC (see cryptography/__init__.py): hashlib.pbkdf2_hmac, reduced iterations."""
import hashlib

ITERATIONS_CAP = 64


class PBKDF2HMAC:
    def __init__(self, algorithm, length, salt, iterations, backend=None):
        self._name = getattr(algorithm, "name", "sha256")
        self._length, self._salt, self._iterations = length, bytes(salt), iterations
        self._used = False

    def derive(self, key_material):
        if self._used:
            raise RuntimeError("PBKDF2 instances can only be used once")
        self._used = True
        return hashlib.pbkdf2_hmac(self._name, bytes(key_material), self._salt,
                                   min(self._iterations, ITERATIONS_CAP), self._length)
