"""Fail-closed parser of the SQLite migration scripts into abstract schema operations (C28).

Recognised fragment (anything else raises SqlError, i.e. the C28 proof obligation breaks
instead of a default being assumed):

  CREATE TABLE [IF NOT EXISTS] t ( col [TYPE] [PRIMARY KEY [AUTOINCREMENT]] [NOT NULL]
                                   [DEFAULT 'str' | DEFAULT 123 | DEFAULT (f('x'))] , ...
                                   [, PRIMARY KEY (c1, c2, ...)] ) ;
  ALTER TABLE t ADD [COLUMN] col [TYPE] [NOT NULL DEFAULT lit | DEFAULT lit] ;
  CREATE [UNIQUE] INDEX [IF NOT EXISTS] i ON t (c1, c2, ...) ;

Identifiers must be lower-case [a-z_][a-z0-9_]* (SQLite compares names case-insensitively, the
model compares them exactly; with lower-case names both coincide).  `--` comments are removed.
The same module renders abstract operations back to SQL (used by the correspondence suite for
generated migration lists; `parse(render(ops)) == ops` is checked there)."""
import re

IDENT = re.compile(r"[a-z_][a-z0-9_]*\Z")
KEYWORDS = {"PRIMARY", "KEY", "NOT", "NULL", "DEFAULT", "AUTOINCREMENT", "UNIQUE", "CHECK", "REFERENCES",
            "COLLATE", "GENERATED", "AS", "CONSTRAINT", "FOREIGN", "ON", "IF", "EXISTS", "CREATE", "TABLE",
            "INDEX", "ALTER", "ADD", "COLUMN", "WITHOUT", "ROWID", "STRICT", "TEMP", "TEMPORARY", "VIRTUAL",
            "DROP", "INSERT", "UPDATE", "DELETE", "SELECT", "PRAGMA", "BEGIN", "COMMIT", "ROLLBACK", "VIEW",
            "TRIGGER", "RENAME", "TO", "WHERE", "ASC", "DESC"}
VERSION_PATTERN = re.compile(r"--\s*migration:\s*(\d+)")   # mirrored from migration_utils.py (checked by the suite)


class SqlError(Exception):
    pass


def tokenize(text):
    """-> list of (kind, value): kind in word, str, num, punct.  `--` comments dropped."""
    toks, i, n = [], 0, len(text)
    while i < n:
        c = text[i]
        if c in " \t\r\n":
            i += 1
        elif text.startswith("--", i):
            j = text.find("\n", i)
            i = n if j < 0 else j + 1
        elif text.startswith("/*", i):
            raise SqlError("block comments are not in the recognised fragment")
        elif c == "'":
            j = i + 1
            while True:
                if j >= n:
                    raise SqlError("unterminated string literal")
                if text[j] == "'":
                    if j + 1 < n and text[j + 1] == "'":
                        raise SqlError("quote escapes in string literals are not in the recognised fragment")
                    break
                if text[j] == "\n":
                    raise SqlError("newline in string literal")
                j += 1
            toks.append(("str", text[i:j + 1]))
            i = j + 1
        elif c.isdigit():
            j = i
            while j < n and text[j].isdigit():
                j += 1
            if j < n and (text[j].isalpha() or text[j] in "._"):
                raise SqlError("unsupported numeric literal near %r" % text[i:j + 3])
            toks.append(("num", text[i:j]))
            i = j
        elif c.isalpha() or c == "_":
            j = i
            while j < n and (text[j].isalnum() or text[j] == "_"):
                j += 1
            toks.append(("word", text[i:j]))
            i = j
        elif c in "(),;":
            toks.append(("punct", c))
            i += 1
        else:
            raise SqlError("unexpected character %r" % c)
    return toks


class _P:
    def __init__(self, toks):
        self.t, self.i = toks, 0

    def peek(self, k=0):
        return self.t[self.i + k] if self.i + k < len(self.t) else ("eof", "")

    def next(self):
        tok = self.peek()
        self.i += 1
        return tok

    def kw(self, *words):
        """consume the given keyword sequence if present (case-insensitive)"""
        for k, w in enumerate(words):
            kind, v = self.peek(k)
            if kind != "word" or v.upper() != w:
                return False
        self.i += len(words)
        return True

    def need_kw(self, *words):
        if not self.kw(*words):
            raise SqlError("expected %s, found %r" % (" ".join(words), self.peek()[1]))

    def punct(self, p):
        if self.peek() == ("punct", p):
            self.i += 1
            return True
        return False

    def need_punct(self, p):
        if not self.punct(p):
            raise SqlError("expected %r, found %r" % (p, self.peek()[1]))

    def ident(self):
        kind, v = self.next()
        if kind != "word" or v.upper() in KEYWORDS:
            raise SqlError("identifier expected, found %r" % v)
        if not IDENT.match(v):
            raise SqlError("identifier %r is not lower-case [a-z_][a-z0-9_]*" % v)
        return v

    def ident_list(self):
        self.need_punct("(")
        out = [self.ident()]
        while self.punct(","):
            out.append(self.ident())
        self.need_punct(")")
        return out


def _column(p, in_alter):
    """-> dict(name, type, notnull, dflt, pk(bool), autoinc(bool))"""
    name = p.ident()
    typ = ""
    kind, v = p.peek()
    if kind == "word" and v.upper() not in KEYWORDS:
        if not re.match(r"[A-Z]+\Z", v):
            # SQLite reports standard type names in upper case whatever the declaration says
            raise SqlError("type name %r is not upper-case [A-Z]+" % v)
        typ = v
        p.next()
        if p.peek() == ("punct", "("):
            raise SqlError("parameterised types are not in the recognised fragment")
        kind, v = p.peek()
        if kind == "word" and v.upper() not in KEYWORDS:
            raise SqlError("multi-word types are not in the recognised fragment")
    col = dict(name=name, type=typ, notnull=False, dflt=None, pk=False, autoinc=False)
    seen = set()
    while True:
        if p.kw("PRIMARY", "KEY"):
            if "pk" in seen:
                raise SqlError("duplicate PRIMARY KEY on column %s" % name)
            seen.add("pk")
            col["pk"] = True
            if p.kw("AUTOINCREMENT"):
                if typ.upper() != "INTEGER":
                    raise SqlError("AUTOINCREMENT on a non-INTEGER column")
                col["autoinc"] = True
        elif p.kw("NOT", "NULL"):
            if "nn" in seen:
                raise SqlError("duplicate NOT NULL on column %s" % name)
            seen.add("nn")
            col["notnull"] = True
        elif p.kw("DEFAULT"):
            if "df" in seen:
                raise SqlError("duplicate DEFAULT on column %s" % name)
            seen.add("df")
            kind, v = p.next()
            if kind in ("str", "num"):
                col["dflt"] = v
            elif (kind, v) == ("punct", "("):
                # ( fname ( 'literal' ) )  -- e.g. (datetime('now'))
                fn = p.ident()
                p.need_punct("(")
                k2, v2 = p.next()
                if k2 != "str":
                    raise SqlError("unsupported default expression")
                p.need_punct(")")
                p.need_punct(")")
                col["dflt"] = "%s(%s)" % (fn, v2)
                col["dflt_paren"] = True
            else:
                raise SqlError("unsupported DEFAULT %r" % v)
        else:
            break
    kind, v = p.peek()
    if not (kind == "punct" and v in ",);"):
        raise SqlError("unsupported column constraint near %r" % v)
    if in_alter:
        # behaviour of these depends on table contents or always fails; outside the fragment
        if col["pk"]:
            pass   # always fails in SQLite ("Cannot add a PRIMARY KEY column"); modelled
        if col["notnull"] and col["dflt"] is None:
            raise SqlError("ADD COLUMN ... NOT NULL without DEFAULT depends on table contents")
        if col.get("dflt_paren"):
            raise SqlError("ADD COLUMN with a non-constant DEFAULT depends on table contents")
    return col


def parse_script(text):
    """-> list of abstract statements:
       ("create_table", ine, name, [col], autoinc)   col = (name, type, notnull, dflt|None, pk_pos)
       ("add_column", table, col)
       ("create_index", ine, unique, name, table, [colname])"""
    p = _P(tokenize(text))
    out = []
    while p.peek()[0] != "eof":
        if p.punct(";"):
            continue
        if p.kw("CREATE", "TABLE"):
            ine = p.kw("IF", "NOT", "EXISTS")
            name = p.ident()
            p.need_punct("(")
            cols, tpk = [], None
            while True:
                if p.kw("PRIMARY", "KEY"):
                    if tpk is not None:
                        raise SqlError("two table-level PRIMARY KEY constraints")
                    tpk = p.ident_list()
                else:
                    if tpk is not None:
                        raise SqlError("column definition after a table constraint")
                    cols.append(_column(p, False))
                if p.punct(","):
                    continue
                p.need_punct(")")
                break
            if p.peek()[0] == "word":
                raise SqlError("table options (%s) are not in the recognised fragment" % p.peek()[1])
            colpk = [c["name"] for c in cols if c["pk"]]
            if len(colpk) > 1 or (colpk and tpk is not None):
                raise SqlError("table %s has more than one primary key" % name)
            pkcols = tpk if tpk is not None else colpk
            if len(set(pkcols)) != len(pkcols) or any(c not in [x["name"] for x in cols] for c in pkcols):
                raise SqlError("bad PRIMARY KEY column list for table %s" % name)
            autoinc = any(c["autoinc"] for c in cols)
            def pkpos(c):
                if tpk is None:
                    return 1 if c["pk"] else 0
                return (tpk.index(c["name"]) + 1) if c["name"] in tpk else 0
            out.append(("create_table", ine, name,
                        [(c["name"], c["type"], c["notnull"], c["dflt"], pkpos(c)) for c in cols], autoinc))
        elif p.kw("CREATE", "UNIQUE", "INDEX") or p.kw("CREATE", "INDEX"):
            unique = p.t[p.i - 2][1].upper() == "UNIQUE"
            ine = p.kw("IF", "NOT", "EXISTS")
            name = p.ident()
            p.need_kw("ON")
            table = p.ident()
            cols = p.ident_list()
            out.append(("create_index", ine, unique, name, table, cols))
        elif p.kw("ALTER", "TABLE"):
            table = p.ident()
            p.need_kw("ADD")
            p.kw("COLUMN")
            c = _column(p, True)
            if c["autoinc"]:
                raise SqlError("AUTOINCREMENT in ADD COLUMN")
            out.append(("add_column", table, (c["name"], c["type"], c["notnull"], c["dflt"], 1 if c["pk"] else 0)))
        else:
            raise SqlError("statement not in the recognised fragment, starting at %r" % p.peek()[1])
        if p.peek()[0] != "eof":
            p.need_punct(";")
    for st in out:
        names = [st[2]] if st[0] == "create_table" else [st[1]] if st[0] == "add_column" else [st[3], st[4]]
        if "schema_migrations" in names:
            raise SqlError("a migration script must not touch schema_migrations")
    return out


def parse_version(text):
    """mirror of migration_utils.parse_target_version(...) or 0"""
    lines = text.splitlines()
    first = lines[0] if text and lines else ""
    m = VERSION_PATTERN.search(first)
    return int(m.group(1)) if m else 0


# ---- rendering (abstract statement -> SQL text) ------------------------------------------------
def render_col(c, table_level_pk=False):
    name, typ, notnull, dflt, pk = c
    s = name
    if typ:
        s += " " + typ
    if pk and not table_level_pk:
        s += " PRIMARY KEY"
    if notnull:
        s += " NOT NULL"
    if dflt is not None:
        s += " DEFAULT " + (("(%s)" % dflt) if "(" in dflt else dflt)
    return s


def render_stmt(st):
    if st[0] == "create_table":
        _, ine, name, cols, autoinc = st
        pkcols = sorted([c for c in cols if c[4] > 0], key=lambda c: c[4])
        table_level = len(pkcols) > 1
        parts = []
        for c in cols:
            r = render_col(c, table_level)
            if autoinc and c[4] == 1 and not table_level:
                r = r.replace(" PRIMARY KEY", " PRIMARY KEY AUTOINCREMENT")
            parts.append(r)
        if table_level:
            parts.append("PRIMARY KEY (%s)" % ", ".join(c[0] for c in pkcols))
        return "CREATE TABLE %s%s (\n    %s\n);" % ("IF NOT EXISTS " if ine else "", name, ",\n    ".join(parts))
    if st[0] == "add_column":
        return "ALTER TABLE %s ADD COLUMN %s;" % (st[1], render_col(st[2]))
    _, ine, unique, name, table, cols = st
    return "CREATE %sINDEX %s%s ON %s (%s);" % ("UNIQUE " if unique else "", "IF NOT EXISTS " if ine else "",
                                               name, table, ", ".join(cols))


# ---- Coq printing ---------------------------------------------------------------------------------
def cstr(s):
    if not all(32 <= ord(ch) < 127 for ch in s):
        raise SqlError("non-ascii text %r" % s)
    return '"' + s.replace('"', '""') + '"'


def cbool(b):
    return "true" if b else "false"


def coq_col(c):
    name, typ, notnull, dflt, pk = c
    return "(Sql.Col %s %s %s %s %d)" % (cstr(name), cstr(typ), cbool(notnull),
                                         "None" if dflt is None else "(Some %s)" % cstr(dflt), pk)


def coq_stmt(st):
    if st[0] == "create_table":
        _, ine, name, cols, autoinc = st
        return "Sql.CreateTable %s %s [%s] %s" % (cbool(ine), cstr(name), "; ".join(coq_col(c) for c in cols),
                                                  cbool(autoinc))
    if st[0] == "add_column":
        return "Sql.AddColumn %s %s" % (cstr(st[1]), coq_col(st[2]))
    _, ine, unique, name, table, cols = st
    return "Sql.CreateIndex %s %s %s %s [%s]" % (cbool(ine), cbool(unique), cstr(name), cstr(table),
                                                "; ".join(cstr(c) for c in cols))


def coq_script(stmts):
    return "[" + "; ".join(coq_stmt(s) for s in stmts) + "]"


SQL_TYPES = """Module Sql.
  (* abstract schema operations: the fragment of SQLite DDL recognised by harness/translate_sql.py *)
  Record col := Col { c_name : string; c_type : string; c_notnull : bool; c_dflt : option string; c_pk : Z }.
  Inductive stmt :=
  | CreateTable (ine : bool) (name : string) (cols : list col) (autoinc : bool)
  | AddColumn (table : string) (c : col)
  | CreateIndex (ine uniq : bool) (name table : string) (cols : list string).
End Sql."""
