from ..base import BaseEvent
class SpanDropEvent(BaseEvent):
    span_id: str = ""
    err_str: str = ""
