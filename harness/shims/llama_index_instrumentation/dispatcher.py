from contextlib import contextmanager
from contextvars import ContextVar
active_instrument_tags = ContextVar("instrument_tags", default={})
@contextmanager
def instrument_tags(tags):
    tok = active_instrument_tags.set(tags)
    try: yield
    finally: active_instrument_tags.reset(tok)
class Dispatcher:
    def event(self, ev): pass
    def span(self, fn): return fn
    def span_enter(self, **kw): pass
    def span_exit(self, **kw): pass
    def span_drop(self, **kw): pass
    def capture_propagation_context(self): return {}
    def restore_propagation_context(self, tags): pass
_d = Dispatcher()
def get_dispatcher(name=None): return _d
