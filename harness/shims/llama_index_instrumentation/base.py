from pydantic import BaseModel
class BaseEvent(BaseModel):
    @classmethod
    def class_name(cls): return cls.__name__
