from .dispatcher import get_dispatcher, Dispatcher
