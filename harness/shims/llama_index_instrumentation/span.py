from contextvars import ContextVar
active_span_id = ContextVar("active_span_id", default=None)
