"""Regenerates /verif/MANIFEST.json from the table below (run after adding a property)."""
import json
import os

VERIF = os.path.dirname(os.path.dirname(os.path.abspath(__file__)))

COMMON_NOTE = (
    "Trusted: Coq 8.16.1 kernel incl. vm_compute (no native_compute); no axioms declared by the development "
    "(Print Assumptions of every property theorem is recorded in the evidence); the hand-written Gallina model is "
    "tied to /repo by a correspondence suite executed on every run (same generated inputs through the real Python "
    "and through the model evaluated by coqc); harness generators/encoders, the virtual-time loop, the "
    "llama_index_instrumentation no-op shim and harness/translate.py (fail-closed constants/shape extraction)."
)

# id -> (level text, extra note, technique, design_ref)
CLAIMED = {
    "C07": (
        "Rocq theorems over the deep embedding of retry_policy.py (all parameters in Q, all attempt numbers, all "
        "exceptions, all seeds/draws): any/all/|/& are or/and (n-ary by induction), wait_combine/+ is the sum, every "
        "strategy in its documented domain returns a non-negative delay inside [wlo,whi] including attempts where "
        "exp_base**attempts overflows, jitter is a function of the seed. Tied to the code by exact differential "
        "evaluation of real strategy objects vs the model plus an implementation-side monitor of the same laws.",
        "Floats are abstracted to rationals (generator keeps parameters dyadic so Python results are exact; "
        "jittered results compared within 2^-40 relative); random.Random(seed) determinism is assumed; "
        "regex `match=` predicates are treated as user predicates.",
        "Rocq proof (induction over nested strategy terms, lra) + differential correspondence via vm_compute",
        "DESIGN.md §7 C07"),
}

REASON_PENDING = "check not built yet in this session; planned as described in DESIGN.md §7 (no other technique substituted)"


def main():
    props = [json.loads(l) for l in open(os.path.join(VERIF, "properties.jsonl"))]
    checks, na = [], []
    for p in props:
        pid = p["id"]
        if pid in CLAIMED:
            text, note, tech, ref = CLAIMED[pid]
            checks.append(dict(
                property_id=pid,
                quick_cmd="bin/check %s --tier quick" % pid,
                thorough_cmd="bin/check %s --tier thorough" % pid,
                evidence_file="/verif/evidence/%s.json" % pid,
                replay_cmd_template="bin/check %s --replay {path}" % pid,
                engine="rocq-model+correspondence",
                level_claimed=dict(category="proof", text=text, design_ref=ref),
                level_note=COMMON_NOTE + " " + note,
                technique=tech))
        else:
            na.append(dict(property_id=pid, reason=NA.get(pid, REASON_PENDING)))
    man = dict(
        version=1,
        setup_cmd="bin/setup",
        hooks=dict(guard="WORKFLOWS_PY_VERIF",
                   enable="checks export WORKFLOWS_PY_VERIF=1 (bin/check); no source hooks are currently needed — "
                          "all observation goes through public APIs, runtime decorators and the harness event loop",
                   baseline_off_cmd="cd /repo && /venv/bin/python -m pytest -ra -q -p no:cacheprovider --timeout=900 "
                                    "--continue-on-collection-errors",
                   source_commits=[], add_only=True),
        engines=[dict(name="rocq-model+correspondence", path="/verif/coq + /verif/harness",
                      serves_properties=sorted(CLAIMED),
                      kind_free_text="Rocq (Coq 8.16.1) theorems over executable Gallina models; models tied to "
                                     "/repo by differential correspondence suites evaluated with vm_compute")],
        checks=checks,
        notes="See DESIGN.md. known_findings.json lists genuine defects (known / fixed).",
        not_applicable=na)
    with open(os.path.join(VERIF, "MANIFEST.json"), "w") as f:
        json.dump(man, f, indent=1)
    print("MANIFEST.json: %d checks, %d not_applicable" % (len(checks), len(na)))


NA = {}

if __name__ == "__main__":
    main()
