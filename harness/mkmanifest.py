"""Regenerates /verif/MANIFEST.json from the table below (run after adding a property)."""
import json
import os

VERIF = os.path.dirname(os.path.dirname(os.path.abspath(__file__)))

COMMON_NOTE = (
    "Trusted: Coq 8.16.1 kernel incl. vm_compute (no native_compute); no axioms declared by the development "
    "(Print Assumptions of every property theorem is recorded in the evidence); the hand-written Gallina model is "
    "tied to /repo by a correspondence suite executed on every run (same generated inputs through the real Python "
    "and through the model evaluated by coqc); harness generators/encoders, the virtual-time loop, the "
    "llama_index_instrumentation no-op shim and harness/translate.py (fail-closed constants/shape extraction)."
)

# id -> (level text, extra note, technique, design_ref)
CLAIMED = {
    "C01": (
        "Rocq theorems over the executable Gallina model of control_loop.py's reducer (Model/Engine.v): per step "
        "|in_progress| <= num_workers, worker ids distinct and in [0,num_workers) is an invariant of every tick of "
        "every kind for every retry-policy oracle (induction over arbitrary tick histories), holds for fresh and "
        "deserialized states, is re-established by rewind_in_progress/rebuild; the 'no free id' IndexError branch is "
        "dead; every CommandRunWorker (first run, retry, waiter replay, collect re-run) names a slot held in the "
        "resulting in_progress, and a slot is released only by the step-result tick of that slot. Tied to the code by "
        "the L1 reducer differential (real _reduce_tick/rewind/serde/rebuild vs model, exact states+commands) and an "
        "L2 monitor on the real engine under gate-driven schedules. Run loop (Model/Runner.v, Proofs/RunnerSlots.v): for "
        "every schedule of worker completions, deliveries and clock advances, while the run is live the in-flight "
        "invocations (to start, started, finished-not-harvested, result tick buffered) hold pairwise distinct "
        "(step, slot) keys, each a slot of the step's in_progress, hence at most num_workers per step; conversely no "
        "slot leaks: whenever the live loop of a fresh run blocks, the in_progress slots are exactly the in-flight "
        "invocations and each belongs to a started, unfinished worker (Proofs/RunnerSlotsExact.v); the runner model "
        "is tied to _ControlLoopRunner by the runner differential (complete tick log, stream and outcome, exact).",
        "asyncio task scheduling itself is exercised (L2 monitor, runner differential on gate-driven workflows), not "
        "modelled; the runner theorem assumes one collect_events result per buffer call and add-event-only mailboxes; "
        "commands of rewind_in_progress are covered by correspondence only.",
        "Rocq proof (invariant by induction over tick histories, pigeonhole for slot availability) + L1/L2 correspondence",
        "DESIGN.md §7 C01, §13"),
    "C02": (
        "Rocq theorems giving the exact effect of _process_add_event_tick on every step for every state with unique "
        "step names: a step with a still-waiting matching waiter (the addressed one if a target is given) gets the "
        "event as wait result and only replays are admitted; otherwise a step whose accepted types contain exactly "
        "the event's type gets the attempt exactly once (queue tail or fresh worker); every other step is unchanged; "
        "UnhandledEvent is published exactly once iff nobody takes it and it is not an InputRequiredEvent; a returned "
        "event becomes exactly one queue command. Tied by the L1 reducer differential + the same statement evaluated "
        "on real transitions + L2 tick-log/delivery monitor on real runs (targeted/broadcast sends). Run loop "
        "(Model/Runner.v, Proofs/RunnerConserve.v), for every schedule of worker completions, deliveries and clock "
        "advances: while the run is live the events that entered it (start event, every event a reducer command "
        "queued, every event a body or caller sent) are, with multiplicity, exactly the add-event ticks the reducer "
        "processed plus those still in the tick buffer, mailbox or timer heap (C02_run_loop_conserves_events), and the "
        "loop blocks only when tick buffer and mailbox are empty and no timer is due "
        "(C02_run_loop_blocks_only_when_quiescent); tied to _ControlLoopRunner by the runner differential (complete "
        "tick log, stream, outcome, exact).",
        "asyncio queues themselves are exercised (L2 monitor, runner differential on gate-driven workflows), not "
        "modelled; the ghost field envlog of the runner model records what the environment put into the mailbox.",
        "Rocq proof (exact relational characterisation, Forall2 over steps) + L1/L2 correspondence",
        "DESIGN.md §7 C02, §13"),
    "C10": (
        "Rocq theorems over the reducer model: on every add-event tick each waiter is either freshly resolved "
        "(it was neither resolved nor timed out and the event has the requested type and satisfies every requirement) "
        "or left untouched; exactly one replay is admitted per freshly resolved waiter; a resolved or pending waiter "
        "is never matched again however many events arrive; a timeout tick after resolution is a no-op; waiter_event "
        "publication and timeout scheduling happen only when the waiter id is new. Tied by the L1 reducer "
        "differential (incl. serialize/resume/rehydrate ops) + the statement on real transitions + L2 monitor on "
        "real wait workflows (duplicate/early responses, timeouts; snapshots of waiting runs restored after 0-2 extra "
        "serialization round trips, then given non-matching and matching events). Run loop (Model/Runner.v, "
        "Proofs/RunnerConserveWT.v), every schedule: the waiter timeouts the reducer scheduled are, with multiplicity, "
        "exactly the timeout ticks it processed plus those still in the timer heap / buffer / mailbox "
        "(C10_run_loop_conserves_waiter_timeouts); a time-out registered at clock reading c with timeout t is entered for "
        "c + t and never reaches the reducer earlier (C10_run_loop_waiter_timeout_is_scheduled_at_registration_plus_timeout, "
        "C10_run_loop_no_timeout_fires_early; Proofs/RunnerFire.v); tied to _ControlLoopRunner by the runner differential. PARTIAL: "
        "after serialization requirements are re-established by the replayed step registering the wait again - user "
        "code, covered by correspondence (OSerde/OResume ops, waitflow snapshot/resume runs), not by a theorem.",
        "asyncio timers are exercised under the virtual-time loop (L2 monitor, runner differential), not modelled.",
        "Rocq proof (case analysis + induction over waiter lists) + L1/L2 correspondence",
        "DESIGN.md §7 C10, §13"),
    "C07": (
        "Rocq theorems over the deep embedding of retry_policy.py (all parameters in Q, all attempt numbers, all "
        "exceptions, all seeds/draws): any/all/|/& are or/and (n-ary by induction), wait_combine/+ is the sum, every "
        "strategy in its documented domain returns a non-negative delay inside [wlo,whi] including attempts where "
        "exp_base**attempts overflows, jitter is a function of the seed. Tied to the code by exact differential "
        "evaluation of real strategy objects vs the model plus an implementation-side monitor of the same laws.",
        "Floats are abstracted to rationals (generator keeps parameters dyadic so Python results are exact; "
        "jittered results compared within 2^-40 relative); random.Random(seed) determinism is assumed; "
        "regex `match=` predicates are treated as user predicates.",
        "Rocq proof (induction over nested strategy terms, lra) + differential correspondence via vm_compute",
        "DESIGN.md §7 C07"),
}

REASON_PENDING = "check not built yet in this session; planned as described in DESIGN.md §7 (no other technique substituted)"


def load_fragments():
    """harness/manifest.d/Cxx.json: {"text":..., "note":..., "technique":..., "design_ref":...} per claimed
    property, or {"not_applicable": reason}."""
    d = os.path.join(VERIF, "harness", "manifest.d")
    if not os.path.isdir(d):
        return
    ready = set(open(os.path.join(VERIF, "harness", "claimed.txt")).read().split())
    for f in sorted(os.listdir(d)):
        if f.endswith(".json"):
            pid = f[:-5]
            if pid not in ready:
                continue   # fragment written by a builder whose check is not integrated yet
            j = json.load(open(os.path.join(d, f)))
            if "not_applicable" in j:
                NA[pid] = j["not_applicable"]
                CLAIMED.pop(pid, None)
            else:
                CLAIMED[pid] = (j["text"], j.get("note", ""), j["technique"], j.get("design_ref", "DESIGN.md §7 %s, §14" % pid))


def main():
    load_fragments()
    props = [json.loads(l) for l in open(os.path.join(VERIF, "properties.jsonl"))]
    checks, na = [], []
    for p in props:
        pid = p["id"]
        if pid in CLAIMED:
            text, note, tech, ref = CLAIMED[pid]
            checks.append(dict(
                property_id=pid,
                quick_cmd="bin/check %s --tier quick" % pid,
                thorough_cmd="bin/check %s --tier thorough" % pid,
                evidence_file="/verif/evidence/%s.json" % pid,
                replay_cmd_template="bin/check %s --replay {path}" % pid,
                engine="rocq-model+correspondence",
                level_claimed=dict(category="proof", text=text, design_ref=ref),
                level_note=COMMON_NOTE + " " + note,
                technique=tech))
        else:
            na.append(dict(property_id=pid, reason=NA.get(pid, REASON_PENDING)))
    man = dict(
        version=1,
        setup_cmd="bin/setup",
        hooks=dict(guard="WORKFLOWS_PY_VERIF",
                   enable="checks export WORKFLOWS_PY_VERIF=1 (bin/check); no source hooks are currently needed — "
                          "all observation goes through public APIs, runtime decorators and the harness event loop",
                   baseline_off_cmd="cd /repo && /venv/bin/python -m pytest -ra -q -p no:cacheprovider --timeout=900 "
                                    "--continue-on-collection-errors",
                   source_commits=[], add_only=True),
        engines=[dict(name="rocq-model+correspondence", path="/verif/coq + /verif/harness",
                      serves_properties=sorted(CLAIMED),
                      kind_free_text="Rocq (Coq 8.16.1) theorems over executable Gallina models; models tied to "
                                     "/repo by differential correspondence suites evaluated with vm_compute")],
        checks=checks,
        notes="See DESIGN.md. known_findings.json lists genuine defects (known / fixed).",
        not_applicable=na)
    with open(os.path.join(VERIF, "MANIFEST.json"), "w") as f:
        json.dump(man, f, indent=1)
    print("MANIFEST.json: %d checks, %d not_applicable" % (len(checks), len(na)))


NA = {}

if __name__ == "__main__":
    main()
