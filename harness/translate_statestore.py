"""Translator part for C19/C20/C21 (state stores): shape facts of the source, fail closed.

  statestore_max_depth                     MAX_DEPTH of workflows/context/state_store.py
  statestore_dictlike_copy_copies_data     DictLikeModel defines __copy__ and gives the copy its own `_data`
  statestore_pathstep_dictlike_by_name     traverse_path_step and assign_path_step resolve a segment on a
                                           DictLikeModel by name (isinstance test before the int() attempt)
  statestore_memory_locked                 [get; set; set_state; edit_state] of InMemoryStateStore: is the
                                           body one `async with self._lock:` block?
  statestore_sqlite_locked                 [get; set; set_state; edit_state] of SqliteStateStore (set is
                                           counted as locked when it is one `async with self.edit_state()`)
  statestore_sqlite_closes_only_own_conn   no `conn.close()` in SqliteStateStore outside a `_release`
                                           helper that is guarded by `conn is not self._shared_conn`
A function or class that is missing, or a recognised construct in an unexpected position, raises."""
import ast


class Err(Exception):
    pass


SS = "packages/llama-index-workflows/src/workflows/context/state_store.py"
EV = "packages/llama-index-workflows/src/workflows/events.py"
SQ = "packages/llama-agents-server/src/llama_agents/server/_store/sqlite/sqlite_state_store.py"


def _cls(mod, name):
    for n in mod.body:
        if isinstance(n, ast.ClassDef) and n.name == name:
            return n
    raise Err("class %s not found" % name)


def _fn(node, name, required=True):
    for n in node.body:
        if isinstance(n, (ast.FunctionDef, ast.AsyncFunctionDef)) and n.name == name:
            return n
    if required:
        raise Err("function %s not found in %s" % (name, getattr(node, "name", "module")))
    return None


def _body(fn):
    """Statements of a function without its docstring."""
    b = list(fn.body)
    if b and isinstance(b[0], ast.Expr) and isinstance(b[0].value, ast.Constant) and isinstance(b[0].value.value, str):
        b = b[1:]
    return b


def _is_self_attr(e, attr):
    return isinstance(e, ast.Attribute) and e.attr == attr and isinstance(e.value, ast.Name) and e.value.id == "self"


def _locked(fn):
    """True: the whole body is `async with self._lock:`; False: self._lock is not mentioned;
    anything else (lock taken around part of the body) is an unknown shape."""
    b = _body(fn)
    mentions = any(_is_self_attr(n, "_lock") for n in ast.walk(fn))
    if len(b) == 1 and isinstance(b[0], ast.AsyncWith) and len(b[0].items) == 1 \
            and _is_self_attr(b[0].items[0].context_expr, "_lock"):
        return True
    if mentions:
        raise Err("%s: self._lock used, but not as one block around the whole body" % fn.name)
    return False


def _via_edit_state(fn):
    b = _body(fn)
    if len(b) == 1 and isinstance(b[0], ast.AsyncWith) and len(b[0].items) == 1:
        c = b[0].items[0].context_expr
        return isinstance(c, ast.Call) and _is_self_attr(c.func, "edit_state")
    return False


def _isinstance_dictlike(stmt):
    if not isinstance(stmt, ast.If):
        return False
    t = stmt.test
    return (isinstance(t, ast.Call) and isinstance(t.func, ast.Name) and t.func.id == "isinstance"
            and len(t.args) == 2 and isinstance(t.args[1], ast.Name) and t.args[1].id == "DictLikeModel")


def _by_name(fn):
    b = _body(fn)
    pos_try = next((i for i, s in enumerate(b) if isinstance(s, ast.Try)
                    and any(isinstance(n, ast.Call) and isinstance(n.func, ast.Name) and n.func.id == "int"
                            for n in ast.walk(s))), None)
    if pos_try is None:
        raise Err("%s: the int(segment) attempt was not found" % fn.name)
    pos_if = [i for i, s in enumerate(b) if _isinstance_dictlike(s)]
    if not pos_if:
        if any(isinstance(n, ast.Name) and n.id == "DictLikeModel" for n in ast.walk(fn)):
            raise Err("%s: DictLikeModel mentioned in an unexpected position" % fn.name)
        return False
    if pos_if[0] > pos_try:
        raise Err("%s: DictLikeModel test after the int() attempt" % fn.name)
    stmt = b[pos_if[0]]
    if any(isinstance(n, ast.Call) and isinstance(n.func, ast.Name) and n.func.id == "int" for n in ast.walk(stmt)):
        raise Err("%s: DictLikeModel branch converts the segment" % fn.name)
    return True


def _copy_flag(cls):
    fn = _fn(cls, "__copy__", required=False)
    if fn is None:
        return False
    for n in ast.walk(fn):
        if isinstance(n, ast.Assign) and len(n.targets) == 1 and isinstance(n.targets[0], ast.Attribute) \
                and n.targets[0].attr == "_data":
            v = n.value
            if _is_self_attr(v, "_data"):
                raise Err("DictLikeModel.__copy__ shares _data")
            return True
    raise Err("DictLikeModel.__copy__ has an unexpected shape (no assignment to ._data)")


def _closes_only_own(cls):
    rel = _fn(cls, "_release", required=False)
    bare = 0
    for fn in cls.body:
        if not isinstance(fn, (ast.FunctionDef, ast.AsyncFunctionDef)) or fn.name == "_release":
            continue
        for n in ast.walk(fn):
            if isinstance(n, ast.Call) and isinstance(n.func, ast.Attribute) and n.func.attr == "close":
                bare += 1
    if rel is None:
        if bare == 0:
            raise Err("SqliteStateStore: no close() calls and no _release helper")
        return False
    guarded = False
    for n in ast.walk(rel):
        if isinstance(n, ast.If) and isinstance(n.test, ast.Compare) and len(n.test.ops) == 1 \
                and isinstance(n.test.ops[0], ast.IsNot) and _is_self_attr(n.test.comparators[0], "_shared_conn"):
            guarded = any(isinstance(c, ast.Call) and isinstance(c.func, ast.Attribute) and c.func.attr == "close"
                          for c in ast.walk(n))
    if not guarded:
        raise Err("SqliteStateStore._release is not guarded by `conn is not self._shared_conn`")
    return bare == 0


def _b(x):
    return "true" if x else "false"


def extract(src):
    ss = ast.parse(src(SS))
    ev = ast.parse(src(EV))
    sq = ast.parse(src(SQ))
    out = ["(* from %s, %s, %s *)" % (SS, EV, SQ)]
    md = None
    for n in ss.body:
        if isinstance(n, ast.Assign) and len(n.targets) == 1 and isinstance(n.targets[0], ast.Name) \
                and n.targets[0].id == "MAX_DEPTH":
            md = n.value
    if not (isinstance(md, ast.Constant) and isinstance(md.value, int) and not isinstance(md.value, bool)):
        raise Err("MAX_DEPTH is not an integer constant")
    out.append("Definition statestore_max_depth : Z := %d." % md.value)
    out.append("Definition statestore_dictlike_copy_copies_data : bool := %s." % _b(_copy_flag(_cls(ev, "DictLikeModel"))))
    t, a = _by_name(_fn(ss, "traverse_path_step")), _by_name(_fn(ss, "assign_path_step"))
    if t != a:
        raise Err("traverse_path_step and assign_path_step treat DictLikeModel differently")
    out.append("Definition statestore_pathstep_dictlike_by_name : bool := %s." % _b(t))
    mem = _cls(ss, "InMemoryStateStore")
    out.append("Definition statestore_memory_locked : list bool := [%s]." % "; ".join(
        _b(_locked(_fn(mem, m))) for m in ("get", "set", "set_state", "edit_state")))
    sql = _cls(sq, "SqliteStateStore")
    edit_locked = _locked(_fn(sql, "edit_state"))
    set_fn = _fn(sql, "set")
    set_locked = edit_locked if _via_edit_state(set_fn) else _locked(set_fn)
    out.append("Definition statestore_sqlite_locked : list bool := [%s]." % "; ".join(
        _b(x) for x in (_locked(_fn(sql, "get")), set_locked, _locked(_fn(sql, "set_state")), edit_locked)))
    out.append("Definition statestore_sqlite_closes_only_own_conn : bool := %s." % _b(_closes_only_own(sql)))
    return "\n".join(out)
