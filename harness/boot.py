"""Make the real /repo sources importable inside the harness (no installs, no edits).

Import this first in every harness process that executes repository code.
"""
import logging
import os
import sys
import types

HARNESS = os.path.dirname(os.path.abspath(__file__))
VERIF = os.path.dirname(HARNESS)
REPO = os.environ.get("VERIF_REPO", "/repo")
PK = os.path.join(REPO, "packages")

# The guard for (currently none) source hooks in /repo; checks always run with it on.
os.environ.setdefault("WORKFLOWS_PY_VERIF", "1")

import vloop  # noqa: E402

vloop.install()  # before any repo import

_SRC = [
    "llama-index-workflows", "llama-agents-server", "llama-agents-client",
    "llama-agents-core", "llama-agents-dbos", "llama-agents-control-plane", "llamactl",
]
for p in _SRC:
    d = os.path.join(PK, p, "src")
    if d not in sys.path:
        sys.path.insert(0, d)
sys.path.insert(0, os.path.join(REPO, "src"))
sys.path.insert(0, os.path.join(HARNESS, "shims"))
if HARNESS not in sys.path:
    sys.path.insert(0, HARNESS)

logging.disable(logging.CRITICAL)


def bare(name, path):
    """Register a package object without running its __init__ (which imports absent libs)."""
    if name in sys.modules:
        return sys.modules[name]
    m = types.ModuleType(name)
    m.__path__ = [path]
    sys.modules[name] = m
    return m


def enable_server():
    bare("llama_agents.server", os.path.join(PK, "llama-agents-server/src/llama_agents/server"))


def enable_ext_shims():
    d = os.path.join(HARNESS, "shims_ext")
    if d not in sys.path:
        sys.path.insert(1, d)


def enable_cli():
    bare("llama_agents.cli", os.path.join(PK, "llamactl/src/llama_agents/cli"))


def enable_control_plane():
    bare("llama_agents.control_plane",
         os.path.join(PK, "llama-agents-control-plane/src/llama_agents/control_plane"))
