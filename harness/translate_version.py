"""C34 translator part: the shape of `_SEMVER_PRERELEASE_RE`, `_PEP440_LABELS`, the separators used
by `pep440_to_semver` / `semver_to_pep440` (src/dev_cli/changesets.py) and the decision list of
`detect_change_type` (src/dev_cli/versioning.py), as Coq data.

Fail closed: every unrecognised shape raises Err; translate.py then withholds all c34_* definitions
(an error marker is written instead) so that the C34 development stops compiling.  Local variables
are identified by role, not by spelling.  The regular expression is read through Python's own
regex parser."""
import ast
import re
import re._constants as RC
import re._parser as RP

CHG = "src/dev_cli/changesets.py"
VER = "src/dev_cli/versioning.py"

CLASS_CODE = {"none": 0, "patch": 1, "minor": 2, "major": 3}
OP_CODE = {ast.Lt: 0, ast.LtE: 1, ast.Gt: 2, ast.GtE: 3, ast.Eq: 4, ast.NotEq: 5}


class Err(Exception):
    pass


def _z(n):
    return "(%d)" % n if n < 0 else "%d" % n


def _cps(s):
    if not all(ord(c) < 128 for c in s):
        raise Err("non-ASCII literal %r" % s)
    return "[" + "; ".join(str(ord(c)) for c in s) + "]"


def _ranges(rs):
    return "[" + "; ".join("(%s, %s)" % (_z(a), _z(b)) for a, b in rs) + "]"


def _func(mod, name):
    fs = [n for n in mod.body if isinstance(n, ast.FunctionDef) and n.name == name]
    if len(fs) != 1:
        raise Err("expected exactly one module-level def %s" % name)
    return fs[0]


def _is_name(n, name):
    return isinstance(n, ast.Name) and n.id == name


def _str(n, what):
    if not (isinstance(n, ast.Constant) and isinstance(n.value, str)):
        raise Err("%s: expected a string literal" % what)
    return n.value


def _body(fn):
    """statements without the docstring"""
    b = list(fn.body)
    if b and isinstance(b[0], ast.Expr) and isinstance(b[0].value, ast.Constant) and isinstance(b[0].value.value, str):
        b = b[1:]
    return b


# ---- the regex ------------------------------------------------------------------------------
def _digits_plus(item):
    """\\d+ : MAX_REPEAT(1, inf, [IN [CATEGORY_DIGIT]])"""
    if item[0] is not RC.MAX_REPEAT:
        return False
    lo, hi, body = item[1]
    body = list(body)
    return (lo == 1 and hi is RC.MAXREPEAT and len(body) == 1 and body[0][0] is RC.IN
            and list(body[0][1]) == [(RC.CATEGORY, RC.CATEGORY_DIGIT)])


def _lit(item):
    return item[1] if item[0] is RC.LITERAL else None


def semver_regex(pat):
    """^(BASE)-([letters]+)\\.(\\d+)$ with BASE = \\d+\\.\\d+\\.\\d+ (exactly n) or \\d+(?:\\.\\d+)* (any)
    -> (exact component count or None, base separator, '-' literal, label ranges, '.' literal)"""
    try:
        p = RP.parse(pat)
    except re.error as e:
        raise Err("_SEMVER_PRERELEASE_RE: %s" % e)
    if p.state.flags & ~re.UNICODE:
        raise Err("_SEMVER_PRERELEASE_RE: inline flags not supported")
    p = list(p)
    bad = Err("_SEMVER_PRERELEASE_RE %r: expected ^(<release>)-([letters]+)\\.(\\d+)$" % pat)
    if len(p) != 7 or p[0] != (RC.AT, RC.AT_BEGINNING) or p[6] != (RC.AT, RC.AT_END):
        raise bad
    g1, dash, g2, dot, g3 = p[1:6]
    if any(g[0] is not RC.SUBPATTERN for g in (g1, g2, g3)) or _lit(dash) is None or _lit(dot) is None:
        raise bad
    if [g[1][0] for g in (g1, g2, g3)] != [1, 2, 3] or any(g[1][1] or g[1][2] for g in (g1, g2, g3)):
        raise bad
    # group 3: \d+
    b3 = list(g3[1][3])
    if len(b3) != 1 or not _digits_plus(b3[0]):
        raise bad
    # group 2: [ranges]+
    b2 = list(g2[1][3])
    if len(b2) != 1 or b2[0][0] is not RC.MAX_REPEAT:
        raise bad
    lo, hi, lb = b2[0][1]
    lb = list(lb)
    if lo != 1 or hi is not RC.MAXREPEAT or len(lb) != 1 or lb[0][0] is not RC.IN:
        raise bad
    ranges = []
    for op, av in lb[0][1]:
        if op is RC.RANGE:
            ranges.append((av[0], av[1]))
        elif op is RC.LITERAL:
            ranges.append((av, av))
        else:
            raise bad
    # group 1: the release part
    b1 = list(g1[1][3])
    if not b1 or not _digits_plus(b1[0]):
        raise bad
    if len(b1) == 2 and b1[1][0] is RC.MAX_REPEAT:
        lo, hi, rb = b1[1][1]
        rb = list(rb)
        if lo != 0 or hi is not RC.MAXREPEAT:
            raise bad
        if len(rb) == 1 and rb[0][0] is RC.SUBPATTERN and rb[0][1][0] is None:
            inner = list(rb[0][1][3])
        else:
            inner = rb          # a non-capturing group is flattened by the parser
        if len(inner) != 2 or _lit(inner[0]) is None or not _digits_plus(inner[1]):
            raise bad
        return None, _lit(inner[0]), _lit(dash), ranges, _lit(dot)
    # \d+ (sep \d+){n-1}
    if len(b1) % 2 != 1:
        raise bad
    seps = set()
    for i in range(1, len(b1), 2):
        if _lit(b1[i]) is None or not _digits_plus(b1[i + 1]):
            raise bad
        seps.add(_lit(b1[i]))
    if len(seps) > 1:
        raise bad
    n = (len(b1) + 1) // 2
    return n, (seps.pop() if seps else ord(".")), _lit(dash), ranges, _lit(dot)


# ---- extraction -----------------------------------------------------------------------------
def _fstring_parts(js, what):
    """f-string -> list of ('v', name) | ('s', text)"""
    if not isinstance(js, ast.JoinedStr):
        raise Err("%s: expected an f-string" % what)
    out = []
    for v in js.values:
        if isinstance(v, ast.Constant) and isinstance(v.value, str):
            out.append(("s", v.value))
        elif isinstance(v, ast.FormattedValue) and isinstance(v.value, ast.Name) and v.conversion == -1 \
                and v.format_spec is None:
            out.append(("v", v.value.id))
        else:
            raise Err("%s: unsupported f-string piece" % what)
    return out


def extract(src):
    out = ["(* C34, from %s *)" % CHG]
    mod = ast.parse(src(CHG), filename=CHG)
    labels = rx = None
    for n in mod.body:
        if isinstance(n, ast.Assign) and len(n.targets) == 1 and _is_name(n.targets[0], "_PEP440_LABELS"):
            labels = n.value
        if isinstance(n, ast.Assign) and len(n.targets) == 1 and _is_name(n.targets[0], "_SEMVER_PRERELEASE_RE"):
            rx = n.value
    if not (isinstance(labels, ast.Set) and labels.elts):
        raise Err("_PEP440_LABELS: expected a non-empty set literal")
    labs = sorted(_str(e, "_PEP440_LABELS element") for e in labels.elts)
    out.append("Definition c34_pep440_labels : list (list Z) := [%s]." % "; ".join(_cps(s) for s in labs))
    if not (isinstance(rx, ast.Call) and isinstance(rx.func, ast.Attribute) and rx.func.attr == "compile"
            and _is_name(rx.func.value, "re") and len(rx.args) == 1 and not rx.keywords):
        raise Err("_SEMVER_PRERELEASE_RE: expected re.compile(<pattern>) without flags")
    exact, bsep, dash, ranges, dot = semver_regex(_str(rx.args[0], "_SEMVER_PRERELEASE_RE"))
    out.append("Definition c34_semver_base_exact : option Z := %s."
               % ("None" if exact is None else "(Some %d)" % exact))
    out.append("Definition c34_semver_base_sep : Z := %s." % _z(bsep))
    out.append("Definition c34_semver_pre_sep : Z := %s." % _z(dash))
    out.append("Definition c34_semver_label_ranges : list (Z * Z) := %s." % _ranges(ranges))
    out.append("Definition c34_semver_num_sep : Z := %s." % _z(dot))

    # semver_to_pep440: match / unchanged / label check / concatenation of the three groups in order
    s2p = _func(mod, "semver_to_pep440")
    if len(s2p.args.args) != 1:
        raise Err("semver_to_pep440: expected one parameter")
    arg = s2p.args.args[0].arg
    b = _body(s2p)
    if len(b) != 5:
        raise Err("semver_to_pep440: expected match / if-not-match / unpack / label test / return")
    m = b[0]
    if not (isinstance(m, ast.Assign) and isinstance(m.value, ast.Call) and isinstance(m.value.func, ast.Attribute)
            and _is_name(m.value.func.value, "_SEMVER_PRERELEASE_RE") and m.value.func.attr in ("match", "fullmatch")
            and len(m.value.args) == 1 and _is_name(m.value.args[0], arg) and isinstance(m.targets[0], ast.Name)):
        raise Err("semver_to_pep440: expected <m> = _SEMVER_PRERELEASE_RE.match(<version>)")
    mv = m.targets[0].id
    out.append("Definition c34_semver_fullmatch : bool := %s." % ("true" if m.value.func.attr == "fullmatch" else "false"))
    if not (isinstance(b[1], ast.If) and ast.unparse(b[1].test) == "not %s" % mv and not b[1].orelse
            and len(b[1].body) == 1 and isinstance(b[1].body[0], ast.Return) and _is_name(b[1].body[0].value, arg)):
        raise Err("semver_to_pep440: expected `if not <m>: return <version>`")
    u = b[2]
    if not (isinstance(u, ast.Assign) and isinstance(u.targets[0], ast.Tuple) and len(u.targets[0].elts) == 3
            and all(isinstance(e, ast.Name) for e in u.targets[0].elts)
            and ast.unparse(u.value) == "%s.groups()" % mv):
        raise Err("semver_to_pep440: expected <base>, <label>, <num> = <m>.groups()")
    g = [e.id for e in u.targets[0].elts]
    t = b[3]
    if not (isinstance(t, ast.If) and ast.unparse(t.test) == "%s not in _PEP440_LABELS" % g[1] and not t.orelse
            and len(t.body) == 1 and isinstance(t.body[0], ast.Raise)
            and isinstance(t.body[0].exc, ast.Call) and _is_name(t.body[0].exc.func, "ValueError")):
        raise Err("semver_to_pep440: expected `if <label> not in _PEP440_LABELS: raise ValueError(..)`")
    if not isinstance(b[4], ast.Return):
        raise Err("semver_to_pep440: expected a final return")
    parts = _fstring_parts(b[4].value, "semver_to_pep440 result")
    order = []
    for kind, v in parts:
        if kind == "s" or v not in g:
            raise Err("semver_to_pep440: the result must be a concatenation of the matched groups only")
        order.append(g.index(v) + 1)
    out.append("Definition c34_s2p_group_order : list Z := [%s]." % "; ".join(str(i) for i in order))

    # pep440_to_semver
    p2s = _func(mod, "pep440_to_semver")
    if len(p2s.args.args) != 1:
        raise Err("pep440_to_semver: expected one parameter")
    parg = p2s.args.args[0].arg
    b = _body(p2s)
    if len(b) != 5:
        raise Err("pep440_to_semver: expected parse / base / if-final / unpack / return")
    if not (isinstance(b[0], ast.Assign) and isinstance(b[0].targets[0], ast.Name)
            and ast.unparse(b[0].value) == "Version(%s)" % parg):
        raise Err("pep440_to_semver: expected <v> = Version(<version>)")
    vv = b[0].targets[0].id
    jb = b[1]
    if not (isinstance(jb, ast.Assign) and isinstance(jb.targets[0], ast.Name) and isinstance(jb.value, ast.Call)
            and isinstance(jb.value.func, ast.Attribute) and jb.value.func.attr == "join"
            and len(jb.value.args) == 1
            and ast.unparse(jb.value.args[0]) == "(str(x) for x in %s.release)" % vv):
        raise Err("pep440_to_semver: expected <base> = \"<sep>\".join(str(x) for x in <v>.release)")
    base = jb.targets[0].id
    rsep = _str(jb.value.func.value, "release separator")
    if not (isinstance(b[2], ast.If) and ast.unparse(b[2].test) == "%s.pre is None" % vv and not b[2].orelse
            and len(b[2].body) == 1 and isinstance(b[2].body[0], ast.Return) and _is_name(b[2].body[0].value, base)):
        raise Err("pep440_to_semver: expected `if <v>.pre is None: return <base>`")
    u = b[3]
    if not (isinstance(u, ast.Assign) and isinstance(u.targets[0], ast.Tuple) and len(u.targets[0].elts) == 2
            and all(isinstance(e, ast.Name) for e in u.targets[0].elts) and ast.unparse(u.value) == "%s.pre" % vv):
        raise Err("pep440_to_semver: expected <label>, <num> = <v>.pre")
    lab, num = [e.id for e in u.targets[0].elts]
    if not isinstance(b[4], ast.Return):
        raise Err("pep440_to_semver: expected a final return")
    parts = _fstring_parts(b[4].value, "pep440_to_semver result")
    if [k for k, _ in parts] != ["v", "s", "v", "s", "v"] or [v for k, v in parts if k == "v"] != [base, lab, num]:
        raise Err("pep440_to_semver: expected f\"{base}<s1>{label}<s2>{num}\"")
    out.append("Definition c34_p2s_release_sep : list Z := %s." % _cps(rsep))
    out.append("Definition c34_p2s_pre_sep : list Z := %s." % _cps(parts[1][1]))
    out.append("Definition c34_p2s_num_sep : list Z := %s." % _cps(parts[3][1]))

    # detect_change_type
    out.append("(* C34, from %s *)" % VER)
    vm = ast.parse(src(VER), filename=VER)
    dc = _func(vm, "detect_change_type")
    if len(dc.args.args) != 2:
        raise Err("detect_change_type: expected two parameters")
    a_cur, a_prev = [a.arg for a in dc.args.args]
    b = _body(dc)

    def ret_class(stmt, what):
        if not (isinstance(stmt, ast.Return) and isinstance(stmt.value, ast.Constant)
                and stmt.value.value in CLASS_CODE):
            raise Err("detect_change_type: %s must return one of %s" % (what, sorted(CLASS_CODE)))
        return CLASS_CODE[stmt.value.value]

    def guarded(stmt, what):
        if not (isinstance(stmt, ast.If) and not stmt.orelse and len(stmt.body) == 1):
            raise Err("detect_change_type: %s: expected `if ..: return \"..\"`" % what)
        return stmt.test, ret_class(stmt.body[0], what)

    if len(b) < 7:
        raise Err("detect_change_type: unexpected structure")
    test, cls = guarded(b[0], "first-release test")
    if ast.unparse(test) != "not %s" % a_prev:
        raise Err("detect_change_type: expected `if not <previous_version>`")
    out.append("Definition c34_first_release_class : Z := %d." % cls)
    vs = {}
    for st in (b[1], b[2]):        # the two parses are independent: either order
        if not (isinstance(st, ast.Assign) and len(st.targets) == 1 and isinstance(st.targets[0], ast.Name)
                and isinstance(st.value, ast.Call) and _is_name(st.value.func, "Version")
                and len(st.value.args) == 1 and not st.value.keywords
                and isinstance(st.value.args[0], ast.Name) and st.value.args[0].id in (a_cur, a_prev)):
            raise Err("detect_change_type: expected <x> = Version(<arg>) for both arguments")
        vs[st.value.args[0].id] = st.targets[0].id
    if set(vs) != {a_cur, a_prev}:
        raise Err("detect_change_type: expected both arguments to be parsed with Version()")
    cur, prev = vs[a_cur], vs[a_prev]
    test, cls = guarded(b[3], "none test")
    if not (isinstance(test, ast.Compare) and len(test.ops) == 1 and type(test.ops[0]) in OP_CODE
            and _is_name(test.left, cur) and _is_name(test.comparators[0], prev)):
        raise Err("detect_change_type: expected `if <current> <op> <previous>`")
    out.append("Definition c34_none_op : Z := %d." % OP_CODE[type(test.ops[0])])
    out.append("Definition c34_none_class : Z := %d." % cls)
    rel = {}
    pads = []
    for st in (b[4], b[5]):        # independent: either order
        v = None
        if isinstance(st, ast.Assign) and isinstance(st.value, ast.Subscript) \
                and isinstance(st.value.value, ast.BinOp) and isinstance(st.value.value.left, ast.Attribute) \
                and isinstance(st.value.value.left.value, ast.Name):
            v = st.value.value.left.value.id
        if v not in (cur, prev) or v in rel:
            raise Err("detect_change_type: expected <r> = (<v>.release + (0, ..))[:n] for both versions")
        ok = (isinstance(st, ast.Assign) and isinstance(st.targets[0], ast.Name)
              and isinstance(st.value, ast.Subscript) and isinstance(st.value.slice, ast.Slice)
              and st.value.slice.lower is None and st.value.slice.step is None
              and isinstance(st.value.slice.upper, ast.Constant) and type(st.value.slice.upper.value) is int
              and isinstance(st.value.value, ast.BinOp) and isinstance(st.value.value.op, ast.Add)
              and ast.unparse(st.value.value.left) == "%s.release" % v
              and isinstance(st.value.value.right, ast.Tuple)
              and all(isinstance(e, ast.Constant) and type(e.value) is int for e in st.value.value.right.elts))
        if not ok:
            raise Err("detect_change_type: expected <r> = (<v>.release + (0, ..))[:n]")
        rel[v] = st.targets[0].id
        pads.append(([e.value for e in st.value.value.right.elts], st.value.slice.upper.value))
    if pads[0] != pads[1]:
        raise Err("detect_change_type: the two releases are padded differently")
    out.append("Definition c34_pad : list Z := [%s]." % "; ".join(_z(x) for x in pads[0][0]))
    out.append("Definition c34_width : Z := %s." % _z(pads[0][1]))
    steps = []
    for st in b[6:-1]:
        test, cls = guarded(st, "component test")
        ok = (isinstance(test, ast.Compare) and len(test.ops) == 1 and type(test.ops[0]) in OP_CODE
              and isinstance(test.left, ast.Subscript) and _is_name(test.left.value, rel[cur])
              and isinstance(test.comparators[0], ast.Subscript) and _is_name(test.comparators[0].value, rel[prev])
              and isinstance(test.left.slice, ast.Constant) and type(test.left.slice.value) is int
              and isinstance(test.comparators[0].slice, ast.Constant)
              and test.left.slice.value == test.comparators[0].slice.value and test.left.slice.value >= 0)
        if not ok:
            raise Err("detect_change_type: expected `if <cur_release>[i] <op> <prev_release>[i]`")
        steps.append("(%d, %d, %d)" % (test.left.slice.value, OP_CODE[type(test.ops[0])], cls))
    out.append("Definition c34_steps : list (Z * Z * Z) := [%s]." % "; ".join(steps))
    out.append("Definition c34_default_class : Z := %d." % ret_class(b[-1], "the final statement"))
    return "\n".join(out)
