"""Virtual-time asyncio loop + virtual clocks.

Must be imported (and `install()` called) BEFORE any repository module is imported:
some repo code binds `time.monotonic` at definition time (Debouncer default argument).
"""
import asyncio
import datetime as _dt
import heapq
import selectors
import time

_real_mono, _real_time = time.monotonic, time.time


class Clock:
    loop = None
    wall_offset = 5e8  # wall clock = virtual monotonic + offset (different on purpose)


CLOCK = Clock()


def _mono():
    return CLOCK.loop._vt if CLOCK.loop is not None else _real_mono()


def _wall():
    return (CLOCK.loop._vt + CLOCK.wall_offset) if CLOCK.loop is not None else _real_time()


_installed = False


def install():
    global _installed
    if not _installed:
        time.monotonic = _mono
        time.time = _wall
        _installed = True


class VirtualLoop(asyncio.SelectorEventLoop):
    """Event loop whose clock only moves when nothing is ready (auto) or on demand."""

    def __init__(self, start=1000.0):
        super().__init__(selectors.SelectSelector())
        self._vt = float(start)
        self.auto = True

    def time(self):
        return self._vt

    def _run_once(self):
        if self.auto and not self._ready and self._scheduled:
            while self._scheduled and self._scheduled[0]._cancelled:
                h = heapq.heappop(self._scheduled)
                h._scheduled = False
            if self._scheduled:
                when = self._scheduled[0]._when
                if when > self._vt:
                    self._vt = when
        super()._run_once()

    def advance(self, dt):
        self._vt += dt


def run(coro, start=1000.0, auto=True, wall_offset=None):
    loop = VirtualLoop(start)
    loop.auto = auto
    old = CLOCK.wall_offset
    if wall_offset is not None:
        CLOCK.wall_offset = wall_offset
    CLOCK.loop = loop
    asyncio.set_event_loop(loop)
    try:
        return loop.run_until_complete(coro)
    finally:
        try:
            pending = [t for t in asyncio.all_tasks(loop) if not t.done()]
            for t in pending:
                t.cancel()
            if pending:
                loop.run_until_complete(asyncio.gather(*pending, return_exceptions=True))
        except BaseException:
            pass
        CLOCK.loop = None
        CLOCK.wall_offset = old
        asyncio.set_event_loop(None)
        loop.close()


async def settle(max_iter=10000):
    """Yield until the loop's ready queue is empty (only our continuation left)."""
    loop = asyncio.get_running_loop()
    for _ in range(max_iter):
        await asyncio.sleep(0)
        if not loop._ready:
            return
    raise RuntimeError("settle: loop did not become quiescent")


class VDateTime(_dt.datetime):
    @classmethod
    def now(cls, tz=None):
        if CLOCK.loop is None:
            return _dt.datetime.now(tz)
        return _dt.datetime.fromtimestamp(CLOCK.loop._vt + CLOCK.wall_offset, tz)


def patch_datetime(*modules):
    for m in modules:
        if getattr(m, "datetime", None) is _dt.datetime:
            m.datetime = VDateTime
