"""C32 translator part: constants, character classes and small expressions of
`find_deployment_id` / `_append_random_suffix` / `reserved_deployment_ids` (k8s_client.py), of the
call site in `create_deployment`, and of `_DNS_1035_RE` (schema/deployments.py), as Coq data.

Fail closed: every shape that is not recognised raises Err; translate.py then withholds all c32_*
definitions (an error marker is written instead), so the C32 development stops compiling and the
check reports a broken obligation — never a silent default.

Regular expressions are read through Python's own regex parser (`re._parser.parse`), so that the
character classes proved about are the ones the `re` module will use, not a re-reading of the
pattern text."""
import ast
import re
import re._constants as RC
import re._parser as RP

K8S = "packages/llama-agents-control-plane/src/llama_agents/control_plane/k8s_client.py"
DEP = "packages/llama-agents-core/src/llama_agents/core/schema/deployments.py"


class Err(Exception):
    pass


def _z(n):
    return "(%d)" % n if n < 0 else "%d" % n


def _zl(xs):
    return "[" + "; ".join(_z(x) for x in xs) + "]"


def _cps(s):
    return _zl([ord(c) for c in s])


def _ranges(rs):
    return "[" + "; ".join("(%s, %s)" % (_z(a), _z(b)) for a, b in rs) + "]"


def _func(mod, name):
    fs = [n for n in mod.body if isinstance(n, (ast.FunctionDef, ast.AsyncFunctionDef)) and n.name == name]
    if len(fs) != 1:
        raise Err("expected exactly one module-level def %s, found %d" % (name, len(fs)))
    return fs[0]


def _const_assign(fn, name, typ):
    hits = [n for n in ast.walk(fn) if isinstance(n, ast.Assign) and len(n.targets) == 1
            and isinstance(n.targets[0], ast.Name) and n.targets[0].id == name]
    if len(hits) != 1 or not isinstance(hits[0].value, ast.Constant) or type(hits[0].value.value) is not typ:
        raise Err("%s: expected exactly one `%s = <%s constant>`" % (fn.name, name, typ.__name__))
    return hits[0].value.value


def _str_const(node, what):
    if not (isinstance(node, ast.Constant) and isinstance(node.value, str)):
        raise Err("%s: expected a string literal, got %s" % (what, ast.dump(node)[:80]))
    if not all(ord(c) < 128 for c in node.value):
        raise Err("%s: non-ASCII literal" % what)
    return node.value


def _is_name(node, name):
    return isinstance(node, ast.Name) and node.id == name


def _call_attr(node, obj, attr):
    """node is `obj.attr(...)` with obj a Name"""
    return (isinstance(node, ast.Call) and isinstance(node.func, ast.Attribute) and node.func.attr == attr
            and _is_name(node.func.value, obj))


# ---- regex shapes ---------------------------------------------------------------------------
def _class_items(items, what, allow_negate=False):
    """items of an IN node -> (negated, [(lo, hi)])"""
    neg, rs = False, []
    for op, av in items:
        if op is RC.NEGATE:
            if not allow_negate:
                raise Err("%s: negated class not expected" % what)
            neg = True
        elif op is RC.RANGE:
            rs.append((av[0], av[1]))
        elif op is RC.LITERAL:
            rs.append((av, av))
        else:
            raise Err("%s: unsupported class item %s" % (what, op))
    return neg, rs


def _parse(pat, what):
    try:
        p = RP.parse(pat)
    except re.error as e:
        raise Err("%s: %s" % (what, e))
    if p.state.flags & ~re.UNICODE:
        raise Err("%s: inline flags not supported" % what)
    return list(p)


def subst_pattern(pat):
    """`[^...]` : one negated class -> the ranges that are KEPT"""
    p = _parse(pat, "subst pattern")
    if len(p) != 1 or p[0][0] is not RC.IN:
        raise Err("subst pattern %r: expected a single character class" % pat)
    neg, rs = _class_items(p[0][1], "subst pattern", allow_negate=True)
    if not neg:
        raise Err("subst pattern %r: expected a negated class" % pat)
    return rs


def collapse_pattern(pat):
    """`c+` : one literal repeated 1..inf (greedy)"""
    p = _parse(pat, "collapse pattern")
    if len(p) != 1 or p[0][0] is not RC.MAX_REPEAT:
        raise Err("collapse pattern %r: expected c+" % pat)
    lo, hi, body = p[0][1]
    body = list(body)
    if lo != 1 or hi is not RC.MAXREPEAT or len(body) != 1 or body[0][0] is not RC.LITERAL:
        raise Err("collapse pattern %r: expected c+" % pat)
    return body[0][1]


def strip_pattern(pat):
    """`^c|c$` : a literal at the beginning or a literal at the end"""
    p = _parse(pat, "strip pattern")
    if len(p) != 1 or p[0][0] is not RC.BRANCH:
        raise Err("strip pattern %r: expected ^c|c$" % pat)
    alts = [list(a) for a in p[0][1][1]]
    if len(alts) != 2 or len(alts[0]) != 2 or len(alts[1]) != 2:
        raise Err("strip pattern %r: expected ^c|c$" % pat)
    a, b = alts
    if not (a[0] == (RC.AT, RC.AT_BEGINNING) and a[1][0] is RC.LITERAL
            and b[1] == (RC.AT, RC.AT_END) and b[0][0] is RC.LITERAL):
        raise Err("strip pattern %r: expected ^c|c$" % pat)
    return a[1][1], b[0][1]


def dns_pattern(pat):
    """`^[F]([M]{lo,hi}[L])?$` -> (first, mid, lo, hi, last)"""
    p = _parse(pat, "_DNS_1035_RE")
    bad = Err("_DNS_1035_RE %r: expected ^[first]([mid]{lo,hi}[last])?$" % pat)
    if len(p) != 4 or p[0] != (RC.AT, RC.AT_BEGINNING) or p[3] != (RC.AT, RC.AT_END):
        raise bad
    if p[1][0] is not RC.IN or p[2][0] is not RC.MAX_REPEAT:
        raise bad
    _, first = _class_items(p[1][1], "_DNS_1035_RE first")
    lo, hi, body = p[2][1]
    body = list(body)
    if (lo, hi) != (0, 1) or len(body) != 1 or body[0][0] is not RC.SUBPATTERN:
        raise bad
    inner = list(body[0][1][3])
    if body[0][1][1] != 0 or body[0][1][2] != 0 or len(inner) != 2:
        raise bad
    if inner[0][0] is not RC.MAX_REPEAT or inner[1][0] is not RC.IN:
        raise bad
    mlo, mhi, mbody = inner[0][1]
    mbody = list(mbody)
    if mhi is RC.MAXREPEAT or len(mbody) != 1 or mbody[0][0] is not RC.IN:
        raise bad
    _, mid = _class_items(mbody[0][1], "_DNS_1035_RE middle")
    _, last = _class_items(inner[1][1], "_DNS_1035_RE last")
    return first, mid, mlo, mhi, last


# ---- small arithmetic over two names --------------------------------------------------------
def arith(node, names):
    if isinstance(node, ast.Constant) and type(node.value) is int:
        return _z(node.value)
    if isinstance(node, ast.Name) and node.id in names:
        return node.id
    if isinstance(node, ast.BinOp) and isinstance(node.op, (ast.Add, ast.Sub, ast.Mult)):
        op = {ast.Add: "+", ast.Sub: "-", ast.Mult: "*"}[type(node.op)]
        return "(%s %s %s)" % (arith(node.left, names), op, arith(node.right, names))
    raise Err("unsupported arithmetic expression %s" % ast.unparse(node))


# ---- extraction -----------------------------------------------------------------------------
# Local variables are identified by their ROLE (where they are used), not by their spelling, so
# that renaming a local is not reported as a change of behaviour.
def _assigns(fn, name):
    return [(i, n) for i, n in enumerate(fn.body) if isinstance(n, ast.Assign) and len(n.targets) == 1
            and _is_name(n.targets[0], name)]


def _int_const_of(fn, name, what):
    hits = [n for n in ast.walk(fn) if isinstance(n, ast.Assign) and len(n.targets) == 1
            and _is_name(n.targets[0], name)]
    if len(hits) != 1 or not isinstance(hits[0].value, ast.Constant) or type(hits[0].value.value) is not int:
        raise Err("%s: expected exactly one `%s = <int constant>` (%s)" % (fn.name, name, what))
    return hits[0].value.value


def extract(src):
    mod = ast.parse(src(K8S), filename=K8S)
    out = ["(* C32, from %s *)" % K8S]
    fd = _func(mod, "find_deployment_id")
    ap = _func(mod, "_append_random_suffix")
    if len(fd.args.args) != 2 or fd.args.args[1].arg != "force_suffix" or fd.args.vararg or fd.args.kwonlyargs:
        raise Err("find_deployment_id: expected parameters (<name>, force_suffix)")
    if len(ap.args.args) != 2 or ap.args.vararg or ap.args.kwonlyargs:
        raise Err("_append_random_suffix: expected two positional parameters")
    p_name = fd.args.args[0].arg
    a_id, a_max = ap.args.args[0].arg, ap.args.args[1].arg

    # id variable: target of `<id> = <name>.lower()`, the only use of lower()
    lows = [n for n in ast.walk(fd) if _call_attr(n, p_name, "lower")]
    if len(lows) != 1 or lows[0].args or lows[0].keywords:
        raise Err("find_deployment_id: expected exactly one %s.lower()" % p_name)
    first = [(i, n) for i, n in enumerate(fd.body) if isinstance(n, ast.Assign) and n.value is lows[0]
             and len(n.targets) == 1 and isinstance(n.targets[0], ast.Name)]
    if len(first) != 1:
        raise Err("find_deployment_id: expected `<id> = %s.lower()` as a top-level statement" % p_name)
    low_idx, V = first[0][0], first[0][1].targets[0].id

    subs, sub_idx = [], []
    for i, n in enumerate(fd.body):
        if isinstance(n, ast.Assign) and isinstance(n.value, ast.Call) and _call_attr(n.value, "re", "sub"):
            c = n.value
            if len(c.args) != 3 or c.keywords or not _is_name(c.args[2], V) \
                    or len(n.targets) != 1 or not _is_name(n.targets[0], V):
                raise Err("find_deployment_id: re.sub call with unexpected arguments")
            subs.append((_str_const(c.args[0], "re.sub pattern"), _str_const(c.args[1], "re.sub replacement")))
            sub_idx.append(i)
    if len(subs) != 3 or len([n for n in ast.walk(fd) if _call_attr(n, "re", "sub")]) != 3:
        raise Err("find_deployment_id: expected exactly three top-level re.sub statements")
    if not (low_idx < sub_idx[0]):
        raise Err("find_deployment_id: lower() must precede the substitutions")
    keep = subst_pattern(subs[0][0])
    out.append("Definition c32_keep_ranges : list (Z * Z) := %s." % _ranges(keep))
    out.append("Definition c32_subst_repl : list Z := %s." % _cps(subs[0][1]))
    out.append("Definition c32_collapse_char : Z := %s." % _z(collapse_pattern(subs[1][0])))
    out.append("Definition c32_collapse_repl : list Z := %s." % _cps(subs[1][1]))
    s1, s2 = strip_pattern(subs[2][0])
    out.append("Definition c32_strip_lead_char : Z := %s." % _z(s1))
    out.append("Definition c32_strip_trail_char : Z := %s." % _z(s2))
    out.append("Definition c32_strip_repl : list Z := %s." % _cps(subs[2][1]))

    # prefix: if <id> and not <id>[0].isalpha(): <id> = "<p>" + <id>
    pre = [(i, n) for i, n in enumerate(fd.body) if isinstance(n, ast.If)
           and ast.unparse(n.test) == "%s and (not %s[0].isalpha())" % (V, V)]
    if len(pre) != 1:
        raise Err("find_deployment_id: prefix test `<id> and not <id>[0].isalpha()` not found")
    pre_idx, pre_if = pre[0]
    if pre_if.orelse or len(pre_if.body) != 1 or not isinstance(pre_if.body[0], ast.Assign):
        raise Err("find_deployment_id: prefix branch has an unexpected body")
    pv = pre_if.body[0].value
    if not (isinstance(pv, ast.BinOp) and isinstance(pv.op, ast.Add) and _is_name(pv.right, V)
            and len(pre_if.body[0].targets) == 1 and _is_name(pre_if.body[0].targets[0], V)):
        raise Err("find_deployment_id: prefix assignment has an unexpected shape")
    out.append("Definition c32_prefix : list Z := %s." % _cps(_str_const(pv.left, "prefix")))

    # truncation + rstrip: <id> = <id>[:<max>].rstrip("<chars>")
    tr = []
    for i, n in enumerate(fd.body):
        v = n.value if isinstance(n, ast.Assign) else None
        if (isinstance(v, ast.Call) and isinstance(v.func, ast.Attribute) and v.func.attr == "rstrip"
                and isinstance(v.func.value, ast.Subscript) and _is_name(v.func.value.value, V)):
            tr.append((i, n))
    if len(tr) != 1 or len(tr[0][1].targets) != 1 or not _is_name(tr[0][1].targets[0], V):
        raise Err("find_deployment_id: `<id> = <id>[:<max>].rstrip(..)` not found")
    tr_idx, rs = tr[0][0], tr[0][1].value
    sl = rs.func.value.slice
    if not (isinstance(sl, ast.Slice) and sl.lower is None and sl.step is None and isinstance(sl.upper, ast.Name)):
        raise Err("find_deployment_id: truncation is not <id>[:<max>]")
    M = sl.upper.id
    if len(rs.args) != 1 or rs.keywords:
        raise Err("find_deployment_id: rstrip with unexpected arguments")
    out.append("Definition c32_max_length : Z := %s." % _z(_int_const_of(fd, M, "the truncation bound")))
    out.append("Definition c32_rstrip_chars : list Z := %s." % _cps(_str_const(rs.args[0], "rstrip chars")))
    if not (sub_idx[2] < pre_idx < tr_idx):
        raise Err("find_deployment_id: expected substitutions, then prefix, then truncation")

    # both suffix calls hand the same bound on; the retry call uses the id saved after truncation
    calls = [n for n in ast.walk(fd) if isinstance(n, ast.Call) and _is_name(n.func, "_append_random_suffix")]
    if len(calls) != 2 or not all(len(c.args) == 2 and _is_name(c.args[1], M) and not c.keywords
                                  and isinstance(c.args[0], ast.Name) for c in calls):
        raise Err("find_deployment_id: expected two calls _append_random_suffix(<id>, <max>)")

    # the "too short" test: either on the final id length, or on the alphanumerics of the
    # sanitised name (computed before the prefix is added)
    gate = [(i, n) for i, n in enumerate(fd.body) if isinstance(n, ast.If) and isinstance(n.test, ast.BoolOp)
            and isinstance(n.test.op, ast.Or) and len(n.test.values) == 2
            and _is_name(n.test.values[1], "force_suffix")]
    if len(gate) != 1:
        raise Err("find_deployment_id: `<short test> or force_suffix` not found")
    if not (tr_idx < gate[0][0]):
        raise Err("find_deployment_id: the suffix decision must follow the truncation")
    g0 = gate[0][1].test.values[0]

    def short_cmp(node, what):
        if not (isinstance(node, ast.Compare) and len(node.ops) == 1 and isinstance(node.ops[0], ast.Lt)
                and isinstance(node.comparators[0], ast.Constant) and type(node.comparators[0].value) is int
                and isinstance(node.left, ast.Call) and _is_name(node.left.func, "len")
                and len(node.left.args) == 1 and not node.left.keywords):
            raise Err("find_deployment_id: %s is not `len(..) < <int>`" % what)
        return node.left.args[0], node.comparators[0].value

    if isinstance(g0, ast.Name):
        ts = _assigns(fd, g0.id)
        if len(ts) != 1 or len([n for n in ast.walk(fd) if isinstance(n, ast.Name) and n.id == g0.id
                                and isinstance(n.ctx, ast.Store)]) != 1:
            raise Err("find_deployment_id: expected one top-level assignment to %s" % g0.id)
        arg, lim = short_cmp(ts[0][1].value, g0.id)
        if not (_call_attr(arg, V, "replace") and len(arg.args) == 2 and not arg.keywords
                and _str_const(arg.args[1], "replace target") == ""):
            raise Err("find_deployment_id: %s is not len(<id>.replace(c, \"\")) < n" % g0.id)
        rem = _str_const(arg.args[0], "replace pattern")
        if len(rem) != 1:
            raise Err("find_deployment_id: the short test removes more than one character")
        if not (sub_idx[2] < ts[0][0] < pre_idx):
            raise Err("find_deployment_id: the short test must be computed on the sanitised name, "
                      "before the prefix is added")
        out.append("Definition c32_short_on_alnum : bool := true.")
        out.append("Definition c32_short_removed : Z := %s." % _z(ord(rem)))
    else:
        arg, lim = short_cmp(g0, "short test")
        if not _is_name(arg, V):
            raise Err("find_deployment_id: short test is not on the id")
        out.append("Definition c32_short_on_alnum : bool := false.")
        out.append("Definition c32_short_removed : Z := %s." % _z(ord("-")))
    out.append("Definition c32_short_limit : Z := %s." % _z(lim))

    loops = [n for n in fd.body if isinstance(n, ast.For)]
    if len(loops) != 1 or not (isinstance(loops[0].iter, ast.Call) and _is_name(loops[0].iter.func, "range")):
        raise Err("find_deployment_id: expected one for-loop over range")
    ra = loops[0].iter.args
    if len(ra) != 2 or not all(isinstance(a, ast.Constant) and type(a.value) is int for a in ra):
        raise Err("find_deployment_id: expected range(<int>, <int>)")
    out.append("Definition c32_attempts : Z := %s." % _z(max(0, ra[1].value - ra[0].value)))

    # _append_random_suffix
    ch = [n for n in ast.walk(ap) if _call_attr(n, "random", "choices")]
    if len(ch) != 1 or len(ch[0].args) != 1 or len(ch[0].keywords) != 1 or ch[0].keywords[0].arg != "k" \
            or not isinstance(ch[0].keywords[0].value, ast.Name):
        raise Err("_append_random_suffix: expected one random.choices(<alphabet>, k=<randomness>)")
    R = ch[0].keywords[0].value.id
    out.append("Definition c32_randomness : Z := %s." % _z(_int_const_of(ap, R, "the number of hex draws")))
    out.append("Definition c32_hex_alphabet : list Z := %s." % _cps(_str_const(ch[0].args[0], "hex alphabet")))
    c1 = [n for n in ast.walk(ap) if _call_attr(n, "random", "choice")]
    if len(c1) != 1 or len(c1[0].args) != 1 or c1[0].keywords:
        raise Err("_append_random_suffix: expected one random.choice(<letters>)")
    out.append("Definition c32_letter_alphabet : list Z := %s."
               % _cps(_str_const(c1[0].args[0], "letter alphabet")))
    js = [n for n in ast.walk(ap) if isinstance(n, ast.JoinedStr)]
    if len(js) != 1 or len(js[0].values) != 3:
        raise Err("_append_random_suffix: expected one f-string {id[:to_take]}<sep>{hex}")
    a, sep, b = js[0].values
    ok = (isinstance(a, ast.FormattedValue) and a.conversion == -1 and a.format_spec is None
          and isinstance(a.value, ast.Subscript) and _is_name(a.value.value, a_id)
          and isinstance(a.value.slice, ast.Slice) and a.value.slice.lower is None and a.value.slice.step is None
          and isinstance(a.value.slice.upper, ast.Name)
          and isinstance(b, ast.FormattedValue) and isinstance(b.value, ast.Name)
          and b.conversion == -1 and b.format_spec is None)
    if not ok:
        raise Err("_append_random_suffix: f-string has an unexpected shape")
    T = a.value.slice.upper.id
    tt = [n for n in ast.walk(ap) if isinstance(n, ast.Assign) and len(n.targets) == 1 and _is_name(n.targets[0], T)]
    if len(tt) != 1:
        raise Err("_append_random_suffix: expected one assignment to %s" % T)

    def ar(node):
        if isinstance(node, ast.Constant) and type(node.value) is int:
            return _z(node.value)
        if isinstance(node, ast.Name) and node.id == a_max:
            return "max_length"
        if isinstance(node, ast.Name) and node.id == R:
            return "randomness"
        if isinstance(node, ast.BinOp) and isinstance(node.op, (ast.Add, ast.Sub, ast.Mult)):
            op = {ast.Add: "+", ast.Sub: "-", ast.Mult: "*"}[type(node.op)]
            return "(%s %s %s)" % (ar(node.left), op, ar(node.right))
        raise Err("_append_random_suffix: unsupported arithmetic in %s" % ast.unparse(node))
    out.append("Definition c32_to_take (max_length randomness : Z) : Z := %s." % ar(tt[0].value))
    out.append("Definition c32_suffix_sep : list Z := %s." % _cps(_str_const(sep, "suffix separator")))

    # reserved ids and the call site in create_deployment
    rv = None
    for n in mod.body:
        if isinstance(n, ast.Assign) and len(n.targets) == 1 and _is_name(n.targets[0], "reserved_deployment_ids"):
            rv = n.value
    if not isinstance(rv, ast.List):
        raise Err("reserved_deployment_ids: expected a module-level list literal")
    out.append("Definition c32_reserved : list (list Z) := [%s]."
               % "; ".join(_cps(_str_const(e, "reserved id")) for e in rv.elts))
    cd = _func(mod, "create_deployment")
    site = [n for n in ast.walk(cd) if isinstance(n, ast.Call) and _is_name(n.func, "find_deployment_id")]
    if len(site) != 1 or len(site[0].args) != 1 or not isinstance(site[0].args[0], ast.Name) \
            or len(site[0].keywords) != 1 or site[0].keywords[0].arg != "force_suffix" \
            or not isinstance(site[0].keywords[0].value, ast.Name):
        raise Err("create_deployment: expected find_deployment_id(<name>, force_suffix=<flag>)")
    N, F = site[0].args[0].id, site[0].keywords[0].value.id
    if N not in [a.arg for a in cd.args.args]:
        raise Err("create_deployment: the name passed to find_deployment_id is not a parameter")
    isr = [n for n in ast.walk(cd) if isinstance(n, ast.Assign) and len(n.targets) == 1 and _is_name(n.targets[0], F)]
    if len(isr) != 1 or ast.unparse(isr[0].value) != "%s.lower() in reserved_deployment_ids" % N:
        raise Err("create_deployment: expected %s = %s.lower() in reserved_deployment_ids" % (F, N))
    out.append("Definition c32_force_is_lower_name_in_reserved : bool := true.")

    # _DNS_1035_RE
    dm = ast.parse(src(DEP), filename=DEP)
    dv = None
    for n in dm.body:
        if isinstance(n, ast.Assign) and len(n.targets) == 1 and _is_name(n.targets[0], "_DNS_1035_RE"):
            dv = n.value
    if not (isinstance(dv, ast.Call) and _call_attr(dv, "re", "compile") and len(dv.args) == 1 and not dv.keywords):
        raise Err("_DNS_1035_RE: expected re.compile(<pattern>) without flags")
    first, mid, mlo, mhi, last = dns_pattern(_str_const(dv.args[0], "_DNS_1035_RE"))
    vf = _func(dm, "validate_dns_1035_label")
    m = [n for n in ast.walk(vf) if isinstance(n, ast.Call) and isinstance(n.func, ast.Attribute)
         and _is_name(n.func.value, "_DNS_1035_RE")]
    if len(m) != 1 or m[0].func.attr not in ("match", "fullmatch"):
        raise Err("validate_dns_1035_label: expected _DNS_1035_RE.match(value)")
    out.append("(* C32, from %s *)" % DEP)
    out.append("Definition c32_dns_first : list (Z * Z) := %s." % _ranges(first))
    out.append("Definition c32_dns_mid : list (Z * Z) := %s." % _ranges(mid))
    out.append("Definition c32_dns_mid_min : Z := %s." % _z(mlo))
    out.append("Definition c32_dns_mid_max : Z := %s." % _z(mhi))
    out.append("Definition c32_dns_last : list (Z * Z) := %s." % _ranges(last))
    out.append("Definition c32_dns_uses_fullmatch : bool := %s."
               % ("true" if m[0].func.attr == "fullmatch" else "false"))
    return "\n".join(out)
