"""Check framework shared by every property: Coq build/audit, case evaluation inside Coq,
violation / known-finding protocol, evidence writer."""
import fcntl
import hashlib
import json
import os
import re
import shutil
import subprocess
import sys
import time
from concurrent.futures import ThreadPoolExecutor

HARNESS = os.path.dirname(os.path.abspath(__file__))
VERIF = os.path.dirname(HARNESS)
COQ = os.path.join(VERIF, "coq")
THEORIES = os.path.join(COQ, "theories")
SCRATCH_ROOT = os.path.join(VERIF, ".scratch")
REPLAYS = os.path.join(VERIF, "replays")
EVIDENCE = os.path.join(VERIF, "evidence")
REPO = os.environ.get("VERIF_REPO", "/repo")
NPROC = min(16, os.cpu_count() or 4)

TRUSTED_BASE_COMMON = [
    "Coq 8.16.1 kernel (coqc), vm_compute used for closed computations; no native_compute",
    "No Axiom/Parameter/Admitted in /verif/coq (grep audit in bin/setup and in every check)",
    "hand-written Gallina model tied to /repo by the correspondence suites named in coverage.suites "
    "(differential execution of model vs real Python on generated inputs, re-run on every check)",
    "harness: generators, canonical encoders (harness/*.py), cases.v printer, virtual-time loop, "
    "llama_index_instrumentation no-op shim",
    "translator harness/translate.py (fail-closed) regenerating Generated.v from /repo on every run",
]


class CheckError(Exception):
    """The machinery itself failed (not a verdict about the property)."""


def sh(cmd, timeout=900, cwd=None, env=None):
    p = subprocess.run(cmd, shell=isinstance(cmd, str), cwd=cwd, env=env, timeout=timeout,
                       stdout=subprocess.PIPE, stderr=subprocess.STDOUT, text=True)
    return p.returncode, p.stdout


class _Lock:
    def __init__(self, path):
        self.path = path

    def __enter__(self):
        os.makedirs(os.path.dirname(self.path), exist_ok=True)
        self.f = open(self.path, "w")
        fcntl.flock(self.f, fcntl.LOCK_EX)

    def __exit__(self, *a):
        fcntl.flock(self.f, fcntl.LOCK_UN)
        self.f.close()


def coq_lock():
    return _Lock(os.path.join(COQ, ".buildlock"))


def ensure_makefile():
    mk = os.path.join(COQ, "Makefile")
    cp = os.path.join(COQ, "_CoqProject")
    if not os.path.exists(mk) or os.path.getmtime(mk) < os.path.getmtime(cp):
        rc, out = sh("coq_makefile -f _CoqProject -o Makefile", cwd=COQ)
        if rc != 0:
            raise CheckError("coq_makefile failed:\n" + out)


def regenerate():
    """Run the translator; rewrites Generated.v only when its content changes."""
    rc, out = sh([sys.executable, os.path.join(HARNESS, "translate.py")], timeout=120)
    if rc != 0:
        return False, out
    return True, out


def coq_make(targets, timeout=1500, locked=False):
    """Incremental full (.vo) build of the given targets (paths relative to coq/)."""
    if locked:
        ensure_makefile()
        cmd = ["timeout", str(timeout), "make", "-j%d" % NPROC] + list(targets)
        rc, out = sh(cmd, cwd=COQ, timeout=timeout + 30)
        return rc == 0, out
    with coq_lock():
        return coq_make(targets, timeout, locked=True)


AUDIT_RE = re.compile(
    r"\b(Admitted|admit|Axiom|Axioms|Parameter|Parameters|Conjecture|Hypothesis|Variable|Variables|"
    r"bypass_check|Unset\s+Guard|Unset\s+Positivity|Unset\s+Universe|type-in-type|impredicative-set|"
    r"Admit\s+Obligations|give_up)\b")


def strip_coq_comments(src):
    out, depth, i = [], 0, 0
    while i < len(src):
        if src.startswith("(*", i):
            depth += 1
            i += 2
        elif src.startswith("*)", i) and depth:
            depth -= 1
            i += 2
        else:
            if not depth:
                out.append(src[i])
            i += 1
    return "".join(out)


def audit_sources():
    """Fail on any forbidden vernacular in the development. `Variable`/`Hypothesis` are allowed
    only inside a Section (checked by tracking Section/End nesting)."""
    bad = []
    for root, _, files in os.walk(THEORIES):
        for f in files:
            if not f.endswith(".v"):
                continue
            p = os.path.join(root, f)
            src = strip_coq_comments(open(p).read())
            depth = 0
            for ln, line in enumerate(src.split("\n"), 1):
                if re.match(r"\s*Section\s+\w+", line):
                    depth += 1
                if re.match(r"\s*End\s+\w+\s*\.", line) and depth:
                    depth -= 1
                for m in AUDIT_RE.finditer(line):
                    w = m.group(1)
                    if w in ("Variable", "Variables", "Hypothesis") and depth > 0:
                        continue
                    bad.append("%s:%d: %s" % (os.path.relpath(p, VERIF), ln, line.strip()))
    cp = open(os.path.join(COQ, "_CoqProject")).read()
    if re.search(r"type-in-type|impredicative-set|-vos|-vok", cp):
        bad.append("_CoqProject: forbidden flag")
    return bad


def parse_assumptions(out):
    """Split coqc output of a Properties file into one entry per `Print Assumptions`."""
    res = []
    # Every Print Assumptions prints either 'Closed under the global context' or 'Axioms:' block.
    blocks = re.split(r"(?m)^(?=Closed under the global context|Axioms:)", out)
    for b in blocks:
        if b.startswith("Closed under the global context"):
            res.append([])
        elif b.startswith("Axioms:"):
            names = re.findall(r"(?m)^([A-Za-z_][\w.']*)\s*:", b[len("Axioms:"):])
            res.append(names)
    return res


ALLOWED_AXIOMS = {
    # standard-library axioms that may appear through libraries; each is reported in evidence
    "functional_extensionality_dep", "FunctionalExtensionality.functional_extensionality_dep",
    "proof_irrelevance", "ProofIrrelevance.proof_irrelevance", "classic", "Classical_Prop.classic",
    "Eqdep.Eq_rect_eq.eq_rect_eq", "eq_rect_eq", "JMeq_eq", "JMeq.JMeq_eq",
    "propositional_extensionality", "PropExtensionality.propositional_extensionality",
}


def coqc_file(path, timeout=600, extra=None):
    cmd = ["timeout", str(timeout), "coqc", "-Q", "theories", "WF"] + (extra or []) + [path]
    return sh(cmd, cwd=COQ, timeout=timeout + 30)


def parse_zlist(out):
    """Parse the result of `Eval vm_compute in (l : list Z)`; returns list of ints (last Eval)."""
    m = list(re.finditer(r"=\s*(\[[^\]]*\]|nil)", out, re.S))
    if not m:
        raise CheckError("cannot parse Coq output:\n" + out[-2000:])
    txt = m[-1].group(1)
    if txt == "nil":
        return []
    return [int(x) for x in re.findall(r"-?\d+", txt.replace("%Z", ""))]


def gz(z):
    z = int(z)
    return "(%d)" % z if z < 0 else str(z)


def glist(items):
    return "[" + "; ".join(items) + "]"


def gzlist(zs):
    return "[" + "; ".join(gz(z) for z in zs) + "]"


def gopt(f, o):
    return "None" if o is None else "(Some %s)" % f(o)


def gbool(b):
    return "true" if b else "false"


def gstr(s):
    """Coq string literal for an ASCII-only python str."""
    return '"' + s.replace('"', '""') + '"'


class Ctx:
    def __init__(self, pid, tier, seed):
        self.pid, self.tier, self.seed = pid, tier, seed
        self.t0 = time.time()
        self.scratch = os.path.join(SCRATCH_ROOT, "%s-%d" % (pid, os.getpid()))
        shutil.rmtree(self.scratch, ignore_errors=True)
        os.makedirs(self.scratch)
        self.violations = []      # (replay_path, found_input)
        self.known_lines = []
        self.notes = []
        self.suites = {}          # name -> dict (distribution, counts)
        self.samples = []
        self.evaluations = 0
        self.nontrivial = set()
        self.obligations = []     # (theorem, axioms)
        self.broken_obligations = []
        self.programs = 0
        self.disagreements = 0
        self.disagreements_checked = 0
        self.trusted = list(TRUSTED_BASE_COMMON)
        self.assumptions = []
        self.partial = []
        self.known = load_known()
        self.checker_cmd = ""
        self.rule = ""

    def mark(self, name):
        """record the wall time at which a phase of the check finished (written to the evidence)"""
        self.suites.setdefault("_phases", {})[name] = round(time.time() - self.t0, 1)

    # ---------- tier helpers ----------
    def n(self, quick, thorough):
        return thorough if self.tier == "thorough" else quick

    # ---------- coq ----------
    def prove(self, files=None):
        """(Re)generate Generated.v, build the property's dependencies, re-check the property
        file itself and audit its assumptions. Returns True when every obligation is discharged."""
        # Generated.v is shared by every check process: translate + build + re-check under one lock so that a
        # concurrent check against another source tree (VERIF_REPO) cannot swap it in between
        with coq_lock():
            r = self._prove_locked(files)
        self.mark("prove")
        return r

    def _prove_locked(self, files=None):
        pid = self.pid
        files = files or ["theories/Properties/%s.v" % pid]
        ok, out = regenerate()
        if not ok:
            self.broken_obligations.append(("translator", out[-3000:]))
            return False
        bad = audit_sources()
        if bad:
            raise CheckError("forbidden vernacular in development:\n" + "\n".join(bad))
        targets = [f[:-2] + ".vo" for f in files]
        ok, out = coq_make(targets, locked=True)
        self.checker_cmd = "cd /verif/coq && make %s && coqc -Q theories WF %s" % (
            " ".join(targets), " ".join(files))
        if not ok:
            self.broken_obligations.append(("make " + " ".join(targets), out[-4000:]))
            return False
        allok = True
        for f in files:
            # Re-check the property file itself on every run (cheap), capturing Print Assumptions.
            tmpdir = os.path.join(self.scratch, "prop")
            os.makedirs(tmpdir, exist_ok=True)
            base = os.path.basename(f)
            dst = os.path.join(tmpdir, base)
            shutil.copy(os.path.join(COQ, f), dst)
            rc, out = coqc_file(dst, extra=["-o", os.path.join(tmpdir, base[:-2] + ".vo")])
            if rc != 0:
                self.broken_obligations.append((f, out[-4000:]))
                allok = False
                continue
            src = strip_coq_comments(open(dst).read())
            names = re.findall(r"Print\s+Assumptions\s+([\w.']+)\s*\.", src)
            assum = parse_assumptions(out)
            if len(assum) != len(names):
                raise CheckError("assumption audit mismatch for %s: %d prints vs %d parsed\n%s"
                                 % (f, len(names), len(assum), out[-2000:]))
            thms = re.findall(r"(?m)^\s*(?:Theorem|Lemma|Corollary|Example)\s+([\w']+)", src)
            missing = [t for t in thms if t not in names]
            if missing:
                raise CheckError("theorems without Print Assumptions in %s: %s" % (f, missing))
            for nm, ax in zip(names, assum):
                badax = [a for a in ax if a not in ALLOWED_AXIOMS and a.split(".")[-1] not in ALLOWED_AXIOMS]
                if badax:
                    self.broken_obligations.append((nm, "depends on non-allowed axioms: %s" % badax))
                    allok = False
                self.obligations.append((nm, ax))
        return allok

    def run_cases(self, name, header, exprs, shard=400, timeout=900, detail=False):
        """Evaluate Z-valued Coq expressions (0 = model agrees with the implementation's expected
        encoding). `exprs` is a list of Coq terms of type Z. Returns list of ints."""
        if not exprs:
            return []
        d = os.path.join(self.scratch, "cases_" + re.sub(r"\W", "_", name))
        os.makedirs(d, exist_ok=True)
        files = []
        for k in range(0, len(exprs), shard):
            fn = os.path.join(d, "c%d.v" % (k // shard))
            with open(fn, "w") as f:
                f.write(header + "\n")
                f.write("Definition results : list Z := %s.\n" % glist(
                    "(%s)" % e for e in exprs[k:k + shard]))
                f.write("Eval vm_compute in results.\n")
            files.append(fn)

        def one(fn):
            rc, out = coqc_file(fn, timeout=timeout, extra=["-o", fn[:-2] + ".vo"])
            if rc != 0:
                raise CheckError("case file failed to evaluate (%s):\n%s" % (fn, out[-3000:]))
            return parse_zlist(out)

        with ThreadPoolExecutor(max_workers=NPROC) as ex:
            parts = list(ex.map(one, files))
        res = [z for p in parts for z in p]
        if len(res) != len(exprs):
            raise CheckError("case count mismatch in %s: %d vs %d" % (name, len(res), len(exprs)))
        return res

    def eval_terms(self, header, terms, timeout=600):
        """Evaluate arbitrary `list Z`-typed terms one by one; returns list of int lists."""
        fn = os.path.join(self.scratch, "eval_%d.v" % int(time.time() * 1e6))
        with open(fn, "w") as f:
            f.write(header + "\n")
            for t in terms:
                f.write("Eval vm_compute in (%s).\n" % t)
        rc, out = coqc_file(fn, timeout=timeout, extra=["-o", fn[:-2] + ".vo"])
        if rc != 0:
            raise CheckError("eval failed:\n" + out[-3000:])
        res = []
        for m in re.finditer(r"=\s*(\[[^\]]*\]|nil)", out, re.S):
            txt = m.group(1)
            res.append([] if txt == "nil" else [int(x) for x in re.findall(r"-?\d+", txt.replace("%Z", ""))])
        return res

    # ---------- bookkeeping ----------
    def suite(self, name, **kw):
        s = self.suites.setdefault(name, {})
        for k, v in kw.items():
            s[k] = v
        return s

    def count(self, n=1, key=None):
        self.evaluations += n
        if key is not None:
            self.nontrivial.add(key)

    def sample(self, obj, limit=6):
        if len(self.samples) < limit:
            self.samples.append(obj)

    def require_coverage(self, suite, counter, value, minimum=1):
        """Generators fail closed: a branch the property needs must have been exercised."""
        if value < minimum:
            raise CheckError("suite %s: coverage counter %s = %d < %d (degenerate generation)"
                             % (suite, counter, value, minimum))

    # ---------- verdicts ----------
    def violation(self, what, replay, found_input=True):
        os.makedirs(REPLAYS, exist_ok=True)
        body = dict(property=self.pid, what=what, seed=self.seed, tier=self.tier,
                    found_failing_input=found_input)
        body.update(replay)
        txt = json.dumps(body, indent=1, sort_keys=True, default=str)
        h = hashlib.sha1(txt.encode()).hexdigest()[:10]
        path = os.path.join(REPLAYS, "%s-%s.json" % (self.pid, h))
        with open(path, "w") as f:
            f.write(txt)
        self.violations.append((path, found_input, what))

    def finding(self, key, what, replay):
        """A monitor failure on the implementation, identified by its structural key.
        Listed as known -> KNOWN-FINDING line; listed as fixed or unlisted -> violation."""
        for e in self.known:
            if e.get("property") == self.pid and e.get("key") == key and e.get("status") == "known":
                line = "KNOWN-FINDING: property=%s %s [%s]" % (self.pid, e.get("what", what), key)
                if line not in self.known_lines:
                    self.known_lines.append(line)
                return
        r = dict(replay)
        r["finding_key"] = key
        self.violation(what, r, True)

    def known_keys(self):
        return [e["key"] for e in self.known if e.get("property") == self.pid and e.get("status") == "known"]

    def finish(self):
        # proof obligations that no longer check and produced no concrete failing input
        if self.broken_obligations and not any(v[1] for v in self.violations):
            self.violation("proof obligation / model tie no longer checks",
                           dict(broken=[dict(obligation=o, log=l) for o, l in self.broken_obligations]),
                           found_input=False)
        elif self.broken_obligations:
            for v in self.violations:
                pass
        wall = time.time() - self.t0
        nobl = len(self.obligations) + len(self.broken_obligations)
        ndis = len(self.obligations)
        cov = dict(
            obligations=max(nobl, 1), discharged=ndis,
            checker_cmd=self.checker_cmd or "n/a",
            trusted_base=self.trusted,
            theorems=[dict(name=n, axioms=a or "Closed under the global context") for n, a in self.obligations],
            broken=[o for o, _ in self.broken_obligations],
            evaluations=self.evaluations, distinct_nontrivial=len(self.nontrivial),
            rule=self.rule or "cases are generated from one PRNG seeded by VERIF_SEED; a case is "
                              "non-trivial when it is counted under a distinct structural key by the suite",
            samples=self.samples or ["(no sampled case)"],
            programs=max(self.programs, self.evaluations), disagreements_checked=self.disagreements_checked,
            disagreements=self.disagreements,
            suites=self.suites, partial=self.partial, notes=self.notes,
            known_findings=self.known_lines,
        )
        ev = dict(property_id=self.pid, tier=self.tier, seed=self.seed, level="proof",
                  coverage=cov, assumptions=self.assumptions, wall_s=round(wall, 2),
                  violations=len(self.violations))
        os.makedirs(EVIDENCE, exist_ok=True)
        with open(os.path.join(EVIDENCE, self.pid + ".json"), "w") as f:
            json.dump(ev, f, indent=1, sort_keys=True, default=str)
        for l in self.known_lines:
            print(l)
        for path, found, what in self.violations:
            print("# %s" % what)
            print("VIOLATION property=%s replay=%s%s" % (self.pid, path, "" if found else " no-failing-input-found"))
        shutil.rmtree(self.scratch, ignore_errors=True)
        try:
            os.rmdir(SCRATCH_ROOT)
        except OSError:
            pass
        print("%s %s tier=%s seed=%d obligations=%d/%d evaluations=%d wall=%.1fs" % (
            self.pid, "FAIL" if self.violations else "ok", self.tier, self.seed, ndis, max(nobl, 1),
            self.evaluations, wall))
        return 1 if self.violations else 0


def load_known():
    """known_findings.json is the committed list; known_findings.d/*.json are per-property
    fragments with the same shape (merged into the main file by bin/merge-fragments)."""
    out = []
    p = os.path.join(VERIF, "known_findings.json")
    if os.path.exists(p):
        out += json.load(open(p)).get("findings", [])
    d = os.path.join(VERIF, "known_findings.d")
    if os.path.isdir(d):
        for f in sorted(os.listdir(d)):
            if f.endswith(".json"):
                for e in json.load(open(os.path.join(d, f))).get("findings", []):
                    if not any(x.get("key") == e.get("key") and x.get("property") == e.get("property") for x in out):
                        out.append(e)
    return out
