"""Translator part for C33 (backup archive): the ORDERED suffix dispatch of read_backup_archive,
the file names written by create_backup_archive, the two password conditions, and the wire-format
constants of encryption.py.  Fail closed: any unrecognised shape raises."""
import ast

ARCH = "packages/llama-agents-control-plane/src/llama_agents/control_plane/backup/archive.py"
ENC = "packages/llama-agents-control-plane/src/llama_agents/control_plane/backup/encryption.py"


class Err(Exception):
    pass


def _fn(mod, name):
    for n in mod.body:
        if isinstance(n, ast.FunctionDef) and n.name == name:
            return n
    raise Err("function %s not found" % name)


def _cs(s):
    if not all(32 <= ord(c) < 127 for c in s) or '"' in s:
        raise Err("unexpected characters in constant %r" % s)
    return '"%s"' % s


def _str_const(node, what):
    if isinstance(node, ast.Constant) and isinstance(node.value, str):
        return node.value
    raise Err("%s: expected a string literal, found %s" % (what, ast.unparse(node)[:60]))


def _branch_kind(body, suffix, namevar):
    """Classify an `elif <name>.endswith(S):` body by what it stores where (local variable names
    are free; what matters is: removesuffix(S) of the member name is the key, which dictionary is
    stored into, which loader parses the content, and whether decrypt() is applied first)."""
    first = body[0]
    if not (isinstance(first, ast.Assign) and len(first.targets) == 1 and isinstance(first.targets[0], ast.Name)
            and isinstance(first.value, ast.Call) and ast.unparse(first.value.func) == namevar + ".removesuffix"
            and len(first.value.args) == 1 and _str_const(first.value.args[0], "removesuffix") == suffix):
        raise Err("branch for %r does not start with <key> = %s.removesuffix(%r)" % (suffix, namevar, suffix))
    keyvar = first.targets[0].id
    stores = [n for n in body if isinstance(n, ast.Assign) and isinstance(n.targets[0], ast.Subscript)]
    if len(stores) != 1 or ast.unparse(stores[0].targets[0].slice) != keyvar:
        raise Err("branch for %r: expected exactly one store X[%s] = ..." % (suffix, keyvar))
    target = ast.unparse(stores[0].targets[0].value)
    v = stores[0].value
    if not (isinstance(v, ast.Call) and len(v.args) == 1 and not v.keywords):
        raise Err("branch for %r: stored value is not loader(<bytes>)" % suffix)
    loader = ast.unparse(v.func)
    decrypts = [n for n in ast.walk(ast.Module(body=body, type_ignores=[]))
                if isinstance(n, ast.Call) and ast.unparse(n.func) == "decrypt"]
    if len(decrypts) > 1:
        raise Err("branch for %r: more than one decrypt()" % suffix)
    if decrypts:
        d = decrypts[0]
        if len(d.args) != 2 or ast.unparse(d.args[1]) != "encryption_password":
            raise Err("branch for %r: decrypt() not called with the given password" % suffix)
        holders = [n for n in body if isinstance(n, ast.Assign) and n.value is d]
        if len(holders) != 1 or ast.unparse(holders[0].targets[0]) != ast.unparse(v.args[0]):
            raise Err("branch for %r: the decrypted bytes are not what is parsed" % suffix)
    table = {
        ("secret_files", "yaml.safe_load", True): "secret_enc",
        ("secret_files", "yaml.safe_load", False): "secret_yaml",
        ("cr_files", "yaml.safe_load", False): "cr",
        ("meta_files", "json.loads", False): "meta",
    }
    k = table.get((target, loader, bool(decrypts)))
    if k is None:
        raise Err("branch for %r: unrecognised store %s[...] = %s(...)%s"
                  % (suffix, target, loader, " after decrypt" if decrypts else ""))
    if k == "secret_enc":
        guard = [n for n in body if isinstance(n, ast.If)]
        if len(guard) != 1 or ast.unparse(guard[0].test) != "encryption_password is None" \
                or not any(isinstance(x, ast.Raise) for x in guard[0].body):
            raise Err("encrypted branch: expected `if encryption_password is None: raise ValueError`")
    for n in body:
        if isinstance(n, (ast.Try, ast.With, ast.For, ast.While)):
            raise Err("branch for %r: unexpected compound statement" % suffix)
    return k


def extract(src):
    mod = ast.parse(src(ARCH))
    rd = _fn(mod, "read_backup_archive")
    loops = [n for n in ast.walk(rd) if isinstance(n, ast.For) and ast.unparse(n.iter) == "tar.getmembers()"]
    if len(loops) != 1:
        raise Err("read_backup_archive: expected one loop over tar.getmembers()")
    chain = [n for n in loops[0].body if isinstance(n, ast.If) and isinstance(n.test, ast.Compare)
             and len(n.test.ops) == 1 and isinstance(n.test.ops[0], ast.Eq) and isinstance(n.test.left, ast.Name)
             and isinstance(n.test.comparators[0], ast.Constant) and isinstance(n.test.comparators[0].value, str)]
    if len(chain) != 1:
        raise Err("read_backup_archive: expected one if/elif chain starting with <name> == <manifest file name>")
    node = chain[0]
    t = node.test
    namevar = t.left.id
    binds = [n for n in loops[0].body if isinstance(n, ast.Assign) and ast.unparse(n.targets[0]) == namevar]
    if len(binds) != 1 or not ast.unparse(binds[0].value).endswith(".name"):
        raise Err("read_backup_archive: %s is not bound to the member's name" % namevar)
    manifest_name = _str_const(t.comparators[0], "manifest name")
    dispatch = []
    while True:
        if not node.orelse:
            break
        if len(node.orelse) != 1 or not isinstance(node.orelse[0], ast.If):
            raise Err("read_backup_archive: trailing else branch in the suffix dispatch — unknown shape")
        node = node.orelse[0]
        t = node.test
        if not (isinstance(t, ast.Call) and ast.unparse(t.func) == namevar + ".endswith" and len(t.args) == 1):
            raise Err("read_backup_archive: unexpected test %s in the suffix dispatch" % ast.unparse(t)[:60])
        suffix = _str_const(t.args[0], "endswith")
        dispatch.append((suffix, _branch_kind(node.body, suffix, namevar)))
    if not dispatch:
        raise Err("read_backup_archive: empty suffix dispatch")

    cr = _fn(mod, "create_backup_archive")
    written = []
    wmanifest = None
    var_kind = {"cr_yaml": "cr", "encrypted": "secret_enc", "secret_yaml": "secret_yaml", "meta_json": "meta"}
    for n in ast.walk(cr):
        if isinstance(n, ast.Call) and ast.unparse(n.func) == "_add_bytes_to_tar":
            if len(n.args) != 3:
                raise Err("_add_bytes_to_tar: unexpected arguments")
            fname, data = n.args[1], n.args[2]
            if isinstance(fname, ast.Constant):
                wmanifest = _str_const(fname, "manifest file name")
                continue
            if not (isinstance(fname, ast.JoinedStr) and len(fname.values) == 2
                    and isinstance(fname.values[0], ast.FormattedValue)
                    and ast.unparse(fname.values[0].value) == "name" and fname.values[0].conversion == -1
                    and fname.values[0].format_spec is None):
                raise Err("create_backup_archive: file name %s is not f\"{name}<suffix>\"" % ast.unparse(fname))
            suffix = _str_const(fname.values[1], "written suffix")
            k = var_kind.get(ast.unparse(data))
            if k is None:
                raise Err("create_backup_archive: unrecognised payload %s" % ast.unparse(data)[:40])
            written.append((k, suffix))
    if wmanifest is None or sorted(k for k, _ in written) != sorted(var_kind.values()):
        raise Err("create_backup_archive: expected manifest + one write per kind, found %r" % (written,))
    # the two password conditions
    enc_if = [n for n in ast.walk(cr) if isinstance(n, ast.If) and "encryption_password" in ast.unparse(n.test)]
    if len(enc_if) != 1:
        raise Err("create_backup_archive: expected one `if` on encryption_password")
    cond = ast.unparse(enc_if[0].test)
    cond_k = {"encryption_password": "truthy", "encryption_password is not None": "is_not_none"}.get(cond)
    if cond_k is None:
        raise Err("create_backup_archive: unrecognised encryption condition %r" % cond)
    flag = None
    for n in ast.walk(cr):
        if isinstance(n, ast.Dict):
            for k, v in zip(n.keys, n.values):
                if isinstance(k, ast.Constant) and k.value == "encrypted":
                    flag = {"encryption_password is not None": "is_not_none",
                            "bool(encryption_password)": "truthy"}.get(ast.unparse(v))
    if flag is None:
        raise Err("create_backup_archive: manifest 'encrypted' expression not recognised")
    gen_if = [n for n in ast.walk(cr) if isinstance(n, ast.If) and "generations" in ast.unparse(n.test)]
    if len(gen_if) != 1 or ast.unparse(gen_if[0].test) != "generations and name in generations":
        raise Err("create_backup_archive: generation condition not recognised")
    sec_if = [n for n in ast.walk(cr) if isinstance(n, ast.If) and ast.unparse(n.test) == "secret_data is not None"]
    if len(sec_if) != 1:
        raise Err("create_backup_archive: `if secret_data is not None` not found")

    enc = ast.parse(src(ENC))
    consts = {}
    for n in enc.body:
        if isinstance(n, ast.Assign) and len(n.targets) == 1 and isinstance(n.targets[0], ast.Name) \
                and isinstance(n.value, ast.Constant) and isinstance(n.value.value, int):
            consts[n.targets[0].id] = n.value.value
    for c in ("SALT_LENGTH", "NONCE_LENGTH", "KEY_LENGTH"):
        if c not in consts:
            raise Err("encryption.py: constant %s not found" % c)
    de = _fn(enc, "decrypt")
    dsrc = ast.unparse(de)
    for piece in ("min_length = SALT_LENGTH + NONCE_LENGTH + 16", "if len(data) < min_length",
                  "salt = data[:SALT_LENGTH]", "nonce = data[SALT_LENGTH:SALT_LENGTH + NONCE_LENGTH]",
                  "ciphertext = data[SALT_LENGTH + NONCE_LENGTH:]", "key = _derive_key(password, salt)",
                  "return aesgcm.decrypt(nonce, ciphertext, None)"):
        if piece not in dsrc:
            raise Err("encryption.decrypt: expected `%s`" % piece)
    esrc = ast.unparse(_fn(enc, "encrypt"))
    for piece in ("salt = os.urandom(SALT_LENGTH)", "nonce = os.urandom(NONCE_LENGTH)",
                  "key = _derive_key(password, salt)", "ciphertext = aesgcm.encrypt(nonce, plaintext, None)",
                  "return salt + nonce + ciphertext"):
        if piece not in esrc:
            raise Err("encryption.encrypt: expected `%s`" % piece)

    pair = lambda a, b: "(%s, %s)" % (_cs(a), _cs(b))  # noqa: E731
    return "\n".join([
        "(* from %s, %s *)" % (ARCH, ENC),
        "Definition archive_manifest_name_read : string := %s." % _cs(manifest_name),
        "Definition archive_manifest_name_written : string := %s." % _cs(wmanifest),
        "(* ordered: (suffix tested by name.endswith, what the branch stores) *)",
        "Definition archive_read_dispatch : list (string * string) := [%s]."
        % "; ".join(pair(s, k) for s, k in dispatch),
        "(* (payload kind, suffix appended to the deployment name); sorted by kind — the order of the writes is modelled by hand *)",
        "Definition archive_written : list (string * string) := [%s]."
        % "; ".join(pair(k, s) for k, s in sorted(written)),
        "Definition archive_encrypt_condition : string := %s." % _cs(cond_k),
        "Definition archive_manifest_encrypted_flag : string := %s." % _cs(flag),
        "Definition backup_salt_length : Z := %d." % consts["SALT_LENGTH"],
        "Definition backup_nonce_length : Z := %d." % consts["NONCE_LENGTH"],
        "Definition backup_tag_length : Z := 16.",
    ])
