"""Translator part for C33 (backup archive): the ORDERED suffix dispatch of read_backup_archive,
the file names written by create_backup_archive, the two password conditions, and the wire-format
constants of encryption.py.  Fail closed: any unrecognised shape raises."""
import ast

ARCH = "packages/llama-agents-control-plane/src/llama_agents/control_plane/backup/archive.py"
ENC = "packages/llama-agents-control-plane/src/llama_agents/control_plane/backup/encryption.py"


class Err(Exception):
    pass


def _fn(mod, name):
    for n in mod.body:
        if isinstance(n, ast.FunctionDef) and n.name == name:
            return n
    raise Err("function %s not found" % name)


def _cs(s):
    if not all(32 <= ord(c) < 127 for c in s) or '"' in s:
        raise Err("unexpected characters in constant %r" % s)
    return '"%s"' % s


def _str_const(node, what):
    if isinstance(node, ast.Constant) and isinstance(node.value, str):
        return node.value
    raise Err("%s: expected a string literal, found %s" % (what, ast.unparse(node)[:60]))


def _branch_kind(body, suffix):
    """Classify an `elif name.endswith(S):` body by what it stores where."""
    first = body[0]
    if not (isinstance(first, ast.Assign) and ast.unparse(first.targets[0]) == "deploy_name"
            and isinstance(first.value, ast.Call) and ast.unparse(first.value.func) == "name.removesuffix"
            and len(first.value.args) == 1 and _str_const(first.value.args[0], "removesuffix") == suffix):
        raise Err("branch for %r does not start with deploy_name = name.removesuffix(%r)" % (suffix, suffix))
    stores = [n for n in body if isinstance(n, ast.Assign) and isinstance(n.targets[0], ast.Subscript)]
    if len(stores) != 1 or ast.unparse(stores[0].targets[0].slice) != "deploy_name":
        raise Err("branch for %r: expected exactly one store X[deploy_name] = ..." % suffix)
    target = ast.unparse(stores[0].targets[0].value)
    value = ast.unparse(stores[0].value)
    src = "\n".join(ast.unparse(n) for n in body)
    uses_decrypt = "decrypt(content, encryption_password)" in src
    table = {
        ("secret_files", "yaml.safe_load(decrypted)", True): "secret_enc",
        ("secret_files", "yaml.safe_load(content)", False): "secret_yaml",
        ("cr_files", "yaml.safe_load(content)", False): "cr",
        ("meta_files", "json.loads(content)", False): "meta",
    }
    k = table.get((target, value, uses_decrypt))
    if k is None:
        raise Err("branch for %r: unrecognised store %s[deploy_name] = %s" % (suffix, target, value))
    if k == "secret_enc":
        guard = [n for n in body if isinstance(n, ast.If)]
        if len(guard) != 1 or ast.unparse(guard[0].test) != "encryption_password is None" \
                or not any(isinstance(x, ast.Raise) for x in guard[0].body):
            raise Err("encrypted branch: expected `if encryption_password is None: raise ValueError`")
    return k


def extract(src):
    mod = ast.parse(src(ARCH))
    rd = _fn(mod, "read_backup_archive")
    loops = [n for n in ast.walk(rd) if isinstance(n, ast.For) and ast.unparse(n.iter) == "tar.getmembers()"]
    if len(loops) != 1:
        raise Err("read_backup_archive: expected one loop over tar.getmembers()")
    chain = [n for n in loops[0].body if isinstance(n, ast.If) and "name" in ast.unparse(n.test)
             and ("==" in ast.unparse(n.test) or "endswith" in ast.unparse(n.test))]
    if len(chain) != 1:
        raise Err("read_backup_archive: expected one if/elif chain on the member name")
    node = chain[0]
    t = node.test
    if not (isinstance(t, ast.Compare) and ast.unparse(t.left) == "name" and len(t.ops) == 1
            and isinstance(t.ops[0], ast.Eq)):
        raise Err("read_backup_archive: the first test must be name == <manifest file name>")
    manifest_name = _str_const(t.comparators[0], "manifest name")
    dispatch = []
    while True:
        if not node.orelse:
            break
        if len(node.orelse) != 1 or not isinstance(node.orelse[0], ast.If):
            raise Err("read_backup_archive: trailing else branch in the suffix dispatch — unknown shape")
        node = node.orelse[0]
        t = node.test
        if not (isinstance(t, ast.Call) and ast.unparse(t.func) == "name.endswith" and len(t.args) == 1):
            raise Err("read_backup_archive: unexpected test %s in the suffix dispatch" % ast.unparse(t)[:60])
        suffix = _str_const(t.args[0], "endswith")
        dispatch.append((suffix, _branch_kind(node.body, suffix)))
    if not dispatch:
        raise Err("read_backup_archive: empty suffix dispatch")

    cr = _fn(mod, "create_backup_archive")
    written = []
    wmanifest = None
    var_kind = {"cr_yaml": "cr", "encrypted": "secret_enc", "secret_yaml": "secret_yaml", "meta_json": "meta"}
    for n in ast.walk(cr):
        if isinstance(n, ast.Call) and ast.unparse(n.func) == "_add_bytes_to_tar":
            if len(n.args) != 3:
                raise Err("_add_bytes_to_tar: unexpected arguments")
            fname, data = n.args[1], n.args[2]
            if isinstance(fname, ast.Constant):
                wmanifest = _str_const(fname, "manifest file name")
                continue
            if not (isinstance(fname, ast.JoinedStr) and len(fname.values) == 2
                    and isinstance(fname.values[0], ast.FormattedValue)
                    and ast.unparse(fname.values[0].value) == "name" and fname.values[0].conversion == -1
                    and fname.values[0].format_spec is None):
                raise Err("create_backup_archive: file name %s is not f\"{name}<suffix>\"" % ast.unparse(fname))
            suffix = _str_const(fname.values[1], "written suffix")
            k = var_kind.get(ast.unparse(data))
            if k is None:
                raise Err("create_backup_archive: unrecognised payload %s" % ast.unparse(data)[:40])
            written.append((k, suffix))
    if wmanifest is None or sorted(k for k, _ in written) != sorted(var_kind.values()):
        raise Err("create_backup_archive: expected manifest + one write per kind, found %r" % (written,))
    # the two password conditions
    enc_if = [n for n in ast.walk(cr) if isinstance(n, ast.If) and "encryption_password" in ast.unparse(n.test)]
    if len(enc_if) != 1:
        raise Err("create_backup_archive: expected one `if` on encryption_password")
    cond = ast.unparse(enc_if[0].test)
    cond_k = {"encryption_password": "truthy", "encryption_password is not None": "is_not_none"}.get(cond)
    if cond_k is None:
        raise Err("create_backup_archive: unrecognised encryption condition %r" % cond)
    flag = None
    for n in ast.walk(cr):
        if isinstance(n, ast.Dict):
            for k, v in zip(n.keys, n.values):
                if isinstance(k, ast.Constant) and k.value == "encrypted":
                    flag = {"encryption_password is not None": "is_not_none",
                            "bool(encryption_password)": "truthy"}.get(ast.unparse(v))
    if flag is None:
        raise Err("create_backup_archive: manifest 'encrypted' expression not recognised")
    gen_if = [n for n in ast.walk(cr) if isinstance(n, ast.If) and "generations" in ast.unparse(n.test)]
    if len(gen_if) != 1 or ast.unparse(gen_if[0].test) != "generations and name in generations":
        raise Err("create_backup_archive: generation condition not recognised")
    sec_if = [n for n in ast.walk(cr) if isinstance(n, ast.If) and ast.unparse(n.test) == "secret_data is not None"]
    if len(sec_if) != 1:
        raise Err("create_backup_archive: `if secret_data is not None` not found")

    enc = ast.parse(src(ENC))
    consts = {}
    for n in enc.body:
        if isinstance(n, ast.Assign) and len(n.targets) == 1 and isinstance(n.targets[0], ast.Name) \
                and isinstance(n.value, ast.Constant) and isinstance(n.value.value, int):
            consts[n.targets[0].id] = n.value.value
    for c in ("SALT_LENGTH", "NONCE_LENGTH", "KEY_LENGTH"):
        if c not in consts:
            raise Err("encryption.py: constant %s not found" % c)
    de = _fn(enc, "decrypt")
    dsrc = ast.unparse(de)
    for piece in ("min_length = SALT_LENGTH + NONCE_LENGTH + 16", "if len(data) < min_length",
                  "salt = data[:SALT_LENGTH]", "nonce = data[SALT_LENGTH:SALT_LENGTH + NONCE_LENGTH]",
                  "ciphertext = data[SALT_LENGTH + NONCE_LENGTH:]", "key = _derive_key(password, salt)",
                  "return aesgcm.decrypt(nonce, ciphertext, None)"):
        if piece not in dsrc:
            raise Err("encryption.decrypt: expected `%s`" % piece)
    esrc = ast.unparse(_fn(enc, "encrypt"))
    for piece in ("salt = os.urandom(SALT_LENGTH)", "nonce = os.urandom(NONCE_LENGTH)",
                  "key = _derive_key(password, salt)", "ciphertext = aesgcm.encrypt(nonce, plaintext, None)",
                  "return salt + nonce + ciphertext"):
        if piece not in esrc:
            raise Err("encryption.encrypt: expected `%s`" % piece)

    pair = lambda a, b: "(%s, %s)" % (_cs(a), _cs(b))  # noqa: E731
    return "\n".join([
        "(* from %s, %s *)" % (ARCH, ENC),
        "Definition archive_manifest_name_read : string := %s." % _cs(manifest_name),
        "Definition archive_manifest_name_written : string := %s." % _cs(wmanifest),
        "(* ordered: (suffix tested by name.endswith, what the branch stores) *)",
        "Definition archive_read_dispatch : list (string * string) := [%s]."
        % "; ".join(pair(s, k) for s, k in dispatch),
        "(* (payload kind, suffix appended to the deployment name); sorted by kind — the order of the writes is modelled by hand *)",
        "Definition archive_written : list (string * string) := [%s]."
        % "; ".join(pair(k, s) for k, s in sorted(written)),
        "Definition archive_encrypt_condition : string := %s." % _cs(cond_k),
        "Definition archive_manifest_encrypted_flag : string := %s." % _cs(flag),
        "Definition backup_salt_length : Z := %d." % consts["SALT_LENGTH"],
        "Definition backup_nonce_length : Z := %d." % consts["NONCE_LENGTH"],
        "Definition backup_tag_length : Z := 16.",
    ])
