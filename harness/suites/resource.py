"""Correspondence suite `resource` (C22): Model/Resource.v vs the real ResourceManager.

Every case is a generated resource graph (names 1..n; per name: cache flag, sync/async factory with
0..2 real suspensions, optional failure, dependency list — cyclic graphs included) and a set of step
invocations.  Each invocation is a real asyncio task running the repository's own
`workflows.runtime.types.step_function.partial` (the code that resolves a step's resources inside
`resolution_scope()`) against one real `ResourceManager` with real `Resource(...)` descriptors whose
factories carry real `Annotated[..., Resource(dep)]` signatures.  Async factories suspend on gates that
only the driver opens, one at a time, so the order in which tasks advance is the generated schedule —
the same list of scheduler choices the model is folded over.  After every choice the manager's
`resources`, `_resolving`, `_resolution_cache`, `_resolution_depth`, the acting task's outcome and
injected object identities are compared inside Coq; at the end the log of factory returns
(name, object, task, argument objects).

Monitors (the property evaluated on the implementation alone) are in `monitor()`; `engine_probe()`
reproduces the concurrent failure through a real `Workflow.run()`."""
import asyncio
import inspect
import random
import types
import typing

import boot  # noqa: F401
import vloop
from core import gz, glist, gzlist, gbool

HEADER = """From Coq Require Import List ZArith Bool.
Import ListNotations.
From WF Require Import Base.SchedRes Model.Resource.
Open Scope Z_scope.
"""

FUEL = 400


# ---------------------------------------------------------------------------------------------
def g_graph(graph):
    return glist("(%d, mkNode %s %d %s %s)" % (x, gbool(nd["cache"]), nd["susp"], gbool(nd["fails"]),
                                               gzlist(nd["deps"])) for x, nd in sorted(graph.items()))


def g_act(a):
    if a[0] == "start":
        return "(TStart %d %s)" % (a[1], gzlist(a[2]))
    return "(TRun %d)" % a[1]


def g_case(graph, trace, created):
    gt = glist("(%s, %d, %s, %s)" % (g_act(a), tid, gzlist(em), gzlist(et)) for a, tid, em, et in trace)
    return "check_case %s %d %s %s" % (g_graph(graph), FUEL, gt, gzlist(created))


def g_dump(graph, trace, tids):
    gt = glist("(%s, %d, %s, %s)" % (g_act(a), tid, gzlist(em), gzlist(et)) for a, tid, em, et in trace)
    return "dump_case %s %d %s %s" % (g_graph(graph), FUEL, gt, gzlist(tids))


# ---------------------------------------------------------------------------------------------
def gen_graph(rng, n=None):
    n = n or rng.randint(1, 6)
    style = rng.choice(["dag", "dag", "dag", "any", "selfloop"])
    graph = {}
    for x in range(1, n + 1):
        if style == "dag":
            cand = list(range(x + 1, n + 1))
        else:
            cand = list(range(1, n + 1))
            if style != "selfloop" or rng.random() < 0.7:
                cand = [c for c in cand if c != x] if rng.random() < 0.8 else cand
        k = min(len(cand), rng.choice([0, 0, 1, 1, 2, 3]))
        deps = rng.sample(cand, k) if k else []
        if deps and rng.random() < 0.12:
            deps.append(rng.choice(deps))        # the same dependency under two parameter names
        graph[x] = dict(cache=rng.random() < 0.55, susp=rng.choice([0, 0, 1, 1, 2]),
                        fails=rng.random() < 0.07, deps=deps)
    return graph


class World:
    """Real descriptors/factories for one graph, one real ResourceManager, gates and logs."""

    def __init__(self, graph):
        from workflows.resource import Resource, ResourceDefinition, ResourceManager
        self.graph = graph
        self.mgr = ResourceManager()
        self.oid = {}              # id(object) -> small int (order of creation)
        self.objs = []             # keep objects alive
        self.created = []          # (name, oid, task, [arg oids])
        self.waiting = []          # (task, name, k) gates currently awaited, arrival order
        self.gates = {}
        self.cur = None            # task id whose code is running (set by the driver)
        self.RD = ResourceDefinition
        self.desc = {}
        facs = {}
        for x, nd in graph.items():
            facs[x] = self._factory(x, nd)
        for x, nd in graph.items():
            self.desc[x] = Resource(facs[x], cache=nd["cache"])
        for x, nd in graph.items():
            ann, params = {}, []
            for j, d in enumerate(nd["deps"]):
                a = typing.Annotated[object, self.desc[d]]
                ann["d%d" % j] = a
                params.append(inspect.Parameter("d%d" % j, inspect.Parameter.KEYWORD_ONLY, annotation=a))
            facs[x].__annotations__ = ann
            facs[x].__signature__ = inspect.Signature(params)

    def _ret(self, x, kw):
        nd = self.graph[x]
        if nd["fails"]:
            raise RuntimeError("factory %d failed" % x)
        # (every third resource is an EMPTY container - a falsy value: a shared scratch list that starts empty)
        o = _Bag() if x % 3 == 0 else types.SimpleNamespace(name=x)
        self.objs.append(o)
        self.oid[id(o)] = len(self.objs)
        args = [self.oid[id(kw["d%d" % j])] for j in range(len(nd["deps"]))]
        self.created.append((x, self.oid[id(o)], self.task_of_current(), args))
        return o

    def task_of_current(self):
        t = asyncio.current_task()
        return getattr(t, "_c22_tid", -1)

    def _factory(self, x, nd):
        world = self
        if nd["susp"] > 0:
            async def fac(**kw):
                tid = world.task_of_current()
                for k in range(nd["susp"]):
                    key = (tid, x, k)
                    ev = asyncio.Event()
                    world.gates[key] = ev
                    world.waiting.append(key)
                    try:
                        await ev.wait()
                    finally:
                        world.waiting.remove(key)
                return world._ret(x, kw)
        elif x % 2 == 0:
            async def fac(**kw):          # async factory that never really suspends
                return world._ret(x, kw)
        else:
            def fac(**kw):
                return world._ret(x, kw)
        fac.__qualname__ = "fac%d" % x
        fac.__name__ = "fac%d" % x
        return fac

    # ---- observations ----
    def enc_mgr(self):
        m = self.mgr
        name = lambda s: int(s[3:])
        res = list(m.resources.items())
        rc = list(m._resolution_cache.items())
        out = [len(res)]
        for k, v in res:
            out += [name(k), self.oid[id(v)]]
        out += [len(m._resolving)] + [name(k) for k in m._resolving]
        out += [len(rc)]
        for k, v in rc:
            out += [name(k), self.oid[id(v)]]
        out += [m._resolution_depth, len(self.objs) + 1]
        return out


class _Bag(list):
    """an empty list with an identity: bool(_Bag()) is False"""
    __hash__ = object.__hash__


def run_script(graph, script):
    """script: list of ("start", tid, params) / ("run", tid).  `run tid` lets task tid advance to its next
    suspension (first run: the task starts; later: its oldest awaited gate is opened)."""
    from workflows.runtime.types.step_function import partial
    W = World(graph)
    tasks, status, got, started = {}, {}, {}, set()
    trace = []
    wf = types.SimpleNamespace(_resource_manager=W.mgr)

    async def invocation(tid, params):
        cfg = types.SimpleNamespace(event_name="ev", context_parameter=None,
                                    resources=[W.RD(name="p%d" % j, resource=W.desc[p], type_annotation=object)
                                               for j, p in enumerate(params)])
        status[tid] = [1, 0, 0]
        try:
            fn = await partial(func=lambda **kw: kw, step_config=cfg, event=None, context=None, workflow=wf)
            kw = fn.keywords
            got[tid] = [(p, W.oid[id(kw["p%d" % j])]) for j, p in enumerate(params)]
            status[tid] = [2, 0, 0]
        except ValueError as ex:
            msg = str(ex)
            if msg.startswith("Circular resource dependency detected:"):
                status[tid] = [3, 1, int(msg.rsplit("fac", 1)[1])]
            else:
                status[tid] = [3, 9, 0]
        except RuntimeError as ex:
            status[tid] = [3, 2, int(str(ex).split()[1])]

    def enc_task(tid):
        if tid not in status:
            return [-1]
        g = got.get(tid, [])
        out = list(status[tid]) + [len(g)]
        for p, o in g:
            out += [p, o]
        return out

    async def main():
        for op in script:
            if op[0] == "start":
                _, tid, params = op
                if tid not in status:
                    status[tid] = [0, 0, 0]
                    tasks[tid] = ("pending", list(params))
                trace.append((("start", tid, list(params)), tid, W.enc_mgr(), enc_task(tid)))
            else:
                tid = op[1]
                if tid in tasks:
                    if tid not in started:
                        started.add(tid)
                        t = asyncio.ensure_future(invocation(tid, tasks[tid][1]))
                        t._c22_tid = tid
                        tasks[tid] = ("task", t)
                    else:
                        keys = [k for k in W.waiting if k[0] == tid]
                        if keys:
                            W.gates[keys[0]].set()
                    await vloop.settle()
                trace.append((("run", tid), tid, W.enc_mgr(), enc_task(tid)))
        return None

    vloop.run(main(), auto=False)
    # partial results of tasks that are still suspended: injected-so-far is not observable from outside;
    # the model's t_got is compared only for finished tasks (enc_task of a running task has no pairs)
    created = []
    for x, o, tid, args in W.created:
        created += [x, o, tid, len(args)] + args
    return dict(trace=trace, created=created, created_log=list(W.created), status=dict(status), got=dict(got),
                world=W)


def gen_case(rng, concurrent=True):
    graph = gen_graph(rng)
    names = sorted(graph)
    ntasks = rng.randint(1, 4)
    script = []
    live = []
    tid = 0
    nops = rng.randint(2, 18)
    susp_left = {}
    for _ in range(nops):
        x = rng.random()
        if (x < 0.3 and tid < ntasks) or not live:
            tid += 1
            k = rng.choice([1, 1, 2, 2, 3])
            params = [rng.choice(names) for _ in range(k)]
            script.append(("start", tid, params))
            live.append(tid)
            if not concurrent or rng.random() < 0.5:
                script.append(("run", tid))
        else:
            if concurrent:
                t = rng.choice(live)
            else:
                t = live[-1]
            script.append(("run", t))
    if not concurrent:
        # sequential discipline: run every task to completion before the next one starts
        seq = []
        for op in script:
            if op[0] == "start":
                seq.append(op)
                seq += [("run", op[1])] * 14
        script = seq
    else:
        for t in live:
            script += [("run", t)] * rng.choice([0, 2, 6])
    return graph, script


def case(rng, concurrent=True, graph=None, script=None):
    if graph is None:
        graph, script = gen_case(rng, concurrent)
    obs = run_script(graph, script)
    expr = g_case(graph, obs["trace"], obs["created"])
    return expr, graph, script, obs


# ---- the property on the implementation's own observations -------------------------------------

def reach_cycle(graph, x, seen=None, stack=None):
    """True iff a dependency cycle is reachable from x."""
    color = {}

    def dfs(u):
        color[u] = 1
        for v in graph[u]["deps"]:
            if color.get(v) == 1:
                return True
            if color.get(v) is None and dfs(v):
                return True
        color[u] = 2
        return False
    return dfs(x)


def monitor(graph, script, obs):
    """Returns list of (key, message, detail)."""
    out = []
    created = obs["created_log"]
    # (a) cached: created once per manager, same object everywhere
    per = {}
    for x, o, tid, args in created:
        per.setdefault(x, []).append((o, tid))
    for x, lst in per.items():
        if graph[x]["cache"] and len(lst) > 1:
            out.append(("C22/cached-created-twice", "cached resource %d was created %d times: %s" % (x, len(lst), lst),
                        dict(name=x)))
    inj = {}
    for tid, g in obs["got"].items():
        for p, o in g:
            inj.setdefault(p, set()).add(o)
    argsof = {}
    for x, o, tid, args in created:
        for d, a in zip(graph[x]["deps"], args):
            inj.setdefault(d, set()).add(a)
            argsof.setdefault((tid, d), set()).add(a)
    for x, s in inj.items():
        if graph[x]["cache"] and len(s) > 1:
            out.append(("C22/cached-different-objects", "cached resource %d was injected as different objects %s"
                        % (x, sorted(s)), dict(name=x)))
    # (b) non-cached: fresh per step invocation, shared within one
    owner = {o: tid for x, o, tid, args in created}
    for tid, g in obs["got"].items():
        seen = {}
        for p, o in g:
            if graph[p]["cache"]:
                continue
            if owner.get(o) != tid:
                out.append(("C22/noncached-shared-across-invocations",
                            "step invocation %d was given object %d of non-cached resource %d that was created for "
                            "invocation %s" % (tid, o, p, owner.get(o)), dict(task=tid, name=p)))
            seen.setdefault(p, set()).add(o)
    for x, o, tid, args in created:
        for d, a in zip(graph[x]["deps"], args):
            if not graph[d]["cache"] and owner.get(a) != tid:
                out.append(("C22/noncached-shared-across-invocations",
                            "factory %d running for invocation %d received object %d of non-cached resource %d "
                            "created for invocation %s" % (x, tid, a, d, owner.get(a)), dict(task=tid, name=d)))
    for (tid, d), s in argsof.items():
        s2 = set(s) | {o for p, o in obs["got"].get(tid, []) if p == d}
        if not graph[d]["cache"] and len(s2) > 1:
            out.append(("C22/noncached-not-shared-within-resolution",
                        "within invocation %d non-cached resource %d appeared as different objects %s"
                        % (tid, d, sorted(s2)), dict(task=tid, name=d)))
    for tid, g in obs["got"].items():
        byname = {}
        for p, o in g:
            byname.setdefault(p, set()).add(o)
        for p, s in byname.items():
            if len(s) > 1:
                out.append(("C22/noncached-not-shared-within-resolution",
                            "invocation %d got different objects %s for its two parameters of resource %d"
                            % (tid, sorted(s), p), dict(task=tid, name=p)))
    # (c) cycles
    params = {op[1]: op[2] for op in script if op[0] == "start"}
    for tid, stt in obs["status"].items():
        cyc = any(reach_cycle(graph, p) for p in params.get(tid, []))
        if stt[0] == 2 and cyc:
            out.append(("C22/genuine-cycle-not-reported",
                        "invocation %d with resources %s completed although a dependency cycle is reachable"
                        % (tid, params[tid]), dict(task=tid)))
        if stt[0] == 3 and stt[1] == 1 and not cyc:
            out.append(("C22/false-cycle-error",
                        "invocation %d with resources %s failed with 'Circular resource dependency detected ... fac%d' "
                        "but no dependency cycle is reachable from them" % (tid, params[tid], stt[2]),
                        dict(task=tid, name=stt[2])))
    return out


def active_intervals(trace):
    """tid -> (index of its first advance, index of the advance after which it had ended; len(trace) if never)"""
    iv = {}
    for i, (a, tid, em, et) in enumerate(trace):
        if a[0] != "run" or et == [-1]:
            continue
        if tid not in iv:
            iv[tid] = [i, len(trace)]
        if et[0] in (2, 3) and iv[tid][1] == len(trace):
            iv[tid][1] = i
    return iv


def task_overlaps(trace, tid):
    """True iff step invocation tid is in the middle of its resolution (started, not ended) at a moment at
    which another invocation is, too."""
    iv = active_intervals(trace)
    if tid not in iv:
        return False
    a, b = iv[tid]
    return any(t != tid and c <= b and a <= d for t, (c, d) in iv.items())


def overlapped(trace):
    return any(task_overlaps(trace, t) for t in active_intervals(trace))


def stats_of(graph, script, obs):
    st = dict(tasks=len(obs["status"]), done=0, cycle_errors=0, genuine_cycle_errors=0, factory_failures=0,
              created=len(obs["created_log"]), cached_hits=0, rcache_hits=0, overlapped=int(overlapped(obs["trace"])),
              cyclic_graph=int(any(reach_cycle(graph, x) for x in graph)), dup_dep=0, suspended_at_end=0)
    params = {op[1]: op[2] for op in script if op[0] == "start"}
    for tid, s_ in obs["status"].items():
        if s_[0] == 2:
            st["done"] += 1
        elif s_[0] == 3 and s_[1] == 1:
            st["cycle_errors"] += 1
            if any(reach_cycle(graph, p) for p in params.get(tid, [])):
                st["genuine_cycle_errors"] += 1
        elif s_[0] == 3 and s_[1] == 2:
            st["factory_failures"] += 1
        elif s_[0] == 1:
            st["suspended_at_end"] += 1
    ninj = sum(len(g) for g in obs["got"].values()) + sum(len(a) for _, _, _, a in obs["created_log"])
    st["cached_hits"] = max(0, ninj - st["created"])
    st["dup_dep"] = int(any(len(set(nd["deps"])) < len(nd["deps"]) for nd in graph.values()))
    return st


# ---- the same failure through a real Workflow.run() ------------------------------------------------

def engine_probe():
    """Two workers of one step resolve one async resource concurrently (the engine creates one task per
    worker).  Returns (outcome, factory_calls)."""
    from workflows import Context, Workflow, step
    from workflows.events import Event, StartEvent, StopEvent
    from workflows.resource import Resource

    calls = []

    async def fac():
        calls.append(1)
        await asyncio.sleep(0.01)
        return object()

    class E1(Event):
        pass

    class R(Workflow):
        @step
        async def a(self, ctx: Context, ev: StartEvent) -> typing.Optional[E1]:
            ctx.send_event(E1())
            ctx.send_event(E1())
            return None

        @step(num_workers=2)
        async def b(self, ev: E1, r: typing.Annotated[object, Resource(fac)]) -> StopEvent:
            return StopEvent(result="ok")

    async def main():
        try:
            await R(timeout=3).run()
            return "ok"
        except Exception as ex:  # noqa: BLE001
            return "%s: %s" % (type(ex).__name__, str(ex)[:120])

    return vloop.run(main(), auto=True), len(calls)
