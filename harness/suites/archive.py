"""L0 correspondence suite `archive`: the real create_backup_archive / read_backup_archive /
encrypt / decrypt of llama_agents.control_plane.backup vs Model/Archive.v.

The repository's archive.py and encryption.py are imported unchanged (`llama_agents.control_plane`
and `.backup` registered as bare packages; the `cryptography` package is the stand-in under
harness/shims_ext/cryptography — see its docstring).  Real `tarfile`, `gzip`, `yaml`, `json`.

Symbolic view used on the model side: a member's content is a `blob` (BYaml d = yaml.dump of
document d of the case, BManifest, BGen, BEnc p b = encrypt(b, password p), raw garbage).  The
suite (a) abstracts the members of archives produced by the REAL create into blobs and asks Coq
whether the model's create yields exactly that member list; (b) feeds the REAL read with those
archives (same / wrong / no password) and with arbitrary archives built from symbolic member
lists (dotted and colliding names, duplicates, directories, missing manifest, bad version,
garbage) and asks Coq whether the model's read yields the same entries / error."""
import gzip
import io
import json
import os
import string
import tarfile

import boot  # noqa: F401
from core import CheckError, gz, glist, gbool, gopt

boot.enable_ext_shims()
boot.enable_control_plane()
boot.bare("llama_agents.control_plane.backup",
          os.path.join(boot.PK, "llama-agents-control-plane/src/llama_agents/control_plane/backup"))

import cryptography  # noqa: E402
import yaml  # noqa: E402
from cryptography.exceptions import InvalidTag  # noqa: E402
from llama_agents.control_plane.backup import archive as A  # noqa: E402
from llama_agents.control_plane.backup import encryption as E  # noqa: E402
from llama_agents.core.schema.deployments import validate_dns_1035_label  # noqa: E402

if not getattr(cryptography, "STAND_IN", False):
    raise CheckError("archive suite: expected the cryptography stand-in of harness/shims_ext")

PWS = ["", "pw", "correct horse", "pässwörd ☃"]      # code = index; None is separate
NS = ["default", "llama-agents", "prod-1"]
TS = ["2026-01-01T00:00:00Z", "2026-09-22T10:11:12.345678+00:00", ""]

HEADER = """From Coq Require Import List ZArith Bool Ascii String.
Import ListNotations.
From WF Require Import Model.Archive.
Open Scope Z_scope.
"""

TRICKY = ["", " ", "yes", "no", "null", "~", "1e3", "0o17", "0x1F", "1_000", "2026-01-01", "true", "- a", "a: b",
          "#c", "line1\nline2", "trailing \n", "  lead", "tab\there", "'q'", '"dq"', "éñ日本",
          "\u0085nel", " ls", "{x}", "[y]", "&a", "*a", "!t", "%p", "@at", "`bt", "|", ">", "=", "<<", "\\n",
          "\x7f", "﻿bom", "0", "-0", ".inf", ".nan", "12:30:45", "a" * 90, "x" * 40 + " " + "y" * 60]


def tricky(rng):
    if rng.random() < 0.6:
        return rng.choice(TRICKY)
    return "".join(rng.choice(string.printable + "éñ日\u0085  ") for _ in range(rng.randint(0, 24)))


def valid_name(rng):
    n = rng.choice([1, 1, 2, 3, 5, 8, 13, 30, 62, 63])
    if n == 1:
        return rng.choice(string.ascii_lowercase)
    mid = "".join(rng.choice(string.ascii_lowercase + string.digits + "--") for _ in range(n - 2))
    return rng.choice(string.ascii_lowercase) + mid + rng.choice(string.ascii_lowercase + string.digits)


# names that resemble the archive's own file names (all valid DNS-1035 labels)
LOOKALIKE = ["manifest", "manifest-json", "secret", "yaml", "meta", "meta-json", "secret-yaml", "secret-enc",
             "unknown", "a-secret", "enc", "json", "x-meta-json", "a", "b"]
# invalid (dotted) names: outside the property's quantifier, still compared with the model
DOTTED = ["a.secret", "a.meta", "b.secret.enc", "manifest.json", "c.yaml", "a.b", ".hidden", "x.", "a.secret.yaml",
          "n.meta.json", "dir/x"]


def is_valid(name):
    try:
        validate_dns_1035_label(name)
    except Exception:
        return False
    return True


def gen_cr(rng, name):
    d = {"apiVersion": "deploy.llamaindex.ai/v1", "kind": "LlamaDeployment",
         "metadata": {"name": name, "namespace": rng.choice(NS)},
         "spec": {"repoUrl": "https://example.com/" + tricky(rng), "replicas": rng.randint(0, 5),
                  "flags": [rng.random() < 0.5, None, rng.randint(-3, 3)]}}
    if rng.random() < 0.6:
        d["metadata"]["labels"] = {("k%d" % i): tricky(rng) for i in range(rng.randint(0, 3))}
    if rng.random() < 0.4:
        d["metadata"]["annotations"] = {tricky(rng) or "a": tricky(rng)}
    if rng.random() < 0.5:
        d["spec"]["env"] = [{"name": tricky(rng), "value": tricky(rng)} for _ in range(rng.randint(0, 3))]
    return d


def gen_secret(rng):
    return {("KEY_%d" % i if rng.random() < 0.7 else (tricky(rng) or "k")): tricky(rng)
            for i in range(rng.choice([0, 1, 2, 4]))}


class Case:
    """Inputs of one create call + the document table shared by model and implementation."""

    def __init__(self, rng, names, with_unused=True):
        self.names = names
        self.docs = {}                                   # id -> python value
        self.deps = []                                   # [(doc id)]
        self.tbl = []                                    # [(doc id, name)]
        for n in names:
            i = len(self.docs) + 1
            self.docs[i] = gen_cr(rng, n)
            self.deps.append(i)
            self.tbl.append((i, n))
        self.secrets = []                                # [(name, doc id)] in dict order
        pool = list(names) + (["ghost", rng.choice(LOOKALIKE)] if with_unused else [])
        rng.shuffle(pool)
        seen = set()
        for n in pool:
            if n in seen or rng.random() < 0.35:
                continue
            seen.add(n)
            for _ in range(20):
                s = gen_secret(rng)
                if all(s != v for v in self.docs.values()):
                    break
            else:
                continue
            i = len(self.docs) + 1
            self.docs[i] = s
            self.secrets.append((n, i))
        mode = rng.random()
        if mode < 0.2:
            self.gens = None
        elif mode < 0.3:
            self.gens = []
        else:
            gp = list(dict.fromkeys(list(names) + (["ghost"] if with_unused else [])))
            rng.shuffle(gp)
            self.gens = [(n, rng.choice([0, 0, 1, 2, 7, 41, 10 ** 6])) for n in gp if rng.random() < 0.6]
        self.ns, self.ts = rng.randrange(len(NS)), rng.randrange(len(TS))
        self.pw = rng.choice([None, None, 0, 1, 1, 2, 3])

    # ---- python arguments of the real create ----
    def py_args(self):
        return dict(deployments=[self.docs[i] for i in self.deps],
                    secrets={n: self.docs[i] for n, i in self.secrets},
                    namespace=NS[self.ns], timestamp=TS[self.ts],
                    encryption_password=None if self.pw is None else PWS[self.pw],
                    generations=None if self.gens is None else dict(self.gens))

    # ---- Gallina arguments of the model's create ----
    def g_args(self):
        return " ".join([
            glist("(%s, %s)" % (gz(i), g_name(n)) for i, n in self.tbl),
            glist(gz(i) for i in self.deps),
            glist("(%s, %s)" % (g_name(n), gz(i)) for n, i in self.secrets),
            "None" if self.gens is None else "(Some %s)" % glist("(%s, %s)" % (g_name(n), gz(g)) for n, g in self.gens),
            gz(self.ns), gz(self.ts), gopt(gz, self.pw)])

    def dump(self, i):
        """yaml.dump of document i exactly as create_backup_archive does it (memoised)."""
        c = self.__dict__.setdefault("_dumps", {})
        if i not in c:
            c[i] = yaml.dump(self.docs[i], default_flow_style=False).encode()
        return c[i]

    def doc_id(self, value):
        for i, v in self.docs.items():
            if v == value and type(v) is type(value):
                return i
        return 900


def g_name(n):
    if not all(32 <= ord(c) < 127 and c != '"' for c in n):
        raise CheckError("archive suite: name %r cannot be written as a Coq string literal" % n)
    return '(lit "%s")' % n


def enc_str(s):
    b = s.encode("latin-1")
    return [len(b)] + list(b)


def enc_opt(o):
    return [0, 0] if o is None else [1, o]


# ---- tar helpers (real tarfile / gzip) ----------------------------------------------------
def untar(data):
    """Ordered member list [(name, is_file, content)] of a .tar.gz."""
    out = []
    with tarfile.open(fileobj=io.BytesIO(data), mode="r:gz") as tar:
        for m in tar.getmembers():
            f = tar.extractfile(m) if m.isfile() else None
            out.append((m.name, m.isfile(), f.read() if f is not None else b""))
    return out


def mktar(members):
    buf = io.BytesIO()
    with tarfile.open(fileobj=buf, mode="w:gz") as tar:
        for name, isfile, content in members:
            info = tarfile.TarInfo(name=name)
            if isfile:
                info.size = len(content)
                tar.addfile(info, io.BytesIO(content))
            else:
                info.type = tarfile.DIRTYPE
                tar.addfile(info)
    return buf.getvalue()


# ---- abstraction real bytes -> blob ---------------------------------------------------------
def abstract(case, content):
    """Symbolic blob (as nested tuple) denoted by real content, by exact comparison/decoding."""
    for i in case.docs:
        if content == case.dump(i):
            return ("yaml", i)
    try:
        j = json.loads(content)
        if isinstance(j, dict) and "version" in j:
            return ("manifest", j["version"], TS.index(j["timestamp"]), NS.index(j["namespace"]),
                    j["deployment_count"], bool(j["encrypted"]))
        if isinstance(j, dict) and set(j) <= {"generation"}:
            return ("gen", j.get("generation"))
    except Exception:
        pass
    for p, pw in enumerate(PWS):
        try:
            inner = E.decrypt(content, pw)
        except Exception:
            continue
        return ("enc", p, abstract(case, inner))
    return ("rawlong",) if len(content) >= 44 else ("rawshort",)


def concretise(case, blob):
    k = blob[0]
    if k == "yaml":
        return case.dump(blob[1])
    if k == "manifest":
        return json.dumps({"version": blob[1], "timestamp": TS[blob[2]], "namespace": NS[blob[3]],
                           "deployment_count": blob[4], "encrypted": blob[5]}, indent=2).encode()
    if k == "gen":
        return json.dumps({} if blob[1] is None else {"generation": blob[1]}).encode()
    if k == "enc":
        return E.encrypt(concretise(case, blob[2]), PWS[blob[1]])
    if k == "rawshort":
        return b"\x00\xff{:"
    if k == "rawlong":
        return b"\x00\xff{:" + bytes(range(1, 61))
    raise CheckError("concretise: %r" % (blob,))


def enc_blob(b):
    k = b[0]
    if k == "yaml":
        return [1, b[1]]
    if k == "manifest":
        return [2, b[1], b[2], b[3], b[4], 1 if b[5] else 0]
    if k == "gen":
        return [3] + enc_opt(b[1])
    if k == "enc":
        return [4, b[1]] + enc_blob(b[2])
    return [5] if k == "rawshort" else [6]


def g_blob(b):
    k = b[0]
    if k == "yaml":
        return "(BYaml %s)" % gz(b[1])
    if k == "manifest":
        return "(BManifest (mkM %s %s %s %s %s))" % (gz(b[1]), gz(b[2]), gz(b[3]), gz(b[4]), gbool(b[5]))
    if k == "gen":
        return "(BGen %s)" % gopt(gz, b[1])
    if k == "enc":
        return "(BEnc %s 0 %s)" % (gz(b[1]), g_blob(b[2]))
    return "BRawShort" if k == "rawshort" else "BRawLong"


def g_members(ms):
    return glist("(%s, %s, %s)" % (g_name(n), gbool(f), g_blob(b)) for n, f, b in ms)


def enc_members(ms):
    out = []
    for n, f, b in ms:
        out += enc_str(n) + [1 if f else 0] + enc_blob(b)
    return out


# ---- the real read, canonically encoded -----------------------------------------------------
def real_read(case, data, pw):
    """Returns (encoded list, python result or exception)."""
    try:
        r = A.read_backup_archive(data, encryption_password=None if pw is None else PWS[pw])
    except InvalidTag as e:
        return [-1, 2], e
    except ValueError as e:
        msg = str(e)
        code = (1 if "no password provided" in msg else 3 if "too short" in msg else
                4 if "missing manifest" in msg else 5 if "Unsupported archive version" in msg else
                6 if isinstance(e, (json.JSONDecodeError, UnicodeDecodeError)) else 98)
        return [-1, code], e
    except yaml.YAMLError as e:
        return [-1, 6], e
    except Exception as e:                      # anything else is reported, never hidden
        return [-1, 97], e
    m = r.manifest
    out = [0, m.version, TS.index(m.timestamp) if m.timestamp in TS else 97,
           NS.index(m.namespace) if m.namespace in NS else 97, m.deployment_count, 1 if m.encrypted else 0]
    for e in r.entries:
        out += enc_str(e.name) + [case.doc_id(e.cr)] + enc_opt(None if e.secret is None else case.doc_id(e.secret)) \
            + enc_opt(e.generation)
    return out, r


HMOD = 2147483629


def zhash(full, acc=7):
    for x in full:
        acc = (acc * 1000003 + x + 17) % HMOD
    return acc


def compact(full):
    """First two numbers exactly + 31-bit hash of the complete encoding (Model/Archive.v `compact`)."""
    return list(full[:2]) + [zhash(full)]


def g_reads(reads):
    return glist("(%s, %s)" % (gopt(gz, p), glist(gz(z) for z in compact(e))) for p, e in reads)


def archive_expr(case, members, reads):
    """One Z-valued term per real archive: 0 = the model's create yields these members and every
    (password, result) read agrees; 1 = create differs; 2+k = read k differs."""
    return "archive_check %s %s %s" % (case.g_args(), g_members(members), g_reads(reads))


def members_expr(members, reads):
    return "members_check %s %s" % (g_members(members), g_reads(reads))


def create_expr(case, members):
    return "create_check %s %s" % (case.g_args(), glist(gz(z) for z in enc_members(members)))


def read_expr(pw, members, expected):
    return "read_check %s %s %s" % (gopt(gz, pw), g_members(members), glist(gz(z) for z in expected))


# ---- C33 evaluated on the real code ---------------------------------------------------------
def monitor_roundtrip(case, data):
    """For valid unique names: reading with the same password returns the same resources, secrets
    and generations under the same names; a different password does not give the secrets."""
    args = case.py_args()
    pw = args["encryption_password"]
    try:
        r = A.read_backup_archive(data, encryption_password=pw)
    except Exception as e:
        return ("C33/read-own-archive-fails", "reading the archive just created raised %s: %s" % (type(e).__name__, e))
    got = [(e.name, e.cr, e.secret, e.generation) for e in r.entries]
    gens = args["generations"] or {}
    want = [(d["metadata"]["name"], d, args["secrets"].get(d["metadata"]["name"]), gens.get(d["metadata"]["name"]))
            for d in args["deployments"]]
    if got != want:
        for g, w in zip(got, want):
            if g != w:
                what = ["name", "resource", "secret", "generation"][[a == b for a, b in zip(g, w)].index(False)]
                return ("C33/roundtrip-" + what, "entry %r: %s restored as %r, backed up as %r"
                        % (w[0], what, g[[a == b for a, b in zip(g, w)].index(False)],
                           w[[a == b for a, b in zip(g, w)].index(False)]))
        return ("C33/roundtrip-entries", "restored %d entries %r, backed up %d" % (len(got), [g[0] for g in got], len(want)))
    m = r.manifest
    if (m.version, m.timestamp, m.namespace, m.deployment_count) != (1, args["timestamp"], args["namespace"],
                                                                     len(args["deployments"])):
        return ("C33/roundtrip-manifest", "manifest restored as %r" % (m,))
    has_encrypted = bool(pw) and any(w[2] is not None for w in want)
    if has_encrypted:
        import unicodedata as _ud
        near = [pw + "\n", " " + pw, pw + " ", "\t" + pw, pw.upper(), _ud.normalize("NFD", pw), _ud.normalize("NFKC", pw),
                pw.strip(), pw[:-1]]
        for other in [pw + "x", "", None] + [p for p in PWS if p != pw] + [q for q in near if q != pw]:
            try:
                r2 = A.read_backup_archive(data, encryption_password=other)
            except (InvalidTag, ValueError):
                continue
            except Exception as e:
                return ("C33/wrong-password-other-error", "password %r: %s" % (other, type(e).__name__))
            return ("C33/wrong-password-accepted", "encrypted secrets were read with password %r instead of %r: %r"
                    % (other, pw, [e.secret for e in r2.entries]))
    return None


# ---- encryption.py wire format: where decrypt cuts the data --------------------------------
class _Recorder:
    log = None

    def __init__(self, key):
        self.key = key

    def decrypt(self, nonce, data, aad):
        _Recorder.log = (self.key, bytes(nonce), bytes(data))
        return b"plain"

    def encrypt(self, nonce, data, aad):
        return b"CT(" + bytes(data) + b")" + b"T" * 16


def wire_cases(rng, n):
    """(expr, meta): the real decrypt's slicing of `data`, against Model/Archive.v wire_decrypt."""
    exprs, metas = [], []
    real_aes, real_kdf = E.AESGCM, E._derive_key
    E.AESGCM = _Recorder
    E._derive_key = lambda password, salt: b"K|" + password.encode() + b"|" + bytes(salt)
    try:
        for _ in range(n):
            ln = rng.choice([0, 1, 15, 16, 27, 28, 43, 43, 44, 44, 45, 60, 100])
            data = bytes(rng.randrange(256) for _ in range(ln))
            _Recorder.log = None
            try:
                E.decrypt(data, "pw")
                key, nonce, ct = _Recorder.log
                salt = key[len(b"K|pw|"):]
                exp = [0, len(salt)] + list(salt) + [len(nonce)] + list(nonce) + [len(ct)] + list(ct)
            except ValueError:
                exp = [-1]
            exprs.append("wire_split_check %s %s" % (glist(gz(z) for z in data), glist(gz(z) for z in exp)))
            metas.append(dict(kind="wire", length=ln))
        # encrypt: salt + nonce + ciphertext, with the lengths the constants say
        salt_nonce = []
        real_urandom = os.urandom
        E.os.urandom = lambda k: (salt_nonce.append(k), bytes([len(salt_nonce)]) * k)[1]
        try:
            out = E.encrypt(b"abc", "pw")
        finally:
            E.os.urandom = real_urandom
        layout_ok = (salt_nonce == [16, 12] and out == b"\x01" * 16 + b"\x02" * 12 + b"CT(abc)" + b"T" * 16)
    finally:
        E.AESGCM, E._derive_key = real_aes, real_kdf
    return exprs, metas, layout_ok


WIRE_HEADER = HEADER + """
Definition wire_split (data : list Z) : list Z :=
  match wire_decrypt (list Z * list Z) Z (fun pw salt => (pw, salt))
          (fun k n ct => Some (Z.of_nat (List.length (snd k)) :: snd k ++ Z.of_nat (List.length n) :: n
                                ++ Z.of_nat (List.length ct) :: ct)%list)
          [] data with
  | DOk l => 0 :: l
  | DTag => [-2]
  | DShort => [-1]
  end.
Definition wire_split_check (data expected : list Z) : Z := if zl_eqb (wire_split data) expected then 0 else 1.
"""
