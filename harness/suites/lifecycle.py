"""DBOS half of C26 / C36: the real SqliteRunLifecycleLock on sqlite3 files, driven with generated
operation sequences (several runs, several "replicas" = lock objects on the same file, concurrent
batches) under virtual time, compared with M-Lifecycle (Model/Lifecycle.v) inside Coq; and the real
DBOSIdleReleaseDecorator (idle_release.py) driven over the real engine with the real lock, to observe
whether a DBOS run is ever released.  The DBOS library itself is absent (name-only stubs): what DBOS
does with a workflow is a named assumption, those clauses are PARTIAL."""
import asyncio
import os
import random
import sqlite3

import boot
import vloop

boot.enable_server()
boot.enable_ext_shims()
boot.bare("llama_agents.dbos", os.path.join(boot.PK, "llama-agents-dbos/src/llama_agents/dbos"))

import llama_agents.dbos.idle_release as DIR  # noqa: E402
import llama_agents.dbos.journal.lifecycle as LC  # noqa: E402
import llama_agents.server._store.abstract_workflow_store as _m2  # noqa: E402
import llama_agents.server._store.memory_workflow_store as _m3  # noqa: E402
from llama_agents.dbos.journal.lifecycle import RunLifecycleState, SqliteRunLifecycleLock  # noqa: E402

vloop.patch_datetime(LC, DIR, _m2, _m3)

HEADER = ("From Coq Require Import List ZArith Bool.\nImport ListNotations.\n"
          "From WF Require Import Model.Lifecycle.\nOpen Scope Z_scope.\n")
MIGRATION = os.path.join(boot.PK, "llama-agents-dbos/src/llama_agents/dbos/_store/sqlite/migrations/0001_init.sql")
STATE = {"active": 1, "releasing": 2, "released": 3}


def new_db(path):
    if os.path.exists(path):
        os.remove(path)
    c = sqlite3.connect(path)
    c.executescript(open(MIGRATION).read())
    c.commit()
    c.close()


def read_row(path, run, base):
    c = sqlite3.connect(path)
    try:
        r = c.execute("SELECT state, updated_at FROM run_lifecycle WHERE run_id = ?", (run,)).fetchone()
    finally:
        c.close()
    if r is None:
        return [0, 0]
    import datetime as _dt
    ts = _dt.datetime.fromisoformat(r[1]).timestamp()
    u = ts - base
    if abs(u - round(u)) > 1e-6:
        raise RuntimeError("updated_at %r is not a whole second" % r[1])
    return [STATE[r[0]], int(round(u))]


def enc_res(kind, r):
    if kind in ("create", "complete"):
        return 0
    if kind == "begin":
        return 11 if r else 10
    if r is None:
        return 20
    return 30 + STATE[r.value]


def gen_ops(rng, n, create_bias):
    """list of (dt_before, replica, run, kind, ct) ; batches: consecutive ops with dt 0 may be run concurrently"""
    ops = []
    if rng.random() < 0.5:
        # mostly-valid protocol runs: create, release, resumers around the crash timeout, complete, resumers racing
        while len(ops) < n:
            run = rng.randrange(3)
            if rng.random() < 0.8:
                ops.append((rng.choice([0, 1]), rng.randrange(3), run, "create", None))
            ops.append((rng.choice([0, 1, 5]), rng.randrange(3), run, "begin", None))
            if rng.random() < 0.3:
                ops.append((0, rng.randrange(3), run, "begin", None))            # second releaser
            for _ in range(rng.randint(0, 2)):
                ops.append((rng.choice([0, 5, 60, 119, 120, 121, 200]), rng.randrange(3), run, "resume",
                            rng.choice([None, 0, 120, 120])))
            if rng.random() < 0.7:
                ops.append((rng.choice([0, 1]), rng.randrange(3), run, "complete", None))
            for _ in range(rng.randint(1, 3)):
                ops.append((rng.choice([0, 0, 1]), rng.randrange(3), run, "resume", rng.choice([None, 120])))
        return ops[:n + 6]
    for _ in range(n):
        k = rng.random()
        if k < create_bias:
            kind = "create"
        elif k < create_bias + 0.3:
            kind = "begin"
        elif k < create_bias + 0.5:
            kind = "complete"
        else:
            kind = "resume"
        ct = rng.choice([None, 0, 5, 120, 120, 120]) if kind == "resume" else None
        dt = rng.choice([0, 0, 0, 1, 3, 5, 6, 60, 119, 120, 121, 200])
        ops.append((dt, rng.randrange(3), rng.randrange(3), kind, ct))
    return ops


def coq_ops(ops):
    out, now = [], 0
    for (dt, _rep, run, kind, ct) in ops:
        now += dt
        k = {"create": "Create", "begin": "BeginRelease", "complete": "CompleteRelease"}.get(kind)
        if k is None:
            k = "(TryResume %s)" % ("None" if ct is None else "(Some %d)" % ct)
        out.append("{| o_now := %d ; o_run := %d ; o_kind := %s |}" % (now, run, k))
    return "[" + "; ".join(out) + "]"


def run_ops(path, ops, concurrent):
    """Execute on the real lock (three lock objects = three replicas in one process on one file).
    concurrent=True: ops that share an instant are started together as tasks (gather)."""
    new_db(path)
    trace, results = [], []

    async def main():
        loop = asyncio.get_running_loop()
        loop.auto = False
        base = loop._vt + vloop.CLOCK.wall_offset
        locks = [SqliteRunLifecycleLock(path) for _ in range(3)]
        shared = SqliteRunLifecycleLock(path)

        async def one(op):
            (_dt, rep, run, kind, ct) = op
            lk = shared if concurrent else locks[rep]
            rid = "run-%d" % run
            if kind == "create":
                r = await lk.create(rid)
            elif kind == "begin":
                r = await lk.begin_release(rid)
            elif kind == "complete":
                r = await lk.complete_release(rid)
            else:
                r = await lk.try_begin_resume(rid, crash_timeout_seconds=ct)
            results.append((op, r))
            trace.extend([enc_res(kind, r)] + read_row(path, rid, base))

        i = 0
        while i < len(ops):
            loop.advance(ops[i][0])
            j = i + 1
            if concurrent:
                while j < len(ops) and ops[j][0] == 0:
                    j += 1
                await asyncio.gather(*[asyncio.create_task(one(o)) for o in ops[i:j]])
            else:
                await one(ops[i])
            i = j

    vloop.run(main(), start=1000.0)
    return trace, results


def monitor_one_owner(results):
    """C26 on the implementation: at every prefix and for every run, resume wins (+ a release still
    pending) never exceed release wins since the last create (the only non-CAS write)."""
    out = []
    rel, rsm, pend = {}, {}, {}
    for k, ((_dt, _rep, run, kind, ct), r) in enumerate(results):
        if kind == "create":
            rel[run], rsm[run], pend[run] = 0, 0, 0
        elif kind == "begin" and r:
            if pend.get(run, 0):
                out.append("op %d: begin_release succeeded for run %d although a release is already pending "
                           "(two releasers own it)" % (k, run))
            rel[run] = rel.get(run, 0) + 1
            pend[run] = 1
        elif kind == "resume" and r == RunLifecycleState.released:
            rsm[run] = rsm.get(run, 0) + 1
            if not pend.get(run, 0):
                out.append("op %d: run %d resumed by a second owner (no release pending)" % (k, run))
            pend[run] = 0
        elif kind == "resume" and r is None and pend.get(run, 0):
            out.append("op %d: run %d reported active while a release is pending" % (k, run))
        if rsm.get(run, 0) + pend.get(run, 0) > rel.get(run, 0):
            out.append("op %d: run %d has %d resume wins + %d pending for %d release wins"
                       % (k, run, rsm.get(run, 0), pend.get(run, 0), rel.get(run, 0)))
    return out


def monitor_crash_timeout(results):
    """a `releasing` row is taken over only after more than crash_timeout seconds"""
    out = []
    now, began = 0, {}
    state = {}
    for k, ((dt, _rep, run, kind, ct), r) in enumerate(results):
        now += dt
        if kind == "create":
            state[run] = "active"
        elif kind == "begin" and r:
            state[run] = "releasing"
            began[run] = now
        elif kind == "complete" and state.get(run) == "releasing":
            state[run] = "released"
        elif kind == "resume":
            if state.get(run) == "releasing":
                took = (r == RunLifecycleState.released)
                should = ct is not None and now - began[run] > ct
                if took != should:
                    out.append("op %d: run %d releasing for %d s, crash_timeout %r: takeover=%s"
                               % (k, run, now - began[run], ct, took))
                if took:
                    state[run] = "active"
            elif state.get(run) == "released" and r == RunLifecycleState.released:
                state[run] = "active"
    return out


# ---------------------------------------------------------------- the decorator over the real engine
from workflows.events import Event as _Event  # noqa: E402


class _Fin(_Event):
    pass


def drive_decorator(path, idle_timeout, idle_for, create_row):
    """DBOSIdleReleaseDecorator(TickPersistenceDecorator(BasicRuntime)) with the real lock: start a run
    that goes idle, stay idle for `idle_for` seconds.  Returns observations."""
    from llama_agents.server._runtime.persistence_runtime import TickPersistenceDecorator
    from llama_agents.server._store.memory_workflow_store import MemoryWorkflowStore
    from llama_agents.server._store.abstract_workflow_store import PersistentHandler
    from workflows import Context, Workflow, step
    from workflows.events import StartEvent, StopEvent
    from workflows.plugins.basic import BasicRuntime
    new_db(path)
    obs = {}

    class W(Workflow):
        @step
        async def start(self, ctx: Context, ev: StartEvent) -> None:
            return None

        @step
        async def fin(self, ctx: Context, ev: _Fin) -> StopEvent:
            return StopEvent(result="done")

    calls = []

    class RecLock(SqliteRunLifecycleLock):
        async def begin_release(self, run_id):
            r = await super().begin_release(run_id)
            calls.append(("begin_release", r))
            return r

        async def create(self, run_id):
            calls.append(("create", None))
            return await super().create(run_id)

    async def main():
        store = MemoryWorkflowStore()
        lock = RecLock(path)
        rt = DIR.DBOSIdleReleaseDecorator(TickPersistenceDecorator(BasicRuntime(), store), store=store,
                                          idle_timeout=idle_timeout, lifecycle_lock=lambda: lock)
        w = W(timeout=None, disable_validation=True)
        w._switch_workflow_name("w")
        w._switch_runtime(rt)
        import datetime as _dt
        now = _m2.datetime.now(_dt.timezone.utc)
        await store.update(PersistentHandler(handler_id="h1", workflow_name="w", status="running", run_id="r1",
                                             started_at=now, updated_at=now))
        if create_row:
            await lock.create("r1")
        h = w.run(run_id="r1")
        await asyncio.sleep(idle_for)
        inner = rt._decorated.get_external_adapter("r1")
        obs["loop_alive"] = bool(getattr(inner, "is_running", True))
        obs["calls"] = list(calls)
        c = sqlite3.connect(path)
        obs["row"] = c.execute("SELECT state FROM run_lifecycle WHERE run_id='r1'").fetchone()
        c.close()
        hd = (await store.query(_m2.HandlerQuery(handler_id_in=["h1"])))[0]
        obs["idle_since_set"] = hd.idle_since is not None
        for t in asyncio.all_tasks():
            if t is not asyncio.current_task():
                t.cancel()
        await asyncio.sleep(0)

    vloop.run(main())
    return obs


class _Job(_Event):
    dur: float = 0.0


class _Nobody(_Event):
    pass


def drive_decorator_rearm(path, idle_timeout, wait_timeout, send_after, dur, tail):
    """The same stack with a lifecycle row (the harness creates it), a run whose idle periods are re-armed from inside:
    the start step waits for an event with a timeout SHORTER than idle_timeout, so the run announces idle, is woken by
    its own waiter timeout (an internal tick: nothing was received from outside), and announces idle again while the
    first release timer is still pending.  `send_after` seconds after that second idle mark a job arrives from outside
    and keeps a step busy for `dur` seconds; the scenario then stays quiet for `tail` seconds.  Returns the release
    attempts with what the run was doing at that instant."""
    from llama_agents.server._runtime.persistence_runtime import TickPersistenceDecorator
    from llama_agents.server._store.memory_workflow_store import MemoryWorkflowStore
    from llama_agents.server._store.abstract_workflow_store import PersistentHandler
    from workflows import Context, Workflow, step
    from workflows.events import StartEvent, StopEvent
    from workflows.plugins.basic import BasicRuntime
    from workflows.runtime.types.ticks import TickAddEvent
    new_db(path)
    obs = dict(attempts=[], bodies=[], idle_marks=[], errors=[])
    state = dict(running=0)
    loop_time = lambda: asyncio.get_event_loop().time()  # noqa: E731

    class W(Workflow):
        @step
        async def start(self, ctx: Context, ev: StartEvent) -> None:
            try:
                await ctx.wait_for_event(_Nobody, waiter_id="w", timeout=wait_timeout)
            except asyncio.TimeoutError:
                obs["bodies"].append(("wait-timeout", loop_time()))
            return None

        @step
        async def job(self, ctx: Context, ev: _Job) -> None:
            state["running"] += 1
            obs["bodies"].append(("job-enter", loop_time()))
            try:
                await asyncio.sleep(ev.dur)
                obs["bodies"].append(("job-exit", loop_time()))
            except asyncio.CancelledError:
                obs["bodies"].append(("job-cancelled", loop_time()))
                raise
            finally:
                state["running"] -= 1
            return None

        @step
        async def fin(self, ctx: Context, ev: _Fin) -> StopEvent:
            return StopEvent(result="done")

    class RecLock(SqliteRunLifecycleLock):
        async def begin_release(self, run_id):
            r = await super().begin_release(run_id)
            obs["attempts"].append(dict(t=loop_time(), ok=bool(r), running_bodies=state["running"]))
            return r

    class RecDec(DIR.DBOSIdleReleaseDecorator):
        def _schedule_deferred_release(self, run_id):
            obs["idle_marks"].append(loop_time())
            return super()._schedule_deferred_release(run_id)

    async def main():
        store = MemoryWorkflowStore()
        lock = RecLock(path)
        rt = RecDec(TickPersistenceDecorator(BasicRuntime(), store), store=store,
                    idle_timeout=idle_timeout, lifecycle_lock=lambda: lock)
        w = W(timeout=None, disable_validation=True)
        w._switch_workflow_name("w")
        w._switch_runtime(rt)
        import datetime as _dt
        now = _m2.datetime.now(_dt.timezone.utc)
        await store.update(PersistentHandler(handler_id="h1", workflow_name="w", status="running", run_id="r1",
                                             started_at=now, updated_at=now))
        await lock.create("r1")
        t0 = loop_time()
        h = w.run(run_id="r1")  # noqa: F841
        # wait for the second idle mark (after the waiter timeout)
        for _ in range(4000):
            if len(obs["idle_marks"]) >= 2:
                break
            await asyncio.sleep(1 / 64)
        obs["second_mark_at"] = (obs["idle_marks"][1] - t0) if len(obs["idle_marks"]) >= 2 else None
        await asyncio.sleep(send_after)
        obs["sent_at"] = loop_time() - t0
        try:
            await rt.get_external_adapter("r1").send_event(TickAddEvent(event=_Job(dur=dur)))
        except Exception as e:  # noqa: BLE001
            obs["errors"].append("send_event: %r" % (e,))
        await asyncio.sleep(dur + tail)
        inner = rt._decorated.get_external_adapter("r1")
        obs["loop_alive"] = bool(getattr(inner, "is_running", True))
        c = sqlite3.connect(path)
        obs["row"] = c.execute("SELECT state FROM run_lifecycle WHERE run_id='r1'").fetchone()
        c.close()
        obs["t0"] = t0
        for a in obs["attempts"]:
            a["t"] -= t0
        obs["bodies"] = [(k, t - t0) for k, t in obs["bodies"]]
        obs["idle_marks"] = [t - t0 for t in obs["idle_marks"]]
        for t in asyncio.all_tasks():
            if t is not asyncio.current_task():
                t.cancel()
        await asyncio.sleep(0)

    vloop.run(main())
    return obs


def monitor_rearm(o, idle_timeout, dur):
    """C26 on one drive_decorator_rearm observation: a release is only ever begun on a run with no running work, and an
    event accepted from outside is processed to the end"""
    out = []
    for a in o["attempts"]:
        if a["ok"] and a["running_bodies"]:
            out.append("begin_release succeeded at t=%.3f while %d step invocations were running (idle marks at %s, the job "
                       "arrived at t=%.3f): the run is released in the middle of a step"
                       % (a["t"], a["running_bodies"], ["%.3f" % x for x in o["idle_marks"]], o["sent_at"]))
    kinds = [k for k, _ in o["bodies"]]
    if not o["errors"] and "job-enter" in kinds and "job-exit" not in kinds:
        out.append("the job sent at t=%.3f was accepted and started but never finished (%s)" % (o["sent_at"], o["bodies"]))
    if not o["errors"] and "job-enter" not in kinds:
        out.append("the job sent at t=%.3f was accepted but never started" % o["sent_at"])
    return out


def create_call_sites():
    """number of `.create(` calls on a lifecycle lock in the DBOS package sources (by AST)"""
    import ast
    root = os.path.join(boot.PK, "llama-agents-dbos/src/llama_agents/dbos")
    n = 0
    for d, _, fs in os.walk(root):
        for f in fs:
            if not f.endswith(".py"):
                continue
            src = open(os.path.join(d, f)).read()
            for node in ast.walk(ast.parse(src)):
                if isinstance(node, ast.Call) and isinstance(node.func, ast.Attribute) and node.func.attr == "create":
                    tgt = ast.unparse(node.func.value)
                    if "lifecycle" in tgt or "lock" in tgt.lower():
                        n += 1
    return n
