"""Correspondence suite `journal` (C27): the real TaskJournal + SqliteJournalCrud (sqlite file) and the real
InternalDBOSAdapter.wait_for_next_task (llama_agents.dbos.runtime imported with the name-only dbos/sqlalchemy/
asyncpg stubs) vs Model/Journal.v.

Two levels:
 * jops   — random operation scripts on TaskJournal / JournalCrud objects (L0);
 * loop   — the adapter driven by a bookkeeping loop that mirrors _ControlLoopRunner.run (pending/running lists,
            removal of the completed task) on real asyncio tasks under vloop.VirtualLoop: a generated deterministic
            toy workflow (`Prog`: result history -> keys to start, timer armed?, DBOS function id), a first run from
            a fresh database, and a recovered run from the database as it was at EVERY quiescent point of the first run
            (crash points), each with its own generated completion order.  The observable state (both tables, the
            journal object, the purge flag, results handed out, fallback-warning count) is snapshotted at every
            quiescent point and compared with the model (`run_obs`, hash of all snapshots, compared inside Coq).
"""
import asyncio
import os
import random
import shutil
import sqlite3

import boot
import core
import vloop
from core import gz, glist, gbool

boot.enable_ext_shims()
boot.enable_server()

try:
    import dbos._context as _dbos_ctx
    import llama_agents.dbos.runtime as rt
    from llama_agents.dbos.journal.crud import SqliteJournalCrud
    from llama_agents.dbos.journal.task_journal import TaskJournal
    from workflows.runtime.types.named_task import PendingPull, PendingWorker
except Exception as e:  # fail closed: the tie needs the real modules
    raise core.CheckError("cannot import the DBOS runtime sources with the stubs: %r" % (e,))

import llama_agents.dbos.journal.crud as _crud_mod  # noqa: E402


class _Sqlite3NoFsync:
    """crud.py opens a connection per statement and commits; on this disk every commit is an fsync (~15 ms).
    The module-level name `sqlite3` of crud.py is rebound to this proxy, which only adds PRAGMA synchronous=OFF to
    new connections (no effect on SQL semantics; durability against power loss is not what is checked here)."""

    def __getattr__(self, name):
        return getattr(sqlite3, name)

    @staticmethod
    def connect(*a, **k):
        c = sqlite3.connect(*a, **k)
        c.execute("PRAGMA synchronous=OFF")
        return c


_crud_mod.sqlite3 = _Sqlite3NoFsync()

HEADER = """From Coq Require Import List ZArith Bool.
Import ListNotations.
From WF Require Import Model.Journal.
Open Scope Z_scope.
"""

MIGRATION = os.path.join(boot.PK, "llama-agents-dbos/src/llama_agents/dbos/_store/sqlite/migrations/0001_init.sql")
RUNS = ["run-0", "run-1"]           # run ids <-> 0, 1 ; the adapter under test is always RUNS[0]
KEYS = ["a:0", "a:1", "b:0", "c:0", "c:1", "c:2"] + ["__pull__:%d" % i for i in range(40)]
KID = {k: i for i, k in enumerate(KEYS)}


# ------------------------------------------------------------------ database helpers
class Dbs:
    """sqlite files under ctx.scratch, created from the repository's own migration script."""

    def __init__(self, scratch):
        self.dir = os.path.join(scratch, "journaldb")
        os.makedirs(self.dir, exist_ok=True)
        self.template = os.path.join(self.dir, "template.db")
        c = sqlite3.connect(self.template)
        c.executescript(open(MIGRATION).read())
        # DBOS's own table (library absent): only the two columns the purge statement names
        c.execute("CREATE TABLE operation_outputs (workflow_uuid TEXT, function_id INTEGER)")
        c.commit()
        c.close()
        self.n = 0

    def fresh(self, rows=(), ops=()):
        self.n += 1
        p = os.path.join(self.dir, "d%d.db" % self.n)
        shutil.copy(self.template, p)
        if rows or ops:
            c = _Sqlite3NoFsync.connect(p)
            c.executemany("INSERT INTO workflow_journal (run_id, seq_num, task_key) VALUES (?,?,?)",
                          [(RUNS[r], s, KEYS[k]) for r, s, k in rows])
            c.executemany("INSERT INTO operation_outputs (workflow_uuid, function_id) VALUES (?,?)",
                          [(RUNS[r], f) for r, f in ops])
            c.commit()
            c.close()
        return p

    def drop(self, p):
        c = _READERS.pop(p, None)
        if c is not None:
            c.close()
        try:
            os.unlink(p)
        except OSError:
            pass


_READERS = {}


def _reader(path):
    c = _READERS.get(path)
    if c is None:
        if len(_READERS) > 8:
            for k in list(_READERS):
                _READERS.pop(k).close()
        c = _READERS[path] = sqlite3.connect(path, isolation_level=None)   # autocommit: sees every committed write
    return c


def dump(path):
    c = _reader(path)
    rows = [(RUNS.index(r), s, KID[k]) for r, s, k in
            c.execute("SELECT run_id, seq_num, task_key FROM workflow_journal ORDER BY id")]
    ops = [(RUNS.index(r), f) for r, f in
           c.execute("SELECT workflow_uuid, function_id FROM operation_outputs ORDER BY rowid")]
    return rows, ops


def enc_db(rows, ops):
    out = [len(rows)]
    for r in rows:
        out += list(r)
    out.append(len(ops))
    for o in ops:
        out += list(o)
    return out


def enc_journal(j):
    if j is None or j._entries is None:
        return [-1, 0 if j is None else j._replay_index]
    return [len(j._entries)] + [KID[k] for k in j._entries] + [j._replay_index]


def g_db(rows, ops):
    return "{| d_j := %s ; d_o := %s |}" % (
        glist("{| jr_run := %s ; jr_seq := %s ; jr_key := %s |}" % (gz(r), gz(s), gz(k)) for r, s, k in rows),
        glist("{| or_run := %s ; or_fid := %s |}" % (gz(r), gz(f)) for r, f in ops))


def zhash(h, ints):
    a, b, c = h
    for x in ints:
        a += x + 2
        b += a
        c += b
    return (a, b, c)


def zfin(h):
    a, b, c = h
    return a + (b << 40) + (c << 100)


# ------------------------------------------------------------------ L0: TaskJournal / crud op scripts
def run_jops(rng, dbs, nops):
    """Generate a script while executing it on the real objects (so that inserts never create two rows with
    the same (run, seq): SQL leaves the order of such ties unspecified).  Returns (Coq term, record, kinds)."""
    path = dbs.fresh()
    crud = SqliteJournalCrud(path)
    state = dict(j=TaskJournal(RUNS[0], crud))
    ops, out, names = [], [], []
    kinds = {}

    def op(name, c, a=0, b=0, k=0):
        if not (-1 <= a < 11 and -1 <= b < 11 and 0 <= k < 8):
            raise core.CheckError("jop argument out of the encodable range")
        ops.append(((c * 12 + (a + 1)) * 12 + (b + 1)) * 8 + k)
        names.append("%s %d %d %d" % (name, a, b, k))
        kinds[name] = kinds.get(name, 0) + 1

    async def go():
        for _ in range(nops):
            j = state["j"]
            rows, _ops = dump(path)
            used = {(r, s) for r, s, _ in rows}
            k = rng.choice(["load", "load", "record", "record", "record", "advance", "next", "next", "replaying",
                            "has", "purge", "new", "rawins", "rawins", "rawtrunc", "rawdel", "rawload", "rawload", "rawop"])
            if k == "load":
                await j.load()
                op(k, 0)
            elif k == "record":
                seq = len(j._entries or [])
                if j._crud is not None and (0, seq) in used:
                    continue
                key = rng.randrange(6)
                await j.record(KEYS[key])
                op(k, 1, key)
            elif k == "advance":
                j.advance()
                op(k, 2)
            elif k == "next":
                v = j.next_expected_key()
                out.append(-1 if v is None else KID[v])
                op(k, 3)
            elif k == "replaying":
                out.append(1 if j.is_replaying() else 0)
                op(k, 4)
            elif k == "has":
                out.append(1 if j.has_entries else 0)
                op(k, 5)
            elif k == "purge":
                fid = rng.randrange(-1, 8)
                await j.purge_stale(fid)
                op(k, 6, fid)
            elif k == "new":
                c = rng.random() < 0.8
                state["j"] = TaskJournal(RUNS[0], crud if c else None)
                op(k, 7, 1 if c else 0)
            elif k == "rawins":
                r, s_, key = rng.randrange(2), rng.randrange(0, 9), rng.randrange(6)
                if (r, s_) in used:
                    continue
                await crud.insert(RUNS[r], s_, KEYS[key])
                op(k, 8, r, s_, key)
            elif k == "rawtrunc":
                r, n = rng.randrange(2), rng.randrange(-1, 9)
                await crud.truncate_from(RUNS[r], n)
                op(k, 9, r, n)
            elif k == "rawdel":
                if rng.random() < 0.7:
                    continue
                r = rng.randrange(2)
                await crud.delete(RUNS[r])
                op(k, 10, r)
            elif k == "rawload":
                r = rng.randrange(2)
                v = await crud.load(RUNS[r])
                out.extend([len(v)] + [KID[x] for x in v])
                op(k, 11, r)
            elif k == "rawop":
                r, f = rng.randrange(2), rng.randrange(0, 9)
                c = _Sqlite3NoFsync.connect(path)
                c.execute("INSERT INTO operation_outputs (workflow_uuid, function_id) VALUES (?,?)", (RUNS[r], f))
                c.commit()
                c.close()
                op(k, 12, r, f)

    vloop.run(go())
    rows, dops = dump(path)
    out += enc_db(rows, dops) + enc_journal(state["j"])
    dbs.drop(path)
    flat = [len(ops)] + ops + out
    return "jops_case %s" % core.gzlist(flat), dict(ops=names, out=out), kinds


# ------------------------------------------------------------------ the toy workflow: history -> pinfo
class Prog:
    """A deterministic function of the result history (tuple of key ids, -1 = timeout).  It keeps worker slots
    like the engine does: a key is started only while it is not live (unless `dups`), pulls are numbered."""

    def __init__(self, seed, timers, dups=False):
        self.seed, self.timers, self.dups = seed, timers, dups
        self.memo = {}
        self.live = {(): []}

    def live_after(self, h):
        """live key ids right BEFORE the pending of prog(h) are started"""
        if h in self.live:
            return self.live[h]
        prev = h[:-1]
        l = list(self.live_after(prev)) + list(self(prev)[0])
        if h[-1] >= 0 and h[-1] in l:
            l.remove(h[-1])
        self.live[h] = l
        return l

    def __call__(self, h):
        if h in self.memo:
            return self.memo[h]
        rng = random.Random("%s/%s" % (self.seed, h))
        live = self.live_after(h)
        pend = []
        workers = [k for k in range(6)]
        free = [k for k in workers if k not in live]
        nstart = rng.choice([0, 0, 1, 1, 1, 2, 3]) if h else rng.choice([1, 2, 3])
        rng.shuffle(free)
        pend += free[:nstart]
        if self.dups and live and rng.random() < 0.3:
            pend.append(rng.choice(live))
        npull = sum(1 for x in h if x >= 6)
        if not any(k >= 6 for k in live):
            if 6 + npull < len(KEYS) and rng.random() < 0.9:
                pend.append(6 + npull)
        rng.shuffle(pend) if rng.random() < 0.3 else None
        tmo = self.timers and rng.random() < 0.45
        fid = rng.randrange(0, 12)
        if rng.random() < 0.04:
            pend = []          # nothing to start (with nothing live: the "no tasks" return)
        self.memo[h] = (tuple(pend), tmo, fid)
        return self.memo[h]


def flat_table(prog, hists):
    """one entry per history, parents before children: [parent index + 1 | 0, last + 1, n pending, pending..., 16*tmo+fid]"""
    out = [len(hists)]
    index = {}
    for i, h in enumerate(hists):
        pend, tmo, fid = prog(h)
        if not (0 <= fid < 16):
            raise core.CheckError("function id out of the encodable range")
        if h:
            if h[:-1] not in index:
                raise core.CheckError("history table is not prefix-closed")
            out += [index[h[:-1]] + 1, h[-1] + 1]
        else:
            out += [0, 0]
        out += [len(pend)] + list(pend) + [(16 if tmo else 0) + fid]
        index[h] = i
    return out


def flat_db(rows, ops):
    for r, s_, k in rows:
        if not (0 <= s_ < 64 and 0 <= k < 64 and r >= 0):
            raise core.CheckError("journal row out of the encodable range: %r" % ((r, s_, k),))
    for r, f in ops:
        if not (0 <= f < 16 and r >= 0):
            raise core.CheckError("operation row out of the encodable range: %r" % ((r, f),))
    return [len(rows)] + [r * 4096 + s_ * 64 + k for r, s_, k in rows] + [len(ops)] + [r * 16 + f for r, f in ops]


# ------------------------------------------------------------------ the loop around the real adapter
class _Log:
    """stands in for runtime.logger: counts the "Non-deterministic execution detected" warnings"""

    def __init__(self):
        self.warnings = 0

    def warning(self, *a, **k):
        self.warnings += 1

    def debug(self, *a, **k):
        pass

    info = error = exception = debug


T_ARM = 1000.0   # virtual seconds of an armed timer; the driver fires it by advancing the clock past it


_LOOP = {}


def run_on_shared_loop(coro):
    """Like vloop.run(coro, auto=False) but on one VirtualLoop kept for the whole process (creating a selector loop
    per run costs a socketpair and several syscalls); leftover tasks are cancelled and drained after every run."""
    loop = _LOOP.get("loop")
    if loop is None:
        loop = _LOOP["loop"] = vloop.VirtualLoop()
        loop.auto = False
    vloop.CLOCK.loop = loop
    asyncio.set_event_loop(loop)
    try:
        return loop.run_until_complete(coro)
    finally:
        try:
            pending = [t for t in asyncio.all_tasks(loop) if not t.done()]
            for t in pending:
                t.cancel()
            if pending:
                loop.run_until_complete(asyncio.gather(*pending, return_exceptions=True))
        finally:
            vloop.CLOCK.loop = None
            asyncio.set_event_loop(None)


def named_pending(kid, coro):
    name, num = KEYS[kid].rsplit(":", 1)
    if name == "__pull__":
        return PendingPull(int(num), coro)
    return PendingWorker(name, int(num), coro)


def drive(path, prog, env_rng, max_results, memo_uids=frozenset(), style="free", actions=None):
    """One process lifetime: a new InternalDBOSAdapter on the database file, driven by a loop that does what
    _ControlLoopRunner.run does around wait_for_next_task, until `max_results` results were handed over and the
    next call is blocked (then the process "crashes").  Every blocked point is a snapshot = a possible crash point.

    events: the schedule in the model's vocabulary, in causal order.  snaps: (number of events so far, observable
    state, history, uids done so far, (rows, ops))."""
    rec = dict(events=[], snaps=[], hist=[], handed=[], done=set(), anomalies=[], dupkeys=False,
               multi_done=0, tmo_fired=0, nonfirst_pick=0, empty_returns=0, warnings=0)
    log = _Log()
    old_logger = rt.logger
    rt.logger = log

    def choose(cand, tmo):
        if actions is not None:      # scripted environment (witness replays)
            return actions.pop(0) if actions else None
        opts = []
        if cand:
            opts += ["one"] * 6 + (["two"] * 2 if len(cand) > 1 else [])
        if tmo:
            opts += ["tmo"] * (1 if style == "dbos" else 3)
        if not opts:
            return None
        o = env_rng.choice(opts)
        if o == "tmo":
            return "tmo"
        if o == "one":
            return [env_rng.choice(cand)]
        return env_rng.sample(cand, 2)

    async def go():
        loop = asyncio.get_running_loop()
        ad = rt.InternalDBOSAdapter(run_id=RUNS[0], engine=None, db_path=path)
        gates, running, live = {}, [], []      # live: [kid, uid, NamedTask]
        nextuid = 0

        async def body(uid):
            if uid in memo_uids:
                # a step whose output DBOS has recorded returns it at once (simulated memoisation)
                rec["done"].add(uid)
                rec["events"].append("EDone %d" % uid)
                return uid
            await gates[uid].wait()
            return uid

        def snapshot():
            rows, ops = dump(path)
            obs = (enc_db(rows, ops) + enc_journal(ad._journal) + [1 if ad._orphan_purge_done else 0]
                   + [len(rec["hist"])] + list(rec["hist"]) + [len(rec["handed"])] + list(rec["handed"])
                   + [log.warnings])
            rec["snaps"].append((len(rec["events"]), obs, tuple(rec["hist"]), frozenset(rec["done"]), (rows, ops)))

        while len(rec["hist"]) < max_results + 6:
            pend, tmo, fid = prog(tuple(rec["hist"]))
            _dbos_ctx._ctx.function_id = fid
            pending, newlive = [], []
            for kid in pend:
                uid = nextuid
                nextuid += 1
                gates[uid] = asyncio.Event()
                pending.append(named_pending(kid, body(uid)))
                newlive.append([kid, uid, None])
            allk = [e[0] for e in live] + [e[0] for e in newlive]
            if len(set(allk)) < len(allk):
                rec["dupkeys"] = True
            call = asyncio.ensure_future(ad.wait_for_next_task(list(running), pending, T_ARM if tmo else None))
            await vloop.settle()
            fired = False
            while not call.done():
                # ---- blocked inside wait_for_next_task: a quiescent point
                snapshot()
                if len(rec["hist"]) >= max_results:
                    call.cancel()
                    return
                cand = [e[1] for e in live + newlive if e[1] not in rec["done"]]
                act = choose(cand, tmo)
                if act is None:
                    call.cancel()
                    return
                if act == "tmo":
                    loop.advance(T_ARM + 1.0)
                    rec["events"].append("ETmo")
                    rec["tmo_fired"] += 1
                    fired = True
                else:
                    for u in act:
                        gates[u].set()
                        rec["done"].add(u)
                        rec["events"].append("EDone %d" % u)
                    if len(act) > 1:
                        rec["multi_done"] += 1
                await vloop.settle()
                if fired and not call.done():
                    rec["anomalies"].append("timer fired but the wait did not return")
                    call.cancel()
                    return
            # ---- returned: what control_loop.py does with the result
            result = call.result()
            if len(result.started) != len(pending):
                rec["anomalies"].append("adapter started %d of %d pending" % (len(result.started), len(pending)))
                return
            for nl, nt in zip(newlive, result.started):
                if nt.key != KEYS[nl[0]]:
                    rec["anomalies"].append("started task has key %s, expected %s" % (nt.key, KEYS[nl[0]]))
                nl[2] = nt
                live.append(nl)
            running.extend(result.started)
            comp = result.completed
            if comp is None:
                if not fired:
                    if live:
                        rec["anomalies"].append("wait returned None although no timer fired and tasks exist")
                    rec["events"].append("ETmo")      # returned at once: no tasks at all
                    rec["empty_returns"] += 1
                rec["hist"].append(-1)
            else:
                ent = next((e for e in live if e[2].task is comp), None)
                if ent is None or not comp.done():
                    rec["anomalies"].append("completed task is not a finished live task")
                    return
                if fired:
                    rec["anomalies"].append("timer fired but a task was returned")
                donelive = [e for e in live if e[1] in rec["done"]]
                if donelive and donelive[0] is not ent:
                    rec["nonfirst_pick"] += 1
                rec["events"].append("EWake %d" % ent[1])
                rec["hist"].append(ent[0])
                rec["handed"].append(ent[1])
                # what the adapter tells its callers while the control loop processes this completion
                rec.setdefault("replaying_after", []).append(bool(ad.is_replaying()))
                live.remove(ent)
                running[:] = [nt for nt in running if nt.task is not comp]

    try:
        run_on_shared_loop(go())
    except (KeyboardInterrupt, core.CheckError):
        raise
    except BaseException as e:      # the real code raised: a finding about the code, not a machinery error
        rec["anomalies"].append("exception out of wait_for_next_task: %r" % (e,))
    finally:
        rt.logger = old_logger
    rec["warnings"] = log.warnings
    return rec


EVK = {"EDone": 0, "ETmo": 1, "EWake": 2}


def ev_code(e, mark):
    parts = e.split()
    u = int(parts[1]) if len(parts) > 1 else 0
    return (u * 4 + EVK[parts[0]]) * 2 + (1 if mark else 0)


def flat_run(rows, ops, rec):
    """[db ; m0 ; n events ; event codes (with snapshot marks) ; expected checksum] — up to the last snapshot"""
    last = rec["snaps"][-1][0]
    marks = {n for n, *_ in rec["snaps"]}
    evs = [ev_code(e, (i + 1) in marks) for i, e in enumerate(rec["events"][:last])]
    h = (0, 0, 0)
    for n, obs, *_ in rec["snaps"]:
        h = zhash(h, obs)
    return flat_db(rows, ops) + [1 if 0 in marks else 0, len(evs)] + evs + [zfin(h)]


def hists_of(rec):
    """all result-history prefixes the run went through (+ the one the blocked call was made with)"""
    last = rec["snaps"][-1][2] if rec["snaps"] else ()
    return [tuple(last[:i]) for i in range(len(last) + 1)]


def loop_case(prog, runs):
    """runs: [(rows, ops, rec)] of one generated workflow -> Coq term (0 = the model agrees on every run)"""
    hs = []
    for _, _, rec in runs:
        for h in hists_of(rec):
            if h not in hs:
                hs.append(h)
    flat = flat_table(prog, hs) + [len(runs)]
    for rows, ops, rec in runs:
        flat += flat_run(rows, ops, rec)
    return "loop_case %s" % core.gzlist(flat)


def diag_terms(prog, rows, ops, rec):
    """Coq terms giving the model's observable state at each snapshot of one run (for a disagreement report)"""
    tl = core.gzlist(flat_table(prog, hists_of(rec)))
    dl = core.gzlist(flat_db(rows, ops))
    last = rec["snaps"][-1][0]
    evs = core.gzlist([ev_code(e, False) for e in rec["events"][:last]])
    return ["loop_obs_at %s %s %s %d" % (tl, dl, evs, n) for n, *_ in rec["snaps"]]


# ------------------------------------------------------------------ one generated workflow: first run, a recovery
# from every crash point, a second crash
def journal_keys(rows):
    mine = sorted((s, k) for r, s, k in rows if r == 0)
    return [k for _, k in mine], [s for s, _ in mine]


def monitor_pair(prog, J, prev_hist, start_rows, start_ops, rec, wf, prev_ok):
    """The property's statement on the real outputs of one recovered run.
    J: journal of the run in the database the process started from; prev_hist: the result history of the process
    that wrote it (None for the very first run).  Returns (in_domain, in_domain_and_holds, [(finding_key | None, text)])."""
    out = []
    if not rec["snaps"]:
        return False, False, out
    _, obs, h2, _, (rows, ops) = rec["snaps"][-1]
    h2 = list(h2)
    n = len(J)
    handed = rec["handed"][:sum(1 for x in h2 if x >= 0)]
    if len(set(handed)) != len(handed):
        out.append((None, "a task instance was handed to the control loop twice: %s" % handed))
    if rec["anomalies"]:
        out.append((None, "adapter contract broken: %s" % rec["anomalies"][:2]))
    K2, seqs = journal_keys(rows)
    if wf:
        # unconditional clauses (any timers): the journal only grows, rows stay 0..n-1, other runs untouched
        if K2[:n] != J:
            out.append((None, "the recorded journal %s is not a prefix of the journal after recovery %s" % (J, K2)))
        if seqs != list(range(len(seqs))):
            out.append((None, "journal sequence numbers are not 0..n-1 after recovery: %s" % seqs))
        if [r for r in rows if r[0] != 0] != [r for r in start_rows if r[0] != 0]:
            out.append((None, "rows of another run were modified"))
    tmo_recorded = prev_hist is not None and (-1 in prev_hist)
    k2 = [k for k in h2 if k >= 0]
    # did a timer fire before the n-th task was handed over (i.e. during replay)?
    upto = h2 if len(k2) < n else h2[:[i for i in range(len(h2) + 1) if sum(1 for x in h2[:i] if x >= 0) == n][0]]
    tmo_replay = -1 in upto
    in_domain = wf and prev_ok and not rec["dupkeys"] and not tmo_recorded and not tmo_replay
    same_order = k2[:n] == J[:len(k2)] and rec["warnings"] == 0
    extends = (K2 == J + k2[n:]) if len(k2) >= n else (K2 == J)
    if wf and prev_ok and not rec["dupkeys"]:
        if not (same_order and extends):
            what = ("recorded order %s, recovered control loop observed %s (journal afterwards %s, %d "
                    "non-determinism fallbacks)" % (J, h2, K2, rec["warnings"]))
            if in_domain:
                out.append((None, "replayed completion order differs from the recorded one: " + what))
            else:
                out.append(("C27/timeout-not-journaled",
                            "a wait that timed out is not journaled, so the recovered loop diverges: " + what))
    if in_domain:
        # while the control loop processes the m-th completion it was handed, is_replaying() says whether recorded entries
        # are still ahead: True for m < n, False from the n-th on (what that completion makes the loop publish is new
        # only if the interrupted process had not got that far - the server adapter de-duplicates on this flag)
        for m, flag in enumerate(rec.get("replaying_after", []), 1):
            if flag != (m < n):
                out.append((None, "after completion %d of %d recorded ones was handed to the control loop, is_replaying() is %s"
                                  % (m, n, flag)))
                break
        # purge exactly at the replay->fresh transition
        nkeys = sum(1 for x in h2 if x >= 0)
        purged_expected = nkeys >= n
        if bool(obs_purged(rec)) != purged_expected:
            out.append((None, "orphan purge flag is %s with %d of %d entries replayed" % (obs_purged(rec), nkeys, n)))
        exp_ops = list(start_ops)
        if purged_expected and n > 0:
            # the transition happened at the call made with the history that has exactly n keys
            idx = [i for i in range(len(h2) + 1) if sum(1 for x in h2[:i] if x >= 0) == n][0]
            fid = prog(tuple(h2[:idx]))[2]
            exp_ops = [(r, f) for r, f in start_ops if not (r == 0 and f > fid)]
        if list(ops) != exp_ops:
            out.append((None, "operation_outputs after recovery %s, expected %s" % (ops, exp_ops)))
    return in_domain, in_domain and same_order and extends, out


def obs_purged(rec):
    # position of the purge flag inside the observable encoding: right after the journal encoding
    _, obs, h2, _, (rows, ops) = rec["snaps"][-1]
    base = len(enc_db(rows, ops))
    nent = obs[base]
    off = base + (2 if nent < 0 else nent + 2)
    return obs[off]


def gen_base(seed, dbs, flavour):
    """flavour: dict(timers, dups, stale, style).  Returns dict(expr, fails, stats)."""
    rng = random.Random("base/%s" % seed)
    prog = Prog(seed, timers=flavour["timers"], dups=flavour["dups"])
    rows0 = [(1, s, rng.randrange(6)) for s in sorted(rng.sample(range(6), rng.choice([0, 0, 1, 2])))]
    ops0 = [(rng.randrange(2), rng.randrange(0, 12)) for _ in range(rng.choice([0, 1, 3]))]
    runs, fails = [], []
    stats = dict(runs=0, crash_points=0, replayed_entries=0, in_domain=0, transitions=0, fallbacks=0, tmo_fired=0,
                 multi_done=0, nonfirst_pick=0, memo_runs=0, second_crash=0, stale=0, dup_runs=0, purge_effective=0,
                 mid_replay_crash=0, empty_returns=0)

    def one(rows, ops, max_results, memo, style, J, prev_hist, wf, prev_ok, tag):
        path = dbs.fresh(rows, ops)
        rec = drive(path, prog, random.Random("env/%s/%s" % (seed, tag)), max_results, memo_uids=memo, style=style)
        dbs.drop(path)
        if not rec["snaps"]:
            return None, False
        runs.append((rows, ops, rec))
        stats["runs"] += 1
        stats["fallbacks"] += rec["warnings"]
        stats["tmo_fired"] += rec["tmo_fired"]
        stats["multi_done"] += rec["multi_done"]
        stats["nonfirst_pick"] += rec["nonfirst_pick"]
        stats["empty_returns"] += rec["empty_returns"]
        stats["dup_runs"] += 1 if rec["dupkeys"] else 0
        dom, ok, f = monitor_pair(prog, J, prev_hist, rows, ops, rec, wf, prev_ok)
        for key, text in f:
            fails.append((key, text, dict(seed=seed, tag=tag, flavour=flavour, start_rows=rows, start_ops=ops,
                                          events=rec["events"], results=rec["snaps"][-1][2],
                                          keys={i: KEYS[i] for i in set(J) | {k for k in rec["snaps"][-1][2] if k >= 0}},
                                          prog={str(h): prog(h) for h in hists_of(rec)})))
        stats["in_domain"] += 1 if dom else 0
        if dom:
            h2 = rec["snaps"][-1][2]
            stats["replayed_entries"] += min(len(J), len(h2))
            if J and sum(1 for x in h2 if x >= 0) >= len(J):
                stats["transitions"] += 1
                if [o for o in ops if o not in rec["snaps"][-1][4][1]]:
                    stats["purge_effective"] += 1
            if J and sum(1 for x in h2 if x >= 0) < len(J):
                stats["mid_replay_crash"] += 1
        return rec, ok

    r1max = rng.randrange(3, 9)
    rec1, ok1 = one(rows0, ops0, r1max, frozenset(), "free", [], None, True, True, "first")
    if rec1 is None:
        return None
    recoveries = []
    for ci, (nev, obs, hist, done, (rows, ops)) in enumerate(rec1["snaps"]):
        stats["crash_points"] += 1
        J, _ = journal_keys(rows)
        rows_c, ops_c = list(rows), list(ops)
        # rows DBOS may have left behind for steps started but not journaled
        for _ in range(rng.choice([0, 1, 2])):
            ops_c.append((0, rng.randrange(0, 14)))
        wf = True
        if flavour["stale"] and rng.random() < 0.5:
            # journal rows beyond the recorded ones (what purge_stale's truncate is written for)
            rows_c.append((0, len(J) + rng.randrange(1, 3), rng.randrange(6)))
            wf = False
            stats["stale"] += 1
        style = flavour["style"] if rng.random() < 0.8 else ("free" if flavour["style"] == "dbos" else "dbos")
        memo = frozenset(done) if style == "dbos" else frozenset(u for u in done if rng.random() < 0.3)
        if memo:
            stats["memo_runs"] += 1
        J_eff, _ = journal_keys(rows_c)
        extra = rng.choice([0, 1, 2, 3])
        cut_short = rng.random() < 0.2 and len(J_eff) > 1
        maxr = rng.randrange(1, len(J_eff)) if cut_short else len(J_eff) + extra
        rec2, ok2 = one(rows_c, ops_c, max(1, maxr), memo, style, J_eff, list(hist), wf, ok1 or not hist, "rec%d" % ci)
        if rec2 is not None:
            recoveries.append((rec2, ok2, wf))
    # a second crash: recover once more from a crash point of one of the recoveries
    cands = [(r, ok, wf) for r, ok, wf in recoveries if len(r["snaps"]) > 1]
    for k in range(min(2, len(cands))):
        rec2, ok2, wf2 = rng.choice(cands)
        nev, obs, hist, done, (rows, ops) = rng.choice(rec2["snaps"])
        J, _ = journal_keys(rows)
        stats["second_crash"] += 1
        one(list(rows), list(ops), len(J) + rng.choice([0, 1, 2]), frozenset(done), "dbos", J, list(hist), wf2, ok2,
            "again%d" % k)
    return dict(expr=loop_case(prog, runs), fails=fails, stats=stats, prog=prog, runs=runs, seed=seed, flavour=flavour)


# ------------------------------------------------------------------ the refutation witness on the real code
class WitnessProg:
    """Proofs/JournalProofs.v w_prog with real key names: b:0 runs, the wait has a timer; after the timeout the
    loop starts a:0 (what a delayed retry / waiter timeout does)."""
    A, B = KID["a:0"], KID["b:0"]

    def __call__(self, h):
        if h == ():
            return ((self.B,), True, 0)
        if h == (-1,):
            return ((self.A,), False, 0)
        return ((), False, 0)


def witness_timeout(dbs):
    """Returns (diverges, detail).  First process: timer fires, a:0 completes, b:0 completes -> journal [a:0, b:0].
    Recovered process: both recorded outputs are there at once."""
    prog = WitnessProg()
    p1 = dbs.fresh()
    r1 = drive(p1, prog, None, 3, actions=["tmo", [1], [0]])
    rows, ops = dump(p1)
    J, _ = journal_keys(rows)
    p2 = dbs.fresh(rows, ops)
    r2 = drive(p2, prog, None, 1, memo_uids=frozenset([0, 1]), actions=[])
    rows2, _ = dump(p2)
    K2, _ = journal_keys(rows2)
    dbs.drop(p1)
    dbs.drop(p2)
    detail = dict(first_run_results=[KEYS[k] if k >= 0 else "timeout" for k in r1["hist"][:3]],
                  recorded_journal=[KEYS[k] for k in J],
                  recovered_results=[KEYS[k] if k >= 0 else "timeout" for k in r2["hist"][:2]],
                  journal_after_recovery=[KEYS[k] for k in K2], fallback_warnings=r2["warnings"],
                  anomalies=r1["anomalies"] + r2["anomalies"])
    expected_first = (r1["hist"][:3] == [-1, prog.A, prog.B] and J == [prog.A, prog.B])
    k2 = [k for k in r2["hist"] if k >= 0]
    diverges = expected_first and k2[:len(J)] != J[:len(k2)]
    model_predicts = (r2["hist"][:1] == [prog.B] and K2[:3] == [prog.A, prog.B, prog.B] and r2["warnings"] >= 1)
    return expected_first, diverges, model_predicts, detail


# ------------------------------------------------------------------ the real control loop around the real adapter
# The model's `enter`/`finish` (and the driver above) stand for what _ControlLoopRunner.run does around
# wait_for_next_task.  Here the REAL control loop runs real generated workflows (suites/engine.py) with an internal
# adapter whose wait_for_next_task / journal methods are the real InternalDBOSAdapter's (everything DBOS-specific —
# recv/send/streams/durable time — stays the asyncio adapter's), and the calling convention the model assumes is
# checked on every call: the hypotheses `prog_distinct` and the loop bookkeeping.
def engine_contract(seed, dbs):
    from suites import engine as E, engine_specs as S
    from workflows.plugins.basic import BasicRuntime, InternalAsyncioAdapter

    calls = []      # (running keys, pending keys, completed key | None)
    path = dbs.fresh()
    real_wfnt = rt.InternalDBOSAdapter.wait_for_next_task

    class Hybrid(InternalAsyncioAdapter):
        _get_or_create_journal = rt.InternalDBOSAdapter._get_or_create_journal
        _purge_orphaned_operations = rt.InternalDBOSAdapter._purge_orphaned_operations
        _resolve_pool = rt.InternalDBOSAdapter._resolve_pool

        def __init__(self, queues):
            super().__init__(queues)
            self._run_id = RUNS[0]
            self._pool_provider = None
            self._resolved_pool = None
            self._schema = None
            self._db_path = path
            self._journal_table_name = "workflow_journal"
            self._journal = None
            self._orphan_purge_done = False
            # whatever further private state the real adapter's constructor sets up
            try:
                tmp = rt.InternalDBOSAdapter(run_id=RUNS[0], engine=None, db_path=path)
                for k_, v_ in tmp.__dict__.items():
                    self.__dict__.setdefault(k_, v_)
            except Exception:  # noqa: BLE001
                pass

        async def wait_for_next_task(self, running, pending, timeout=None):
            rk, pk = [nt.key for nt in running], [p.key for p in pending]
            res = await real_wfnt(self, running, pending, timeout)
            allnt = list(running) + list(res.started)
            ck = None
            if res.completed is not None:
                ck = next((nt.key for nt in allnt if nt.task is res.completed), "?")
            calls.append((rk, pk, ck, [nt.key for nt in res.started]))
            return res

    # ... and whatever further private helpers its wait_for_next_task calls
    import inspect
    for name_, f_ in vars(rt.InternalDBOSAdapter).items():
        if inspect.isfunction(f_) and name_.startswith("_") and not name_.startswith("__") and name_ not in Hybrid.__dict__ \
                and not hasattr(InternalAsyncioAdapter, name_):
            setattr(Hybrid, name_, f_)

    class Rt(BasicRuntime):
        def get_internal_adapter(self, workflow):
            base = super().get_internal_adapter(workflow)
            return Hybrid(base._queues)

    rng = random.Random("contract/%s" % seed)
    rec = E.Recorder()
    spec, externals, opts = rng.choice(S.TEMPLATES_C02)(rng)
    old_logger = rt.logger
    log = _Log()
    rt.logger = log

    async def main():
        wf = E.build_workflow(spec, rec)
        wf._switch_runtime(Rt())
        return await E.drive(wf, rec, rng, externals=externals, **dict(opts or {}))

    try:
        obs = vloop.run(main())
    finally:
        rt.logger = old_logger
    c = sqlite3.connect(path)
    journal = [k for (k,) in c.execute("SELECT task_key FROM workflow_journal WHERE run_id = ? ORDER BY seq_num", (RUNS[0],))]
    c.close()
    dbs.drop(path)
    bad = []
    live = []
    handed = []
    for n, (rk, pk, ck, sk) in enumerate(calls):
        if sorted(rk) != sorted(live):
            bad.append("call %d: running keys %s, but the tasks started and not yet handed over are %s" % (n, rk, live))
        if sk != pk:
            bad.append("call %d: started %s for pending %s" % (n, sk, pk))
        allk = rk + pk
        if len(set(allk)) != len(allk):
            bad.append("call %d: two live tasks share a key: %s" % (n, allk))
        live = list(allk)
        if ck is not None:
            if ck not in live:
                bad.append("call %d: completed task %s is not one of the live tasks %s" % (n, ck, live))
            else:
                live.remove(ck)
            handed.append(ck)
    if journal != handed:
        bad.append("journal %s differs from the keys handed to the control loop %s" % (journal, handed))
    if log.warnings:
        bad.append("%d non-determinism fallbacks in a first run" % log.warnings)
    return dict(bad=bad, ncalls=len(calls), nhanded=len(handed), done=obs.done, stuck=obs.stuck,
                template=[k for k in spec["steps"]], seed=seed,
                timeouts=sum(1 for c in calls if c[2] is None), reused=len(handed) - len(set(handed)))


def slow_write_case(dbs, which=0):
    """Durability of a fresh completion on a journal whose INSERT takes time (a networked database): two tasks are started,
    one finishes.  wait_for_next_task may hand that completion to the control loop only once its journal row is in the
    database - a process that stops while the loop acts on it must recover WITH it.  Returns (failure text | None, facts)."""
    path = dbs.fresh()
    orig = _crud_mod.SqliteJournalCrud.insert
    pending_writes = [0]

    async def slow_insert(self, run_id, seq_num, task_key):
        pending_writes[0] += 1
        try:
            await asyncio.sleep(5.0)          # virtual seconds
            return await orig(self, run_id, seq_num, task_key)
        finally:
            pending_writes[0] -= 1
    out = dict(why=None, facts={})

    async def go():
        loop = asyncio.get_running_loop()
        ad = rt.InternalDBOSAdapter(run_id=RUNS[0], engine=None, db_path=path)
        gates = [asyncio.Event(), asyncio.Event()]

        async def body(i):
            await gates[i].wait()
            return i
        _dbos_ctx._ctx.function_id = 1
        kids = [KID["a:0"], KID["b:0"]]
        pend = [named_pending(kids[0], body(0)), named_pending(kids[1], body(1))]
        call = asyncio.ensure_future(ad.wait_for_next_task([], pend, None))
        await vloop.settle()
        gates[which].set()
        await vloop.settle()
        handed_early = call.done()
        rows = [r_ for r_ in dump(path)[0] if r_[0] == 0]
        out["facts"] = dict(finished=KEYS[kids[which]], returned_before_the_write_landed=handed_early,
                            journal_rows_then=len(rows), writes_in_flight=pending_writes[0])
        if handed_early and not any(r_[2] == kids[which] for r_ in rows):
            out["why"] = ("wait_for_next_task handed the completion of %s to the control loop while its journal row was still being "
                          "written (%d rows in the database, %d writes in flight): a process stopped now recovers without it and may "
                          "observe the tasks in another order" % (KEYS[kids[which]], len(rows), pending_writes[0]))
        for _ in range(4):
            loop.advance(6.0)
            await vloop.settle()
        if not call.done():
            call.cancel()
            if out["why"] is None:
                out["why"] = "wait_for_next_task did not return although the finished task's journal row was written"
        else:
            out["facts"]["journal_rows_after"] = len([r_ for r_ in dump(path)[0] if r_[0] == 0])
        for g in gates:
            g.set()
        await vloop.settle()

    _crud_mod.SqliteJournalCrud.insert = slow_insert
    old_logger = rt.logger
    rt.logger = _Log()
    try:
        vloop.run(go())
    finally:
        _crud_mod.SqliteJournalCrud.insert = orig
        rt.logger = old_logger
        dbs.drop(path)
    return out["why"], out["facts"]
