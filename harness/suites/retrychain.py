"""L2 correspondence suite `retrychain`: a step that raises a given sequence of exceptions, under a generated
composed retry policy (no jitter), run by the real engine on the virtual clock, vs Model/RetryChain.v:
number of executions, retry numbers, start time of every execution, and what is reported at the end."""
import random
from fractions import Fraction

import boot  # noqa: F401
from core import gz, glist
from suites import engine as E, retry as R
from suites.wfevents import T1
from workflows import retry_policy as rp
from workflows.events import StartEvent, StopEvent, WorkflowFailedEvent

HEADER = """From Coq Require Import List ZArith QArith Bool.
Import ListNotations.
From WF Require Import Model.Retry Model.RetryChain.
Open Scope Z_scope.
"""
NEXC = 9


def gen_policy(rng, shape=None):
    """returns (py_policy, gallina, info)"""
    if shape == "attempt":
        n = rng.choice([0, 1, 2, 3, 4, 5])
        w = R.gen_wait(rng, jitter=False)
        return (rp.retry_policy(wait=w[0], stop=rp.stop_after_attempt(n)),
                "{| p_retry := None; p_wait := %s; p_stop := (SAfterAttempt %d) |}" % (w[1], n),
                dict(shape="attempt", n=n, wait=w[0]))
    if shape == "delay":
        d = rng.choice([0.5, 1, 1.5, 2, 3, 5])
        wv = rng.choice([0.25, 0.5, 1, 1.5])
        return (rp.retry_policy(wait=rp.wait_fixed(wv), stop=rp.stop_after_delay(d)),
                "{| p_retry := None; p_wait := (WFixed %s); p_stop := (SAfterDelay %s) |}" % (R.q(wv), R.q(d)),
                dict(shape="delay", d=d, w=wv, wait=rp.wait_fixed(wv)))
    if shape == "nested":
        # stop conditions nested through the operators and the constructors, with leaves whose value is obvious:
        # A n = "at least n failures", T = elapsed >= 0 (always), F = elapsed >= 10^6 s (never within a chain)
        def leaf():
            c = rng.random()
            if c < 0.6:
                n = rng.choice([1, 2, 3, 4, 5])
                return ("A", n), rp.stop_after_attempt(n), "(SAfterAttempt %d)" % n
            if c < 0.8:
                return ("T",), rp.stop_after_delay(0), "(SAfterDelay %s)" % R.q(0)
            return ("F",), rp.stop_after_delay(1000000), "(SAfterDelay %s)" % R.q(1000000)

        def tree(depth):
            if depth >= 3 or (depth > 0 and rng.random() < 0.35):
                return leaf()
            is_any = rng.random() < 0.5
            subs = [tree(depth + 1) for _ in range(rng.choice([2, 2, 3]))]
            if len(subs) == 2 and rng.random() < 0.6:
                py = (subs[0][1] | subs[1][1]) if is_any else (subs[0][1] & subs[1][1])
            else:
                py = (rp.stop_any if is_any else rp.stop_all)(*[x[1] for x in subs])
            return (("any" if is_any else "all",) + tuple(x[0] for x in subs), py,
                    "(%s %s)" % ("SAny" if is_any else "SAll", glist(x[2] for x in subs)))
        t, py, g = tree(0)
        wv = rng.choice([0, 0.25, 0.5])
        return (rp.retry_policy(wait=rp.wait_fixed(wv), stop=py),
                "{| p_retry := None; p_wait := (WFixed %s); p_stop := %s |}" % (R.q(wv), g),
                dict(shape="nested", stop_tree=t, wait=rp.wait_fixed(wv)))
    if shape == "aliased":
        # a named retry condition from which ANOTHER condition is derived afterwards (| or &): the named one must be unchanged
        base = rp.retry_if_exception_type(ValueError) | rp.retry_if_exception_type(RuntimeError)
        if rng.random() < 0.5:
            _derived = base | rp.retry_if_exception_type(KeyError)       # noqa: F841  (built and dropped)
        else:
            _derived = base & rp.retry_if_exception_type(KeyError)       # noqa: F841
        n = rng.choice([2, 3, 4])
        return (rp.retry_policy(retry=base, wait=rp.wait_fixed(0), stop=rp.stop_after_attempt(n)),
                "{| p_retry := (Some (RAny [RIfType [%d]; RIfType [%d]])); p_wait := (WFixed %s); p_stop := (SAfterAttempt %d) |}"
                % (R.CID[ValueError], R.CID[RuntimeError], R.q(0), n),
                dict(shape="aliased", n=n, wait=rp.wait_fixed(0), retryable=(ValueError, RuntimeError)))
    if shape == "never":
        w = R.gen_wait(rng, jitter=False)
        return (rp.retry_policy(retry=rp.retry_if_exception_type(KeyError), wait=w[0], stop=rp.stop_after_attempt(5)),
                "{| p_retry := (Some (RIfType [%d])); p_wait := %s; p_stop := (SAfterAttempt 5) |}" % (R.CID[KeyError], w[1]),
                dict(shape="never", wait=w[0]))
    while True:
        r = R.gen_rcond(rng) if rng.random() < 0.6 else (None, None)
        if r[1] is None or "RPred" not in r[1]:
            break
    w = R.gen_wait(rng, jitter=False)
    s = R.gen_stop(rng)
    pol = rp.retry_policy(retry=r[0], wait=w[0], stop=s[0])
    g = "{| p_retry := %s; p_wait := %s; p_stop := %s |}" % ("None" if r[1] is None else "(Some %s)" % r[1], w[1], s[1])
    return pol, g, dict(shape="composed", wait=w[0])


def gen_case(rng):
    shape = rng.choice(["attempt", "attempt", "delay", "never", "nested", "nested", "aliased", None, None, None])
    pol, g, info = gen_policy(rng, shape)
    if shape == "aliased":
        k = rng.choice([0, 1, 2])          # k retryable failures, then a KeyError (not retryable under the named condition)
        xs = [rng.choice([ValueError, RuntimeError])(rng.choice(R.MSGS)) for _ in range(k)] + [KeyError("k")] * (NEXC - k)
        info["expect_execs"] = min(k + 1, info["n"])
    elif shape == "never":
        xs = [rng.choice([ValueError, RuntimeError, R.E0])(rng.choice(R.MSGS)) for _ in range(NEXC)]
    else:
        xs = [R.gen_exn(rng) for _ in range(NEXC)]
        if rng.random() < 0.5:
            xs = [xs[0]] * NEXC
    return pol, g, info, xs


def make_spec(pol, xs):
    def f(rng):
        spec = dict(steps={
            "a_start": dict(accepts=[StartEvent], returns=[T1], num_workers=1, script=[("return", T1)]),
            "b_work": dict(accepts=[T1], returns=[StopEvent], num_workers=1, policy=pol,
                           script=[("raise_seq", list(xs)), ("return", StopEvent)]),
        })
        return spec, [], dict(policy="random", horizon=1e9, max_actions=200)
    f.__name__ = "retrychain"
    return f


def observe(pol, xs, seed):
    spec, rec, obs = E.run_case(make_spec(pol, xs), seed)
    execs = [r for r in rec.log if r["kind"] == "enter" and r["step"] == "b_work"]
    wfe = [e for e in obs.stream if isinstance(e, WorkflowFailedEvent)]
    return execs, wfe, obs


def encode(execs, wfe):
    t0 = Fraction(execs[0]["t"])
    out = [len(execs)]
    for r in execs:
        f = Fraction(r["t"]) - t0
        out += [r["retry"], f.numerator, f.denominator]
    if wfe:
        f = Fraction(wfe[0].elapsed_seconds)
        out += [1, wfe[0].attempts, f.numerator, f.denominator]
    else:
        out += [0]
    return out


def coq_case(g, xs, expect):
    return "chain_case (fun _ _ => false) %s %s %s" % (g, glist(R.g_exn(x) for x in xs), glist(gz(z) for z in expect))



def stop_oracle(tree, failures):
    """the documented meaning of a nested stop condition (leaves: A n / T / F, see gen_policy shape "nested")"""
    k = tree[0]
    if k == "A":
        return failures >= tree[1]
    if k == "T":
        return True
    if k == "F":
        return False
    vals = [stop_oracle(x, failures) for x in tree[1:]]
    return any(vals) if k == "any" else all(vals)
