"""L0 correspondence suite `retry`: real workflows.retry_policy objects vs Model/Retry.v.

Every case builds the *same* strategy as a Python object and as a Gallina term, evaluates the
Python one, and asks Coq whether the model agrees (exactly; within 2^-40 relative for jittered
strategies, where the float sum a+(b-a)*r is rounded)."""
import random
from fractions import Fraction

import boot  # noqa: F401
from core import gz, glist, gopt, gbool
from workflows import retry_policy as rp

HEADER = """From Coq Require Import List ZArith QArith Bool.
Import ListNotations.
From WF Require Import Model.Retry.
Definition eps : Q := Qmake 1 1099511627776.
Open Scope Z_scope.
"""


# ---- exception universe -------------------------------------------------------------------
class E0(Exception):
    pass


class E1(E0):
    pass


class E2(Exception):
    pass


class E3(E1, E2):
    pass


CLASSES = [Exception, E0, E1, E2, E3, ValueError, RuntimeError, KeyError, LookupError]
CID = {c: i for i, c in enumerate(CLASSES)}
MSGS = ["", "please retry", "HTTP 503", "permission denied", "rate limit"]
MID = {m: i for i, m in enumerate(MSGS)}


def mro_ids(x):
    return [CID[c] for c in type(x).__mro__ if c in CID]


def gen_exn(rng):
    def mk():
        cls = rng.choice([E0, E1, E2, E3, ValueError, RuntimeError, KeyError, Exception])
        return cls(rng.choice(MSGS))
    x = mk()
    cur = x
    for _ in range(rng.choice([0, 0, 1, 2])):
        c = mk()
        cur.__cause__ = c
        cur = c
    return x


def msg_of(x):
    return str(x)


def g_exn(x):
    causes = []
    cur = x.__cause__
    while cur is not None:
        causes.append(mro_ids(cur))
        cur = cur.__cause__
    m = msg_of(x)
    mid = MID.get(m, 99)
    return "{| x_isa := %s; x_msg := %s; x_causes := %s |}" % (
        glist(gz(i) for i in mro_ids(x)), gz(mid), glist(glist(gz(i) for i in c) for c in causes))


def q(v):
    f = Fraction(v)
    n, d = f.numerator, f.denominator
    return "(Qmake %s %d)" % (gz(n), d)


# ---- retry conditions ---------------------------------------------------------------------
PREDS = [
    (1, lambda e: "rate" in str(e)),
    (2, lambda e: len(str(e)) % 2 == 0),
    (3, lambda e: isinstance(e, LookupError)),
]


def gen_rcond(rng, depth=0, ops=False):
    """returns (python_obj, gallina_term)"""
    k = rng.random()
    if depth < 3 and k < 0.35:
        n = rng.choice([0, 1, 2, 2, 3])
        subs = [gen_rcond(rng, depth + 1, ops) for _ in range(n)]
        is_any = rng.random() < 0.5
        if ops and n == 2 and rng.random() < 0.7:
            py = (subs[0][0] | subs[1][0]) if is_any else (subs[0][0] & subs[1][0])
        else:
            py = (rp.retry_any if is_any else rp.retry_all)(*[s[0] for s in subs])
        return py, "(%s %s)" % ("RAny" if is_any else "RAll", glist(s[1] for s in subs))
    tys = tuple(rng.sample(CLASSES, rng.choice([1, 1, 2])))
    gt = glist(gz(CID[c]) for c in tys)
    pt = tys if len(tys) > 1 or rng.random() < 0.5 else tys[0]
    c = rng.randrange(9)
    if c == 0:
        return rp.retry_if_exception_type(pt), "(RIfType %s)" % gt
    if c == 1:
        cls = rng.choice([rp.retry_if_not_exception_type, rp.retry_unless_exception_type])
        return cls(pt), "(RIfNotType %s)" % gt
    if c == 2:
        m = rng.choice(MSGS)
        return rp.retry_if_exception_message(message=m), "(RMsgEq %s)" % gz(MID[m])
    if c == 3:
        m = rng.choice(MSGS)
        return rp.retry_if_not_exception_message(message=m), "(RMsgNe %s)" % gz(MID[m])
    if c == 4:
        return rp.retry_if_exception_cause_type(pt), "(RCauseType %s)" % gt
    if c == 5:
        i, f = rng.choice(PREDS)
        return rp.retry_if_exception(f), "(RPred %s)" % gz(i)
    if c == 6:
        return rp.retry_always(), "RAlways"
    if c == 7:
        return rp.retry_never(), "RNever"
    return rp.retry_if_exception_type(pt), "(RIfType %s)" % gt


def g_upred(x):
    true_ids = [i for i, f in PREDS if f(x)]
    return "(fun id _ => zmem id %s)" % glist(gz(i) for i in true_ids)


# ---- stops --------------------------------------------------------------------------------
DY = [0, 0.25, 0.5, 1, 1.5, 2, 3, 5, 10, 30]


def gen_stop(rng, depth=0, ops=False):
    k = rng.random()
    if depth < 3 and k < 0.35:
        n = rng.choice([0, 1, 2, 2, 3])
        subs = [gen_stop(rng, depth + 1, ops) for _ in range(n)]
        is_any = rng.random() < 0.5
        if ops and n == 2 and rng.random() < 0.7:
            py = (subs[0][0] | subs[1][0]) if is_any else (subs[0][0] & subs[1][0])
        else:
            py = (rp.stop_any if is_any else rp.stop_all)(*[s[0] for s in subs])
        return py, "(%s %s)" % ("SAny" if is_any else "SAll", glist(s[1] for s in subs))
    c = rng.randrange(4)
    if c == 0:
        n = rng.choice([0, 1, 2, 3, 4, 5, 8])
        return rp.stop_after_attempt(n), "(SAfterAttempt %s)" % gz(n)
    if c == 1:
        d = rng.choice(DY)
        return rp.stop_after_delay(d), "(SAfterDelay %s)" % q(d)
    if c == 2:
        d = rng.choice(DY)
        return rp.stop_before_delay(d), "(SBeforeDelay %s)" % q(d)
    return rp.stop_never(), "SNever"


# ---- waits --------------------------------------------------------------------------------
BASES_SMALL = [1, 1.5, 2, 2, 3, 0.5, 10]
BASES_BIG = [1, 1.5, 2, 2, 3, 10]      # no base < 1: 0.5**1100 underflows to 0.0 in floats
BASES = BASES_SMALL


def gen_wait(rng, depth=0, ops=False, jitter=True, domain=True):
    """returns (py, gallina, is_jittered).  domain=True keeps parameters in the documented
    domain (0<=min<=max, ...); domain=False also generates out-of-domain parameters (the model
    must still agree, the bound theorem simply does not apply)."""
    k = rng.random()
    if depth < 3 and k < 0.3:
        n = rng.choice([1, 2, 2, 3])
        subs = [gen_wait(rng, depth + 1, ops, jitter, domain) for _ in range(n)]
        jit = any(s[2] for s in subs)
        if rng.random() < 0.5:
            return rp.wait_chain(*[s[0] for s in subs]), "(WChain %s %s)" % (
                subs[0][1], glist(s[1] for s in subs[1:])), jit
        if ops and rng.random() < 0.6:
            py = subs[0][0]
            for s in subs[1:]:
                py = py + s[0]
            if n > 2:   # (a+b)+c  is  wait_combine(wait_combine(a,b),c)
                g = subs[0][1]
                for s in subs[1:]:
                    g = "(WCombine [%s; %s])" % (g, s[1])
            elif n == 2:
                g = "(WCombine [%s; %s])" % (subs[0][1], subs[1][1])
            else:
                g = subs[0][1]
            return py, g, jit
        return rp.wait_combine(*[s[0] for s in subs]), "(WCombine %s)" % glist(s[1] for s in subs), jit

    def pair():
        a, b = rng.choice(DY), rng.choice(DY)
        if domain or rng.random() < 0.7:
            a, b = min(a, b), max(a, b)
        else:
            a = -a
        return a, b
    c = rng.randrange(7 if jitter else 4)
    base = rng.choice(BASES)
    mult = rng.choice([0.25, 0.5, 1, 1, 2, 3])
    if c == 0:
        w = rng.choice(DY)
        if rng.random() < 0.2:
            return rp.wait_none(), "(WFixed (Qmake 0 1))", False
        return rp.wait_fixed(w), "(WFixed %s)" % q(w), False
    if c == 1:
        mn, mx = pair()
        return rp.wait_exponential(multiplier=mult, exp_base=base, max=mx, min=mn), \
            "(WExp %s %s %s %s)" % (q(mult), q(base), q(mx), q(mn)), False
    if c == 2 or c == 3:
        start = rng.choice(DY) * (1 if domain or rng.random() < 0.7 else -1)
        inc = rng.choice(DY) * rng.choice([1, 1, -1])
        if rng.random() < 0.4:
            return rp.wait_incrementing(start=start, increment=inc), \
                "(WIncr %s %s None)" % (q(start), q(inc)), False
        mx = rng.choice(DY)
        return rp.wait_incrementing(start=start, increment=inc, max=mx), \
            "(WIncr %s %s (Some %s))" % (q(start), q(inc), q(mx)), False
    if c == 4:
        mn, mx = pair()
        return rp.wait_random(min=mn, max=mx), "(WRandom %s %s)" % (q(mn), q(mx)), True
    if c == 5:
        mx = rng.choice(DY)
        j = rng.choice(DY)
        return rp.wait_exponential_jitter(initial=mult, exp_base=base, max=mx, jitter=j), \
            "(WExpJitter %s %s %s %s)" % (q(mult), q(base), q(mx), q(j)), True
    mn, mx = pair()
    ctor = rng.choice([rp.wait_random_exponential, rp.wait_full_jitter])
    return ctor(multiplier=mult, exp_base=base, max=mx, min=mn), \
        "(WRandExp %s %s %s %s)" % (q(mult), q(base), q(mx), q(mn)), True


def draw(seed):
    return Fraction(random.Random(seed).random())


ATTEMPTS = [0, 0, 1, 1, 2, 3, 4, 5, 8, 12]
BIG_ATTEMPTS = [1023, 1024, 1100, 2000, 5000]


def g_rng(seed):
    return "(fun _ => %s)" % q(draw(seed))


def g_seed(seed):
    return "(Some %s)" % gz(seed)


# ---- case builders: each returns (coq Z-expression, sample dict, structural key) ------------
def case_rcond(rng, ops):
    py, g = gen_rcond(rng, ops=ops)
    x = gen_exn(rng)
    r = bool(py(x))
    e = "b_agree (rcond_eval %s %s %s) %s" % (g_upred(x), g, g_exn(x), gbool(r))
    return e, dict(kind="retry", term=g, exn=g_exn(x), py=r), ("retry", g.count("RAny"), g.count("RAll"), r)


def case_stop(rng, ops):
    py, g = gen_stop(rng, ops=ops)
    n = rng.choice(ATTEMPTS)
    el, up = rng.choice(DY), rng.choice(DY)
    r = bool(py(n, el, upcoming_sleep=up))
    e = "b_agree (stop_eval %s %s %s %s) %s" % (g, gz(n), q(el), q(up), gbool(r))
    return e, dict(kind="stop", term=g, attempts=n, elapsed=el, upcoming=up, py=r), \
        ("stop", g.count("SAny"), g.count("SAll"), r, n)


def case_wait(rng, ops, domain=True, big=False):
    global BASES
    BASES = BASES_BIG if big else BASES_SMALL
    py, g, jit = gen_wait(rng, ops=ops, domain=domain)
    BASES = BASES_SMALL
    n = rng.choice(BIG_ATTEMPTS if big else ATTEMPTS)
    seed = rng.randrange(1 << 16)
    try:
        v = py(n, seed=seed)
        fv = Fraction(v)
    except Exception as ex:  # noqa: BLE001 - the strategy raised / returned inf or nan
        v = ex
        return "1", dict(kind="wait", term=g, attempts=n, seed=seed, py="raised %r" % ex), \
            ("wait-raised", g.split()[0], n), (py, g, n, seed, v)
    e = "oq_agree %s (Some (wait_eval %s %s %s %s)) (Some %s)" % (
        "eps" if jit else "(Qmake 0 1)", g_rng(seed), g_seed(seed), g, gz(n), q(fv))
    return e, dict(kind="wait", term=g, attempts=n, seed=seed, py=str(fv)), \
        ("wait", g.split()[0], n, jit, big), (py, g, n, seed, v)


def case_policy(rng):
    r = gen_rcond(rng) if rng.random() < 0.7 else (None, None)
    w = gen_wait(rng)
    s = gen_stop(rng)
    pol = rp.retry_policy(retry=r[0], wait=w[0], stop=s[0])
    x = gen_exn(rng)
    n = rng.choice(ATTEMPTS)
    el = rng.choice(DY)
    seed = rng.randrange(1 << 16)
    v = pol.next(el, n, x, seed=seed)
    gp = "{| p_retry := %s; p_wait := %s; p_stop := %s |}" % (
        "None" if r[1] is None else "(Some %s)" % r[1], w[1], s[1])
    pv = "None" if v is None else "(Some %s)" % q(Fraction(v))
    e = "oq_agree eps (next %s %s %s %s %s %s %s) %s" % (
        g_upred(x), g_rng(seed), gp, q(el), gz(n), g_exn(x), g_seed(seed), pv)
    return e, dict(kind="policy", policy=gp, attempts=n, elapsed=el, py=None if v is None else str(Fraction(v))), \
        ("policy", v is None, n)


def legacy_policy_cases(rng):
    """ConstantDelayRetryPolicy / ExponentialBackoffRetryPolicy are thin wrappers."""
    import warnings
    out = []
    for _ in range(6):
        n = rng.choice([1, 2, 3, 5])
        d = rng.choice(DY)
        with warnings.catch_warnings():
            warnings.simplefilter("ignore")
            pol = rp.ConstantDelayRetryPolicy(maximum_attempts=n, delay=d)
        a = rng.choice(ATTEMPTS)
        v = pol.next(0.0, a, ValueError("x"))
        gp = "{| p_retry := None; p_wait := WFixed %s; p_stop := SAfterAttempt %s |}" % (q(d), gz(n))
        pv = "None" if v is None else "(Some %s)" % q(Fraction(v))
        x = "{| x_isa := [0]; x_msg := 99; x_causes := [] |}"
        out.append("oq_agree 0 (next (fun _ _ => false) (fun _ => Qmake 0 1) %s 0 %s %s None) %s" % (gp, gz(a), x, pv))
    return out


# ---- implementation-side monitors (the property evaluated directly on the real objects) -----
def py_bounds(w):
    """documented (lo, hi) of a real strategy object; hi None = unbounded. Mirrors wlo/whi."""
    inf = float("inf")
    if isinstance(w, rp.wait_fixed):
        return w.wait, w.wait
    if isinstance(w, rp.wait_exponential):
        return w.min, w.max
    if isinstance(w, rp.wait_incrementing):
        return 0.0, (None if w.max == inf else w.max)
    if isinstance(w, rp.wait_random):
        return w.min, w.max
    if isinstance(w, rp.wait_exponential_jitter):
        return 0.0, w.max
    if isinstance(w, rp.wait_random_exponential):
        return w.min, w.max
    if isinstance(w, rp.wait_chain):
        bs = [py_bounds(s) for s in w.strategies]
        his = [b[1] for b in bs]
        return min(b[0] for b in bs), (None if any(h is None for h in his) else max(his))
    if isinstance(w, rp.wait_combine):
        bs = [py_bounds(s) for s in w.strategies]
        his = [b[1] for b in bs]
        return sum(b[0] for b in bs), (None if any(h is None for h in his) else sum(his))
    raise TypeError(w)


def monitor_wait(py, n, seed, v):
    """returns None when the property holds on this input, else a description."""
    import math
    if isinstance(v, BaseException):
        return "raised %r instead of returning a delay" % v
    if not isinstance(v, float) and not isinstance(v, int):
        return "non-numeric delay %r" % (v,)
    if math.isnan(v) or math.isinf(v):
        return "non-finite delay %r" % v
    if v < 0:
        return "negative delay %r" % v
    lo, hi = py_bounds(py)
    tol = 1e-9 * max(1.0, abs(v))
    if v < lo - tol or (hi is not None and v > hi + tol):
        return "delay %r outside documented bounds [%r, %r]" % (v, lo, hi)
    try:
        v2 = py(n, seed=seed)
    except Exception as e:  # noqa: BLE001
        return "second evaluation raised %r" % e
    if v2 != v:
        return "not deterministic for seed %d: %r vs %r" % (seed, v, v2)
    return None


def monitor_algebra(rng):
    """Evaluate the algebraic laws on real objects; returns list of failure descriptions."""
    fails = []
    x = gen_exn(rng)
    subs = [gen_rcond(rng, depth=2)[0] for _ in range(rng.choice([0, 1, 2, 3]))]
    vals = [bool(s(x)) for s in subs]
    if bool(rp.retry_any(*subs)(x)) != any(vals):
        fails.append("retry_any != or on %r" % x)
    if bool(rp.retry_all(*subs)(x)) != all(vals):
        fails.append("retry_all != and on %r" % x)
    if len(subs) >= 2:
        if bool((subs[0] | subs[1])(x)) != (vals[0] or vals[1]):
            fails.append("| operator != or")
        if bool((subs[0] & subs[1])(x)) != (vals[0] and vals[1]):
            fails.append("& operator != and")
    st = [gen_stop(rng, depth=2)[0] for _ in range(rng.choice([0, 1, 2, 3]))]
    n, el, up = rng.choice(ATTEMPTS), rng.choice(DY), rng.choice(DY)
    sv = [bool(s(n, el, upcoming_sleep=up)) for s in st]
    if bool(rp.stop_any(*st)(n, el, upcoming_sleep=up)) != any(sv):
        fails.append("stop_any != or at attempts=%d elapsed=%r upcoming=%r" % (n, el, up))
    if bool(rp.stop_all(*st)(n, el, upcoming_sleep=up)) != all(sv):
        fails.append("stop_all != and at attempts=%d elapsed=%r upcoming=%r" % (n, el, up))
    if len(st) >= 2:
        if bool((st[0] | st[1])(n, el, upcoming_sleep=up)) != (sv[0] or sv[1]):
            fails.append("stop | operator != or")
        if bool((st[0] & st[1])(n, el, upcoming_sleep=up)) != (sv[0] and sv[1]):
            fails.append("stop & operator != and")
    ws = [gen_wait(rng, depth=2, jitter=False)[0] for _ in range(rng.choice([1, 2, 3]))]
    a = rng.choice(ATTEMPTS)
    tot = sum(Fraction(w(a, seed=1)) for w in ws)
    if Fraction(rp.wait_combine(*ws)(a, seed=1)) != tot:
        fails.append("wait_combine != sum at attempts=%d" % a)
    if len(ws) >= 2 and Fraction((ws[0] + ws[1])(a, seed=1)) != Fraction(ws[0](a, seed=1)) + Fraction(ws[1](a, seed=1)):
        fails.append("+ operator != sum at attempts=%d" % a)
    # the same law with jittered parts and an explicit seed: every part is evaluated with THAT seed (float sums: tolerance)
    wj = [gen_wait(rng, depth=1, jitter=True)[0] for _ in range(rng.choice([2, 2, 3]))]
    sd = rng.choice([0, 1, 7, 12345])
    a2 = rng.choice([0, 1, 2, 3, 5])
    try:
        parts = [float(w(a2, seed=sd)) for w in wj]
        got = float(rp.wait_combine(*wj)(a2, seed=sd))
        if abs(got - sum(parts)) > 1e-9 * (1.0 + abs(sum(parts))):
            fails.append("wait_combine(seed=%d) = %r != sum of its parts evaluated with the same seed %r at attempts=%d" % (sd, got, parts, a2))
        got2 = float((wj[0] + wj[1])(a2, seed=sd))
        if abs(got2 - (parts[0] + parts[1])) > 1e-9 * (1.0 + abs(parts[0] + parts[1])):
            fails.append("+ operator (seed=%d) = %r != %r + %r at attempts=%d" % (sd, got2, parts[0], parts[1], a2))
    except OverflowError:
        pass
    return fails


def cross_process_determinism():
    """jittered strategies are deterministic for a given seed - also across processes (no dependence on the per-process
    string-hash salt): the same seeded delays computed in two interpreters started with different PYTHONHASHSEED values.
    Returns a failure description or None."""
    import json
    import os
    import subprocess
    import sys
    code = (
        "import sys, json\n"
        "sys.path[:0] = %r\n"
        "from workflows import retry_policy as rp\n"
        "ws = [rp.wait_random(0.5, 2.0), rp.wait_fixed(1.0) + rp.wait_random(0.0, 1.0), "
        "rp.wait_combine(rp.wait_fixed(0.25), rp.wait_random(1.0, 3.0), rp.wait_exponential_jitter(initial=0.5, max=8.0)), "
        "rp.wait_exponential_jitter(initial=1.0, max=30.0), rp.wait_chain(rp.wait_random(0, 1), rp.wait_fixed(2.0) + rp.wait_random(0, 1))]\n"
        "print(json.dumps([[w(a, seed=s) for a in (0, 1, 2, 5)] for w in ws for s in (0, 1, 42)]))\n"
    ) % ([p for p in sys.path if p],)
    outs = []
    for hs in ("1", "2"):
        env = dict(os.environ, PYTHONHASHSEED=hs)
        r = subprocess.run([sys.executable, "-c", code], env=env, capture_output=True, text=True, timeout=120)
        if r.returncode != 0:
            return "could not evaluate the strategies in a child interpreter: %s" % r.stderr[-300:]
        outs.append(json.loads(r.stdout.strip().splitlines()[-1]))
    if outs[0] != outs[1]:
        k = next(i for i, (x, y) in enumerate(zip(outs[0], outs[1])) if x != y)
        return ("the same seeded delays differ between two interpreter processes (PYTHONHASHSEED 1 vs 2): row %d is %r in one "
                "and %r in the other" % (k, outs[0][k], outs[1][k]))
    return None
