"""L0 correspondence suite `collect`: the real InternalContext.collect_events (run with a hand-built
StepWorkerContext in the context variable the engine uses) vs Model/Collect.v."""
import boot  # noqa: F401
from core import gz, glist
from suites.wfevents import T1, T2, T3, T4, TY
from workflows.context.internal_context import InternalContext
from workflows.runtime.types.results import (AddCollectedEvent, DeleteCollectedEvent, Returns, StepWorkerContext,
                                             StepWorkerState, StepWorkerStateContextVar)

HEADER = """From Coq Require Import List ZArith Bool.
Import ListNotations.
From WF Require Import Model.Engine Model.EngineEnc Model.Collect Model.CollectEnc.
Open Scope Z_scope.
"""
CLASSES = [T1, T2, T3, T4]
BUF = {"default": 1, "x": 2, "y": 3}


def g_ev(e):
    return "{| ety := %d; eid := %d; eattrs := [] |}" % (TY[type(e)], e.i)


def e_ev(e):
    return [TY[type(e)], e.i, 0]


def real_collect(coll, ev, expected, buffer_id):
    """returns (returned list | None, return_values)"""
    st = StepWorkerState(step_name="s", collected_events={k: list(v) for k, v in coll.items()}, collected_waiters=[])
    sctx = StepWorkerContext(state=st, returns=Returns(return_values=[]))
    tok = StepWorkerStateContextVar.set(sctx)
    try:
        r = InternalContext.collect_events(object.__new__(InternalContext), ev, list(expected), buffer_id)
    finally:
        StepWorkerStateContextVar.reset(tok)
    return r, list(sctx.returns.return_values)


def encode(r, rvs):
    def er(x):
        if isinstance(x, AddCollectedEvent):
            return [1, BUF[x.event_id]] + e_ev(x.event)
        if isinstance(x, DeleteCollectedEvent):
            return [2, BUF[x.event_id]]
        return [99]
    rs = [len(rvs)] + [z for x in rvs for z in er(x)]
    if r is None:
        return [0] + rs
    return [1, len(r)] + [z for e in r for z in e_ev(e)] + rs


def gen_case(rng, ids):
    nexp = rng.choice([0, 1, 1, 2, 2, 3, 3, 4])
    expected = [rng.choice(CLASSES[:3]) for _ in range(nexp)]
    coll = {}
    for b in rng.sample(list(BUF), rng.choice([0, 1, 1, 2])):
        # mostly a sub-multiset of expected (what the engine produces), sometimes junk from another collect
        pool = list(expected)
        rng.shuffle(pool)
        k = rng.randint(0, max(0, len(pool) - (0 if rng.random() < 0.3 else 1)))
        evs = [c(i=next(ids)) for c in pool[:k]]
        if rng.random() < 0.15:
            evs.insert(rng.randint(0, len(evs)), rng.choice(CLASSES)(i=next(ids)))
        coll[b] = evs
    ev = (rng.choice(expected) if expected and rng.random() < 0.8 else rng.choice(CLASSES))(i=next(ids))
    bid = rng.choice([None, None, "default", "x", "y"])
    buf = coll.get(bid or "default", [])
    if buf and rng.random() < 0.25:
        # a DIFFERENT event object whose payload equals that of an event already buffered (two results that happen to
        # carry the same data): it counts like any other event of its type
        twin = rng.choice(buf)
        ev = type(twin)(i=twin.i)
    return coll, ev, expected, bid


def coq_case(coll, ev, expected, bid, expect):
    b = BUF[bid or "default"]
    gc = glist("(%d, %s)" % (BUF[k], glist(g_ev(e) for e in v)) for k, v in coll.items())
    return "collect_case %d %s %s %s %s" % (b, gc, g_ev(ev), glist(gz(TY[c]) for c in expected),
                                            glist(gz(z) for z in expect))


def monitor(coll, ev, expected, bid, r, rvs):
    """C09 on the real output"""
    out = []
    buf = coll.get(bid or "default", [])
    if r is not None:
        if [type(x) for x in r] != list(expected):
            out.append("returned list has types %s, expected %s" % ([type(x).__name__ for x in r], [c.__name__ for c in expected]))
        pool = list(buf) + [ev]
        for x in r:
            if any(x is p for p in pool):
                pool = [p for p in pool if p is not x]
            else:
                out.append("returned list contains an event that is neither buffered nor the incoming one (or twice)")
        if expected and not (len(rvs) == 1 and isinstance(rvs[0], DeleteCollectedEvent)):
            out.append("a completed collection recorded %s instead of one DeleteCollectedEvent" % rvs)
    else:
        from collections import Counter
        rem = Counter(expected) - Counter(type(e) for e in buf)
        complete = rem == Counter([type(ev)])
        if complete:
            out.append("collect_events returned None although the incoming event completes the expected set")
        needed = type(ev) in rem
        added = [x for x in rvs if isinstance(x, AddCollectedEvent)]
        if needed and not (len(added) == 1 and added[0].event is ev):
            out.append("a still-missing event was not buffered (lost)")
        if not needed and added:
            out.append("an event that is not missing was buffered")
    return out
