"""L2 engine driver: generated workflows compiled to real `Workflow` classes, run by the real
engine (Workflow.run -> control loop) on the virtual-time loop under a generated schedule.

Step bodies are small scripts; every body can block on *gates* that only the driver opens, so the
driver decides the order in which overlapping invocations finish.  Everything observable is logged
by a Recorder; property monitors (C01..C12, C30, C31, C35) read these logs."""
import asyncio
import itertools
import random
import typing

import boot  # noqa: F401
import vloop
from suites.wfevents import T1, T2, T3, T4, U6, HR, IR, MyStop, MyStart
from workflows import Context, Workflow, step
from workflows.decorators import catch_error
from workflows.events import (Event, StartEvent, StepFailedEvent, StepStateChanged, StopEvent)


class Recorder:
    def __init__(self):
        self.log = []          # dicts, in order
        self.eid = itertools.count(1)
        self.gates = {}        # key -> asyncio.Event
        self.waiting = []      # gate keys currently awaited (in arrival order)
        self.inv = itertools.count(1)

    def ev(self, kind, **kw):
        kw["kind"] = kind
        kw["t"] = vloop.CLOCK.loop._vt if vloop.CLOCK.loop else None
        self.log.append(kw)

    async def gate(self, key):
        g = asyncio.Event()
        self.gates[key] = g
        self.waiting.append(key)
        try:
            await g.wait()
        finally:
            if key in self.waiting:
                self.waiting.remove(key)
            self.gates.pop(key, None)

    def open(self, key):
        self.gates[key].set()


EXN = {"value": ValueError, "runtime": RuntimeError, "key": KeyError}


def make_body(name, script, rec):
    """script: list of actions, or dict {event class: list of actions} (dispatch on input type)."""

    async def body(self, ctx, ev):
        inv = next(rec.inv)
        acts = script.get(type(ev), script.get("*", [])) if isinstance(script, dict) else script
        rinfo = None
        try:
            rinfo = ctx.retry_info()
        except Exception:  # noqa: BLE001
            pass
        rec.ev("enter", step=name, inv=inv, ev=type(ev).__name__, i=ev.get("i", None),
               failed_step=(getattr(ev, "step_name", None) if type(ev).__name__ == "StepFailedEvent" else None),
               retry=(rinfo.retry_number if rinfo else None),
               last_exc=(repr(rinfo.last_exception) if rinfo and rinfo.last_exception else None),
               elapsed=(rinfo.elapsed_seconds if rinfo else None))
        outcome = "return-none"
        try:
            for a in acts:
                op = a[0]
                if op == "gate":
                    await rec.gate((name, inv, a[1] if len(a) > 1 else "g"))
                elif op == "send":
                    _, cls, n, target = a
                    for _ in range(n):
                        e = cls(i=next(rec.eid), src=ev.get("i", None))
                        rec.ev("send", step=name, inv=inv, ev=cls.__name__, i=e.i, target=target)
                        ctx.send_event(e, step=target)
                elif op == "send_same":
                    # n events with IDENTICAL payload (equal as values, distinct objects)
                    _, cls, n, target = a
                    ident = next(rec.eid)
                    for _ in range(n):
                        e = cls(i=ident, src=ev.get("i", None))
                        rec.ev("send", step=name, inv=inv, ev=cls.__name__, i=e.i, target=target)
                        ctx.send_event(e, step=target)
                elif op == "publish":
                    e = a[1](i=next(rec.eid))
                    rec.ev("publish", step=name, inv=inv, ev=a[1].__name__, i=e.i)
                    ctx.write_event_to_stream(e)
                elif op == "publish_many":
                    # a burst of stream events written without yielding to the loop in between
                    for k in range(a[2]):
                        ctx.write_event_to_stream(a[1](i=k))
                    rec.ev("publish", step=name, inv=inv, ev=a[1].__name__, i=a[2], burst=True)
                elif op == "collect":
                    _, expected, buf = a
                    r = ctx.collect_events(ev, list(expected), buffer_id=buf)
                    rec.ev("collect", step=name, inv=inv, i=ev.get("i", None), buf=buf,
                           expected=[c.__name__ for c in expected],
                           got=None if r is None else [(type(x).__name__, x.get("i", None)) for x in r])
                    if r is None:
                        outcome = "return-none"
                        return None
                elif op == "wait":
                    _, cls, reqs, timeout, wid, wev, on_timeout = a[:7]
                    store_key = a[7] if len(a) > 7 else None   # record which event resolved the wait in the state store
                    reqs = {k: (ev.get("i", None) if v == "$i" else v) for k, v in dict(reqs).items()}
                    if isinstance(wid, str) and "$i" in wid:
                        wid = wid.replace("$i", str(ev.get("i", None)))
                    try:
                        r = await ctx.wait_for_event(cls, waiter_event=(wev(i=next(rec.eid)) if wev else None),
                                                     waiter_id=wid, requirements=dict(reqs), timeout=timeout)
                        rec.ev("wait-result", step=name, inv=inv, i=ev.get("i", None), wid=wid, want=cls.__name__,
                               reqs=dict(reqs), got=(type(r).__name__, r.get("i", None), dict(r._data)))
                        if store_key:
                            await ctx.store.set("%s%s" % (store_key, ev.get("i", None)), r.get("tag", None))
                    except asyncio.TimeoutError:
                        rec.ev("wait-timeout", step=name, inv=inv, i=ev.get("i", None), wid=wid)
                        if on_timeout == "raise":
                            raise
                        if on_timeout == "stop":
                            outcome = "return-stop"
                            return StopEvent(result="timeout")
                elif op == "fail_until":
                    _, n, kind = a
                    if rinfo is not None and rinfo.retry_number < n:
                        raise EXN[kind]("fail%d" % rinfo.retry_number)
                elif op in ("on_cancel_publish", "on_cancel_sleep"):
                    pass
                elif op == "self_cancel":
                    # the body awaits something that was cancelled (a cancelled future of its own): the worker task ends
                    # with CancelledError although nobody cancelled the step
                    if ev.get("i", None) in a[1]:
                        fut = asyncio.get_running_loop().create_future()
                        fut.cancel()
                        await fut
                elif op == "sleep":
                    await asyncio.sleep(a[1])
                elif op == "sleep_first":
                    # first attempt only: work for a[1] * (rank of the input among the step's inputs) seconds
                    if rinfo is None or rinfo.retry_number == 0:
                        await asyncio.sleep(a[1] * (ev.get("i", 1) or 1))
                elif op == "raise_seq":
                    # raise the k-th exception object of the list on the execution with retry number k
                    if rinfo is not None and rinfo.retry_number < len(a[1]):
                        raise a[1][rinfo.retry_number]
                elif op == "raise":
                    raise EXN[a[1]](a[2] if len(a) > 2 else "boom")
                elif op == "set":
                    await ctx.store.set(a[1], a[2])
                elif op == "incr":
                    async with ctx.store.edit_state() as st:
                        st[a[1]] = st.get(a[1], 0) + 1
                elif op == "return_const":
                    outcome = "return-StopEvent"
                    return StopEvent(result=a[1])
                elif op == "return_lock":
                    # an event whose payload cannot be deep-copied or pickled (a lock): the engine passes events by reference
                    import threading
                    e = a[1](i=next(rec.eid), src=ev.get("i", None), payload=threading.Lock())
                    outcome = "return-" + a[1].__name__
                    rec.ev("return", step=name, inv=inv, ev=a[1].__name__, i=e.get("i", None))
                    return e
                elif op == "return":
                    cls = a[1]
                    if cls is None:
                        return None
                    if cls == "other":
                        outcome = "return-other"
                        return 42
                    e = cls(i=next(rec.eid), src=ev.get("i", None)) if not issubclass(cls, StopEvent) \
                        else cls(result=("r", ev.get("i", None)), i=next(rec.eid))
                    outcome = "return-" + cls.__name__
                    rec.ev("return", step=name, inv=inv, ev=cls.__name__, i=e.get("i", None))
                    return e
            return None
        except asyncio.CancelledError:
            outcome = "cancelled"
            for a in acts:
                if a[0] == "on_cancel_sleep":     # a body that is slow to unwind: clean-up that takes (virtual) time
                    await asyncio.sleep(a[1])
            for a in acts:
                if a[0] == "on_cancel_publish":   # user code that publishes while being cancelled (e.g. in a finally block)
                    e = a[1](i=next(rec.eid))
                    rec.ev("publish", step=name, inv=inv, ev=a[1].__name__, i=e.i, on_cancel=True)
                    ctx.write_event_to_stream(e)
            raise
        except BaseException as ex:  # noqa: BLE001
            outcome = "raise-" + type(ex).__name__
            raise
        finally:
            rec.ev("exit", step=name, inv=inv, outcome=outcome)

    return body


def build_workflow(spec, rec):
    """spec: dict(steps={name: dict(accepts, returns, num_workers, policy, script)},
                  handlers={name: dict(for_steps, max_recoveries, returns, script)},
                  timeout, num_concurrent_runs, disable_validation)"""
    ns = {}
    for name, s in spec["steps"].items():
        fn = make_body(name, s["script"], rec)
        fn.__name__ = name
        fn.__qualname__ = "GenWF." + name
        acc = s["accepts"]
        ret = s["returns"]
        fn.__annotations__ = {"ctx": Context, "ev": typing.Union[tuple(acc)] if len(acc) > 1 else acc[0],
                              "return": typing.Union[tuple(ret)] if len(ret) > 1 else ret[0]}
        ns[name] = step(num_workers=s.get("num_workers", 4), retry_policy=s.get("policy"))(fn)
    for name, h in spec.get("handlers", {}).items():
        fn = make_body(name, h["script"], rec)
        fn.__name__ = name
        fn.__qualname__ = "GenWF." + name
        ret = h["returns"]
        fn.__annotations__ = {"ctx": Context, "ev": StepFailedEvent,
                              "return": typing.Union[tuple(ret)] if len(ret) > 1 else ret[0]}
        ns[name] = catch_error(for_steps=h.get("for_steps"), max_recoveries=h.get("max_recoveries", 1))(fn)
    cls = type("GenWF", (Workflow,), ns)
    return cls(timeout=spec.get("timeout"), disable_validation=spec.get("disable_validation", False),
               num_concurrent_runs=spec.get("num_concurrent_runs"))


class RunObs:
    """Everything observed about one run."""

    def __init__(self):
        self.stream = []
        self.stream_ended = False
        self.result = None
        self.exception = None
        self.done = False
        self.actions = []
        self.stuck = False
        self.ticks = None
        self.snapshots = []


async def _consume(handler, obs):
    try:
        async for ev in handler.stream_events(expose_internal=True):
            obs.stream.append(ev)
        obs.stream_ended = True
    except asyncio.CancelledError:
        raise
    except Exception as ex:  # noqa: BLE001
        obs.stream.append(("stream-error", repr(ex)))


async def _await_result(handler, obs):
    try:
        obs.result = await handler
    except asyncio.CancelledError:
        obs.exception = asyncio.CancelledError()
    except BaseException as ex:  # noqa: BLE001
        obs.exception = ex
    obs.done = True


def next_timer(loop):
    ws = [h._when for h in loop._scheduled if not h._cancelled]
    return min(ws) if ws else None


async def drive(wf, rec, rng, externals=(), max_actions=400, start_event=None, ctx=None, policy="random",
                hooks=None, horizon=5000.0, time_bias=0.15):
    """Run one workflow under a generated schedule.
    externals: list of callables(handler, rec) -> None, sent at scheduler-chosen moments.
    policy: "random" | "fifo" | "lifo" (which pending gate to open next)."""
    loop = asyncio.get_running_loop()
    obs = RunObs()
    t_start = loop.time()
    handler = wf.run(ctx=ctx, start_event=start_event) if start_event is not None or ctx is not None else wf.run()
    consumer = asyncio.ensure_future(_consume(handler, obs))
    waiter = asyncio.ensure_future(_await_result(handler, obs))
    ext = list(externals)
    for n in range(max_actions):
        await vloop.settle()
        if hooks:
            for h in hooks:
                await h(handler, rec, obs, n)
        if obs.done and (obs.stream_ended or consumer.done()):
            break
        choices = []
        if rec.waiting:
            choices.append("gate")
        if ext and not obs.done:
            choices.append("ext")
        nt = next_timer(loop)
        if nt is not None and nt - t_start < horizon:
            choices.append("time")
        if not choices:
            obs.stuck = True
            break
        # prefer gates / externals over time (time passes only when chosen or nothing else to do)
        if "time" in choices and len(choices) > 1 and rng.random() < 1.0 - time_bias:
            choices.remove("time")
        c = rng.choice(choices)
        if c == "gate":
            if policy == "fifo":
                k = rec.waiting[0]
            elif policy == "lifo":
                k = rec.waiting[-1]
            else:
                k = rng.choice(rec.waiting)
            obs.actions.append(("gate", k))
            rec.ev("open", key=k)
            rec.open(k)
        elif c == "ext":
            f = ext.pop(0)
            obs.actions.append(("ext", getattr(f, "label", "ext")))
            r = f(handler, rec)
            if asyncio.iscoroutine(r):
                await r
        else:
            obs.actions.append(("time", nt))
            await asyncio.sleep(max(0.0, nt - loop.time()))
    else:
        obs.stuck = True
    await vloop.settle()
    obs.handler = handler
    try:   # whatever is still in the publish queue was published after the stream's terminal event
        obs.leftover = list(handler._external_adapter._queues.publish_queue._queue)
    except Exception:  # noqa: BLE001
        obs.leftover = None
    try:
        obs.ticks = list(handler.ctx._require_external("ticks")._tick_log) if not obs.stuck or True else None
    except Exception:  # noqa: BLE001
        obs.ticks = None
    if not consumer.done():
        obs.consumer_pending = True
        consumer.cancel()
    else:
        obs.consumer_pending = False
    if not waiter.done():
        waiter.cancel()
    await asyncio.gather(consumer, waiter, return_exceptions=True)
    return obs


def run_case(make_spec, seed, **kw):
    """Build + drive one case on a fresh virtual loop. make_spec(rng) -> (spec, externals, opts)."""
    rng = random.Random(seed)
    rec = Recorder()
    spec, externals, opts = make_spec(rng)
    opts = dict(opts or {})
    opts.update(kw)

    async def main():
        wf = build_workflow(spec, rec)
        return await drive(wf, rec, rng, externals=externals, **opts)

    obs = vloop.run(main(), wall_offset=opts.pop("wall_offset", None) if False else None)
    return spec, rec, obs
