"""Correspondence suite `eventlog` (C16): the real event-log code vs Model/EventLog.v.

Real side: MemoryWorkflowStore, SqliteWorkflowStore (per-call and single-connection), the polling
default `AbstractWorkflowStore.subscribe_events` (run on a memory store), and `_resolve_event_stream`
(loaded from _api.py by source slice because that module imports starlette), all driven on the
virtual-time loop by one op sequence per case:

    ("append", run, ev)           store.append_event(run, envelope(ev))
    ("sub", run, k, mode)         new subscriber (mode "store": store.subscribe_events(run, k);
                                  mode "base": the abstract polling implementation)
    ("resolve", run, after, incl, handler)   _resolve_event_stream(handler_id, after_sequence=after, ...)
                                  with handler in {"absent","norun","running","completed"}; a stream
                                  result becomes a subscriber
    ("next", i)                   request the next item of subscriber i (a task on __anext__)
    ("tick",)                     advance virtual time by one poll interval
    ("query", run, after, limit)  store.query_events

After every op the loop is run to quiescence and every outstanding `next` request that completed is
recorded. The observation list (flat ints) is compared INSIDE Coq with `run_ops` of the model, which
expands each op into the fine-grained actions (write / notify / timeout / step) the theorems quantify
over. Ops of different run ids are projected apart: the model is evaluated per run, so the comparison
also checks that a run's numbering and streams do not depend on other runs."""
import ast
import asyncio
import os
import random
import signal

import boot
import vloop
from core import CheckError, glist, gopt, gz, gzlist

boot.enable_server()

from llama_agents.client.protocol.serializable_events import EventEnvelopeWithMetadata  # noqa: E402
from llama_agents.server._store import abstract_workflow_store as AWS  # noqa: E402
from llama_agents.server._store import memory_workflow_store as MWS  # noqa: E402
from llama_agents.server._store.abstract_workflow_store import (  # noqa: E402
    AbstractWorkflowStore, HandlerQuery, PersistentHandler, is_terminal_status)
from llama_agents.server._store.memory_workflow_store import MemoryWorkflowStore  # noqa: E402
from llama_agents.server._store.sqlite import sqlite_workflow_store as SWS  # noqa: E402
from llama_agents.server._store.sqlite.sqlite_workflow_store import SqliteWorkflowStore  # noqa: E402
from workflows.events import (  # noqa: E402
    Event, InternalDispatchEvent, StopEvent, WorkflowCancelledEvent,
    WorkflowFailedEvent, WorkflowTimedOutEvent)

vloop.patch_datetime(AWS, MWS, SWS)

API_REL = "packages/llama-agents-server/src/llama_agents/server/_api.py"
POLL = 0.5


# ---- event universe -------------------------------------------------------------------------
class PlainEv(Event):
    pass


class DerivedEv(PlainEv):
    pass


class MyStop(StopEvent):
    pass


class DeepStop(MyStop):
    pass


class InternalEv(InternalDispatchEvent):
    pass


class StopEventish(Event):
    """name merely contains 'StopEvent' — not terminal"""


# type-name table shared with the model: StopEvent = 0, InternalDispatchEvent = 1
TYPE_IDS = {"StopEvent": 0, "InternalDispatchEvent": 1}


def tid(name):
    if name not in TYPE_IDS:
        TYPE_IDS[name] = len(TYPE_IDS)
    return TYPE_IDS[name]


def _mk(kind, pid):
    if kind == "plain":
        return PlainEv(pid=pid)
    if kind == "derived":
        return DerivedEv(pid=pid)
    if kind == "stop":
        return StopEvent(result=pid)
    if kind == "mystop":
        return MyStop(pid=pid)
    if kind == "deepstop":
        return DeepStop(pid=pid)
    if kind == "failed":
        return WorkflowFailedEvent(step_name="s", exception=ValueError(str(pid)), attempts=1, elapsed_seconds=0.0)
    if kind == "cancelled":
        return WorkflowCancelledEvent()
    if kind == "timedout":
        return WorkflowTimedOutEvent(timeout=1.0, active_steps=[str(pid)])
    if kind == "internal":
        return InternalEv(pid=pid)
    if kind == "ishname":
        return StopEventish(pid=pid)
    raise ValueError(kind)


NONTERM = ["plain", "plain", "derived", "internal", "ishname"]
TERM = ["stop", "mystop", "deepstop", "failed", "cancelled", "timedout"]
_ENV_CACHE = {}


def envelope(kind, pid):
    """real envelope built by the repository's own from_event (types = MRO names)."""
    key = (kind, pid)
    if key not in _ENV_CACHE:
        try:
            ev = _mk(kind, pid)
        except Exception:  # constructor signature of a library event changed: build generically
            ev = None
        if ev is None:
            raise CheckError("cannot build event of kind %s" % kind)
        env = EventEnvelopeWithMetadata.from_event(ev)
        # the payload id travels in qualified_name-independent form: put it into value
        env.value["__pid"] = pid
        _ENV_CACHE[key] = env
    return _ENV_CACHE[key]


def env_pid(env):
    return env.value.get("__pid")


def g_ev(env):
    """model event literal (without sequence): type id, optional parent type ids, payload id"""
    tys = None if env.types is None else [tid(t) for t in env.types]
    return "(mkE %s %s %s)" % (gz(tid(env.type)), gopt(gzlist, tys), gz(env_pid(env)))


# ---- source-slice loader for _resolve_event_stream -------------------------------------------
class _HTTPException(Exception):
    def __init__(self, detail=None, status_code=500):
        super().__init__(detail)
        self.detail, self.status_code = detail, status_code


_RESOLVE = {}


def load_resolve():
    """compile the text of _WorkflowAPI._resolve_event_stream from the working tree"""
    path = os.path.join(boot.REPO, API_REL)
    st = os.stat(path)
    key = (path, st.st_mtime_ns, st.st_size)
    if key in _RESOLVE:
        return _RESOLVE[key]
    src = open(path).read()
    mod = ast.parse(src)
    fn = None
    for n in ast.walk(mod):
        if isinstance(n, ast.ClassDef) and n.name == "_WorkflowAPI":
            for m in n.body:
                if isinstance(m, ast.AsyncFunctionDef) and m.name == "_resolve_event_stream":
                    fn = m
    if fn is None:
        raise CheckError("_WorkflowAPI._resolve_event_stream not found in " + API_REL)
    text = ast.get_source_segment(src, fn)
    import textwrap
    from typing import Any, AsyncGenerator
    ns = dict(HandlerQuery=HandlerQuery, HTTPException=_HTTPException, is_terminal_status=is_terminal_status,
              AbstractWorkflowStore=AbstractWorkflowStore, InternalDispatchEvent=InternalDispatchEvent,
              EventEnvelopeWithMetadata=EventEnvelopeWithMetadata, AsyncGenerator=AsyncGenerator, Any=Any)
    exec(compile("from __future__ import annotations\n" + textwrap.dedent(text), path, "exec"), ns)
    _RESOLVE[key] = ns["_resolve_event_stream"]
    return _RESOLVE[key]


class _Svc:
    def __init__(self, store):
        self.store = store


class _Api:
    def __init__(self, store):
        self._service = _Svc(store)


# ---- real-side executor ----------------------------------------------------------------------
BACKENDS = ("memory", "sqlite", "sqlite1")   # sqlite1 = single_connection=True
RUNS = ("r", "q")


def make_store(backend, scratch, tag):
    if backend == "memory":
        return MemoryWorkflowStore()
    path = os.path.join(scratch, "ev_%s.db" % tag)
    for suffix in ("", "-wal", "-shm", "-journal"):
        if os.path.exists(path + suffix):
            os.remove(path + suffix)
    return SqliteWorkflowStore(path, poll_interval=POLL, single_connection=(backend == "sqlite1"))


def second_store(backend, scratch, tag, first):
    """Another store object on the SAME database (a second server process, or the server after a restart); the memory
    store has no such thing."""
    if backend == "memory":
        return first
    return SqliteWorkflowStore(os.path.join(scratch, "ev_%s.db" % tag), poll_interval=POLL,
                               single_connection=(backend == "sqlite1"))


WATCHDOG_S = 20


class Livelock(BaseException):
    pass


class _Sub:
    def __init__(self, gen, spec):
        self.gen, self.spec, self.task, self.done, self.out = gen, spec, None, False, []


class Result:
    """obs[run] = one int list per op of that run (ticks belong to every run);
    subs[run] = [(spec, out, finished)] with spec = (mode, k, incl) and out = [(seq, pid, type)];
    logs[run] = [(seq, pid, type)] read back at the end; anomalies = cross-run deliveries, errors."""

    def __init__(self):
        self.obs = {r: [] for r in RUNS}
        self.subs = {r: [] for r in RUNS}
        self.logs = {r: [] for r in RUNS}
        self.anomalies = []
        self.livelock = False


def execute(backend, ops, scratch, tag="x"):
    """ops: ("tick",) or (run, kind, ...). Runs them on the real store under virtual time."""
    res = Result()

    async def main():
        store = make_store(backend, scratch, tag)
        base_poll = AbstractWorkflowStore.poll_interval
        AbstractWorkflowStore.poll_interval = POLL
        subs = {r: [] for r in RUNS}
        box = {}
        api = _Api(store)
        resolve = load_resolve()

        def collect():
            got = {r: [] for r in RUNS}
            for r in RUNS:
                for i, s in enumerate(subs[r]):
                    if s.task is not None and s.task.done():
                        t, s.task = s.task, None
                        try:
                            item = t.result()
                        except StopAsyncIteration:
                            s.done = True
                            got[r] += [i, -2, 0]
                            continue
                        except Exception as e:  # noqa: BLE001 - the generator raised
                            s.done = True
                            got[r] += [i, -6, 0]
                            res.anomalies.append("subscriber %s/%d raised %r" % (r, i, e))
                            continue
                        if isinstance(item, tuple):      # resolved stream: (sequence, envelope)
                            seq, env = item
                        else:
                            seq, env = item.sequence, item.event
                        s.out.append((seq, env_pid(env), env.type))
                        got[r] += [i, seq, env_pid(env)]
            return got

        try:
            for op in ops:
                o = []
                run = None if op[0] == "tick" else op[0]
                kind = "tick" if run is None else op[1]
                if kind == "append":
                    tgt = store
                    if len(op) > 3 and op[3]:        # through a second store object on the same database
                        if box.get("second") is None:
                            box["second"] = second_store(backend, scratch, tag, store)
                        tgt = box["second"]
                    await tgt.append_event(run, envelope(*op[2]))
                elif kind == "sub":
                    _, _, k, mode = op
                    if mode == "base":
                        gen = AbstractWorkflowStore.subscribe_events(store, run, after_sequence=k)
                    else:
                        gen = store.subscribe_events(run, after_sequence=k)
                    subs[run].append(_Sub(gen, (mode, k, True)))
                elif kind == "resolve":
                    _, _, after, incl, handler = op
                    hid = "h-" + run
                    await store.delete(HandlerQuery(handler_id_in=[hid]))
                    if handler != "absent":
                        await store.update(PersistentHandler(
                            handler_id=hid, workflow_name="w",
                            status="completed" if handler == "completed" else "running",
                            run_id=None if handler == "norun" else run))
                    try:
                        gen = await resolve(api, hid, after_sequence=after, include_internal=incl,
                                            include_qualified_name=True)
                        code = 1 if gen is not None else 2
                    except _HTTPException as e:
                        gen = None
                        code = 3 if "not found" in str(e.detail).lower() else 4
                        if e.status_code != 404:
                            code = 9
                    o.append(code)
                    if gen is not None:
                        subs[run].append(_Sub(gen, ("resolve", after, incl, handler)))
                elif kind == "next":
                    if not subs[run]:
                        o.append(-9)
                    else:
                        i = op[2] % len(subs[run])
                        s = subs[run][i]
                        if s.done:
                            o += [i, -2, 0]
                        elif s.task is not None:
                            o += [i, -3, 0]
                        else:
                            s.task = asyncio.ensure_future(s.gen.__anext__())
                elif kind == "tick":
                    asyncio.get_running_loop().advance(POLL)
                elif kind == "query":
                    _, _, after, limit = op
                    q = await store.query_events(run, after_sequence=after, limit=limit)
                    o += [len(q)] + [x for e in q for x in (e.sequence, env_pid(e.event))]
                else:
                    raise CheckError("unknown op %r" % (op,))
                try:
                    await vloop.settle(2000)
                except RuntimeError as e:
                    res.anomalies.append("livelock: %s after op %r" % (e, op))
                    res.livelock = True
                    break
                got = collect()
                for r in RUNS:
                    if run is None:
                        res.obs[r].append(got[r])
                    elif r == run:
                        res.obs[r].append(o + got[r])
                    elif got[r]:
                        res.anomalies.append("op %r on run %s delivered to subscribers of run %s: %r"
                                             % (op, run, r, got[r]))
            for r in RUNS:
                res.logs[r] = [(e.sequence, env_pid(e.event), e.event.type) for e in await store.query_events(r)]
                res.subs[r] = [(s.spec, list(s.out), s.done) for s in subs[r]]
        finally:
            AbstractWorkflowStore.poll_interval = base_poll
            for r in RUNS:
                for s in subs[r]:
                    if s.task is not None:
                        s.task.cancel()
            for r in RUNS:
                for s in subs[r]:
                    try:
                        await s.gen.aclose()
                    except BaseException:  # noqa: BLE001
                        pass
            for st_ in (store, box.get("second")):
                conn = getattr(st_, "_persistent_conn", None) if st_ is not None else None
                if conn is not None:
                    try:
                        conn.close()
                    except Exception:  # noqa: BLE001
                        pass

    # watchdog: real code that spins without reaching a suspension point (e.g. a subscriber that is
    # handed the same event for ever) must become a reported failure, not a hanging check
    def on_alarm(signum, frame):
        raise Livelock("no suspension point reached within %d s of CPU-bound execution" % WATCHDOG_S)

    old = signal.signal(signal.SIGALRM, on_alarm)
    signal.setitimer(signal.ITIMER_REAL, WATCHDOG_S)
    try:
        vloop.run(main(), auto=False)
    except Livelock as e:
        res.anomalies.append("livelock: %s" % e)
        res.livelock = True
    finally:
        signal.setitimer(signal.ITIMER_REAL, 0)
        signal.signal(signal.SIGALRM, old)
    return res


# ---- encoders --------------------------------------------------------------------------------
HEADER = """From Coq Require Import List ZArith Bool.
Import ListNotations.
From WF Require Import Model.EventLog Model.EventLogEnc.
Open Scope Z_scope.
"""

HSTATE = {"absent": "HAbsent", "norun": "HNoRun", "running": "(HRun false)", "completed": "(HRun true)"}


def g_op(op):
    """op of ONE run (run id stripped) -> Coq term"""
    kind = op[0]
    if kind == "append":
        return "(OAppend %s)" % g_ev(envelope(*op[1]))
    if kind == "sub":
        return "(OSub %s %s)" % ("true" if op[2] == "base" else "false", gz(op[1]))
    if kind == "resolve":
        return "(OResolve %s %s %s)" % (gopt(gz, op[1]), "true" if op[2] else "false", HSTATE[op[3]])
    if kind == "next":
        return "(ONext %d)" % op[1]
    if kind == "tick":
        return "OTick"
    if kind == "query":
        return "(OQuery %s %s)" % (gopt(gz, op[1]), gopt(gz, op[2]))
    raise CheckError("unknown op %r" % (op,))


def project(ops, run):
    return [(("tick",) if op[0] == "tick" else op[1:]) for op in ops if op[0] == "tick" or op[0] == run]


def flat(obs):
    out = []
    for o in obs:
        out.append(len(o))
        out += o
    return out


def coq_case(backend, ops, run, obs):
    bk = "BMem" if backend == "memory" else "BSql"
    return "run_case %s %s %s" % (bk, glist(g_op(o) for o in project(ops, run)), gzlist(flat(obs)))


# ---- generator -------------------------------------------------------------------------------
def gen_case(rng, size=None):
    """one op sequence over two runs. Mostly-valid structure: appends, subscriptions with cursors
    around the interesting points (-1, inside, last = "now", ahead of the log), terminal events at
    a random position (sometimes followed by more events), reads interleaved; then a drain phase that
    lets every subscriber catch up."""
    size = size or rng.choice([6, 10, 14, 20, 28])
    ops = []
    nlog = {r: 0 for r in RUNS}
    nsub = {r: 0 for r in RUNS}
    term_seen = {r: False for r in RUNS}
    pid = [0]
    # the terminal event of the main run arrives around this op index (or never)
    term_at = rng.choice([None, None, rng.randrange(size), rng.randrange(size)])
    many_after_term = rng.random() < 0.3

    def cursor(r):
        n = nlog[r]
        c = rng.random()
        if c < 0.25:
            return -1
        if c < 0.40:
            return n - 1                      # "now"
        if c < 0.65:
            return n + rng.randrange(0, 4)    # ahead of the log
        if c < 0.72:
            return -rng.randrange(2, 5)
        return rng.randrange(-1, n + 1)

    for j in range(size):
        r = "r" if rng.random() < 0.75 else "q"
        c = rng.random()
        if term_at is not None and j == term_at and r == "r":
            kind = "term"
        elif c < 0.30:
            kind = "append"
        elif c < 0.44:
            kind = "sub"
        elif c < 0.52:
            kind = "resolve"
        elif c < 0.80:
            kind = "next"
        elif c < 0.88:
            kind = "tick"
        else:
            kind = "query"
        if kind in ("append", "term"):
            if term_seen[r] and not many_after_term and rng.random() < 0.8:
                kind = "next"
            else:
                pid[0] += 1
                ek = rng.choice(TERM) if (kind == "term" or rng.random() < 0.06) else rng.choice(NONTERM)
                ops.append((r, "append", (ek, pid[0])))
                nlog[r] += 1
                term_seen[r] = term_seen[r] or ek in TERM
                continue
        if kind == "sub":
            ops.append((r, "sub", cursor(r), "base" if rng.random() < 0.25 else "store"))
            nsub[r] += 1
        elif kind == "resolve":
            after = None if rng.random() < 0.35 else cursor(r)
            h = rng.choice(["running", "running", "running", "completed", "completed", "absent", "norun"])
            ops.append((r, "resolve", after, rng.random() < 0.4, h))
            nsub[r] += 1          # upper bound (a 204/404 creates none) — indices are taken modulo
        elif kind == "next":
            ops.append((r, "next", rng.randrange(max(1, nsub[r]))))
        elif kind == "tick":
            ops.append(("tick",))
        elif kind == "query":
            after = None if rng.random() < 0.3 else cursor(r)
            limit = None if rng.random() < 0.5 else rng.randrange(0, 4)
            ops.append((r, "query", after, limit))
    # drain: everyone catches up with the final log
    for r in RUNS:
        ops.append((r, "query", None, None))
    rounds = max(nlog.values()) + 2
    for _ in range(rounds):
        for r in RUNS:
            for i in range(nsub[r]):
                ops.append((r, "next", i))
        ops.append(("tick",))
    return ops


# ---- implementation-side monitors: the statement of C16 evaluated on the real outputs -----------
def is_term_kind(kind):
    return kind in TERM


def spec_stream(log_kinds, k, incl):
    """log_kinds: [(seq, pid, kind)] of the final log. The stream C16 demands for cursor k:
    events numbered above k, in order, ending right after the first terminal one; the HTTP wrapper
    additionally drops internal events unless incl. Returns (events, closed)."""
    out, closed = [], False
    for seq, pid, kind in log_kinds:
        if seq > k:
            if incl or kind != "internal":
                out.append((seq, pid))
            if is_term_kind(kind):
                closed = True
                break
    return out, closed


def monitor_case(ops, res):
    """returns [(finding_key, description)] for one executed case (one backend)."""
    fails = []
    if res.livelock:
        return [("C16/livelock", a) for a in res.anomalies if a.startswith("livelock")]
    appended = {r: [] for r in RUNS}      # (pid, kind) in publication order
    sub_cursor = {r: [] for r in RUNS}    # resolved cursor of each subscriber, in creation order
    for op in ops:
        if op[0] == "tick":
            continue
        r, kind = op[0], op[1]
        if kind == "append":
            appended[r].append((op[2][1], op[2][0]))
        elif kind == "sub":
            sub_cursor[r].append((op[2], True))
        elif kind == "resolve":
            after, incl, handler = op[2], op[3], op[4]
            n = len(appended[r])
            k = (n - 1) if after is None else after
            nothing_left = not any(i > k for i in range(n))
            over = handler == "completed" or (n > 0 and is_term_kind(appended[r][-1][1]))
            expect_stream = handler in ("running", "completed") and not (nothing_left and over)
            sub_cursor[r].append(("resolve", k, incl, expect_stream, handler))
    for r in RUNS:
        log = res.logs[r]
        # (1) numbering: 0,1,2,... in publication order
        if [s for s, _, _ in log] != list(range(len(appended[r]))):
            fails.append(("C16/numbering", "run %s: stored sequence numbers %r for %d appended events"
                          % (r, [s for s, _, _ in log], len(appended[r]))))
            continue
        if [p for _, p, _ in log] != [p for p, _ in appended[r]]:
            fails.append(("C16/numbering", "run %s: stored order %r differs from publication order %r"
                          % (r, [p for _, p, _ in log], [p for p, _ in appended[r]])))
            continue
        kinds = [(i, p, kd) for i, (p, kd) in enumerate(appended[r])]
        # (2) every subscriber, after the drain phase, has exactly the specified stream
        want = [c for c in sub_cursor[r] if not (c[0] == "resolve" and not c[3])]
        unexpected = [c for c in sub_cursor[r] if c[0] == "resolve"]
        got_subs = res.subs[r]
        if len(got_subs) != len(want):
            fails.append(("C16/resolve", "run %s: %d streams were opened, %d expected from the handler states "
                          "and cursors %r" % (r, len(got_subs), len(want), unexpected)))
            continue
        for i, (c, (spec, out, finished)) in enumerate(zip(want, got_subs)):
            k, incl = (c[1], c[2]) if c[0] == "resolve" else (c[0], True)
            exp, closed = spec_stream(kinds, k, incl)
            got = [(s, p) for s, p, _ in out]
            if got != exp:
                mech = "cursor-ahead" if (got[:len(got) - len(exp)] and got[len(got) - len(exp):] == exp) else "stream"
                fails.append(("C16/subscribe-%s" % mech,
                              "run %s subscriber %d %r: yielded %r, the events above %d %sare %r"
                              % (r, i, spec, got, k, "" if incl else "(internal ones filtered) ", exp)))
            elif finished != closed:
                fails.append(("C16/subscribe-close", "run %s subscriber %d %r: closed=%r but the log %s a terminal "
                              "event above %d" % (r, i, spec, finished, "has" if closed else "has not", k)))
        # (3) resume: for every pair of bare subscriptions (k0 <= k): seen<=k ++ after(k) == all
        bare = [(c[0], [(s, p) for s, p, _ in out]) for c, (spec, out, _) in zip(want, got_subs)
                if c[0] != "resolve" and spec[0] == "store"]
        for k0, o0 in bare:
            for k1, o1 in bare:
                if k0 <= k1:
                    seen = [(s, p) for s, p in o0 if s <= k1]
                    if any(is_term_kind(appended[r][s][1]) for s, _ in seen):
                        continue
                    if seen + o1 != o0:
                        fails.append(("C16/resume", "run %s: stream after %d cut at %d = %r, reconnecting after %d "
                                      "gives %r, uninterrupted stream is %r" % (r, k0, k1, seen, k1, o1, o0)))
    for a in res.anomalies:
        fails.append(("C16/livelock" if a.startswith("livelock") else "C16/anomaly", a))
    return fails


def case_stats(ops):
    """coverage counters of one generated case"""
    st = dict(appends=0, subs=0, base_subs=0, resolves=0, nexts=0, ticks=0, queries=0, limited_queries=0,
              cursor_ahead=0, cursor_now=0, cursor_negative=0, terminal_mid_log=0, events_after_terminal=0,
              resolve_now=0, internal_events=0, filtered_streams=0, subclass_terminals=0,
              late_events_below_cursor=0)
    n = {r: 0 for r in RUNS}
    term = {r: False for r in RUNS}
    ahead = {r: [] for r in RUNS}
    for op in ops:
        if op[0] == "tick":
            st["ticks"] += 1
            continue
        r, kind = op[0], op[1]
        if kind == "append":
            st["appends"] += 1
            if term[r]:
                st["events_after_terminal"] += 1
            if op[2][0] in TERM:
                term[r] = True
                if op[2][0] != "stop":
                    st["subclass_terminals"] += 1
            if op[2][0] == "internal":
                st["internal_events"] += 1
            st["late_events_below_cursor"] += sum(1 for k in ahead[r] if n[r] <= k)
            n[r] += 1
        elif kind in ("sub", "resolve"):
            k = op[2]
            if kind == "sub":
                st["subs"] += 1
                st["base_subs"] += op[3] == "base"
            else:
                st["resolves"] += 1
                st["resolve_now"] += k is None
                st["filtered_streams"] += not op[3]
            if k is not None:
                if k >= n[r]:
                    st["cursor_ahead"] += 1
                    ahead[r].append(k)
                elif k == n[r] - 1:
                    st["cursor_now"] += 1
                elif k < -1:
                    st["cursor_negative"] += 1
        elif kind == "next":
            st["nexts"] += 1
        elif kind == "query":
            st["queries"] += 1
            st["limited_queries"] += op[3] is not None
    for r in RUNS:
        if term[r]:
            st["terminal_mid_log"] += 1
    return st


# ---- _stream_events: which cursor a request asks for ---------------------------------------------
def classify_int(s):
    try:
        return int(s)
    except ValueError:
        return None


def cursor_cases():
    """every combination of the sse flag, the after_sequence parameter and the Last-Event-ID header from
    small pools, run through the real _stream_events (source slice) with a recording
    _resolve_event_stream; returns (coq terms, descriptions, monitor failures)"""
    from suites import sseclient as SC

    api_cls = SC.load_api()
    recorded = []

    async def recorder(self, handler_id, *, after_sequence, include_internal, include_qualified_name):
        recorded.append(after_sequence)
        return None

    api = type("_CursorProbe", (api_cls,), {"_resolve_event_stream": recorder})()
    api._sse_heartbeat_interval = None

    class Req:
        def __init__(self, q, h):
            self.path_params = {"handler_id": "h"}
            self.query_params = q
            self.headers = h

    sses = [None, "true", "false", "TRUE", "0"]
    afters = [None, "now", "NOW", "Now", "-1", "0", "17", "-5", " 3 ", "3.5", "abc", ""]
    leis = [None, "4", "-1", "x", "", "12"]
    exprs, descr, fails = [], [], []

    async def main():
        for sse in sses:
            for a in afters:
                for lei in leis:
                    q = {}
                    if sse is not None:
                        q["sse"] = sse
                    if a is not None:
                        q["after_sequence"] = a
                    h = {} if lei is None else {"last-event-id": lei}
                    del recorded[:]
                    try:
                        await api._stream_events(Req(q, h))
                        got = [9]
                    except SC._HTTPException as e:
                        if e.status_code == 400:
                            got = [0]
                        elif e.status_code == 204 and recorded:
                            got = [1] if recorded[0] is None else [2, recorded[0]]
                        else:
                            got = [9, e.status_code]
                    is_sse = (sse or "true").lower() == "true"
                    if a is None or a.lower() == "now":
                        ga, pa = ("PAbsent" if a is None else "PNow"), None
                    else:
                        n = classify_int(a)
                        ga, pa = ("PGarbage", "bad") if n is None else ("(PInt %s)" % gz(n), n)
                    if lei is None:
                        gl, pl = "LAbsent", None
                    else:
                        n = classify_int(lei)
                        gl, pl = ("LGarbage", None) if n is None else ("(LInt %s)" % gz(n), n)
                    exprs.append("cursor_case %s %s %s %s" % ("true" if is_sse else "false", ga, gl, gzlist(got)))
                    descr.append(dict(sse=sse, after_sequence=a, last_event_id=lei, observed=got))
                    # the statement: Last-Event-ID (SSE mode, integer) takes priority, else the parameter
                    want = [0] if pa == "bad" else (
                        [2, pl] if (is_sse and pl is not None) else ([1] if pa is None else [2, pa]))
                    if got != want:
                        fails.append(("C16/stream-cursor", "sse=%r after_sequence=%r Last-Event-ID=%r: the handler "
                                      "asked for %r, expected %r (0 = HTTP 400, 1 = now, 2 k = cursor k)"
                                      % (sse, a, lei, got, want)))

    vloop.run(main(), auto=False)
    return exprs, descr, fails



# ---- several store objects on one database (two server processes, or a server before and after a restart) --------
def two_objects_case(rng, scratch, tag):
    """2-3 SqliteWorkflowStore objects on the SAME database file append to the same runs in a random interleaving
    (per-call and single-connection modes); afterwards a fresh object reads the logs back and subscribes from random
    cursors.  C16 on the real outputs: sequences are 0,1,2,... in append order with no gap and no duplicate, a reader
    from cursor k gets exactly the events after k.  Returns (failures, facts)."""
    path = os.path.join(scratch, "ev2_%s.db" % tag)
    for suffix in ("", "-wal", "-shm", "-journal"):
        if os.path.exists(path + suffix):
            os.remove(path + suffix)
    nobj = rng.choice([2, 2, 3])
    single = rng.random() < 0.4
    plan = [(rng.randrange(nobj), rng.choice(RUNS)) for _ in range(rng.randint(4, 14))]
    out = []

    async def main():
        objs = [SqliteWorkflowStore(path, poll_interval=POLL, single_connection=single) for _ in range(nobj)]
        appended = {r: [] for r in RUNS}
        pid = 0
        try:
            for o, r in plan:
                pid += 1
                await objs[o].append_event(r, envelope("plain", pid))
                appended[r].append(pid)
            reader = SqliteWorkflowStore(path, poll_interval=POLL, single_connection=False)
            for r in RUNS:
                evs = await reader.query_events(r)
                seqs = [e.sequence for e in evs]
                pids = [env_pid(e.event) for e in evs]
                if seqs != list(range(len(appended[r]))) or pids != appended[r]:
                    out.append("run %s: %d events appended through %d store objects on one database (order of objects %s): "
                               "stored sequences %s carrying appends %s, expected 0..%d carrying %s"
                               % (r, len(appended[r]), nobj, [o for o, rr in plan if rr == r], seqs, pids, len(appended[r]) - 1, appended[r]))
                    continue
                if appended[r]:
                    k = rng.randrange(-1, len(appended[r]))
                    got = await reader.query_events(r, after_sequence=k)
                    if [e.sequence for e in got] != list(range(k + 1, len(appended[r]))):
                        out.append("run %s: reading after cursor %d gives sequences %s" % (r, k, [e.sequence for e in got]))
        finally:
            for st_ in objs:
                conn = getattr(st_, "_persistent_conn", None)
                if conn is not None:
                    try:
                        conn.close()
                    except Exception:  # noqa: BLE001
                        pass

    vloop.run(main(), auto=False)
    return out, dict(objects=nobj, appends=len(plan), single_connection=single,
                     alternations=sum(1 for a, b in zip(plan, plan[1:]) if a[0] != b[0] and a[1] == b[1]))


# ---- two subscribers of one run, one of them goes away (monitor only) ----------------------------------------
def subscriber_leaves_case(rng, backend, scratch, tag):
    """Subscribers A and B follow the same run; after some events A disconnects (its generator is closed) or
    reconnects; more events are appended: B must still be handed every one of them, in order, within the store's
    poll interval.  Returns (failures, facts)."""
    n1, n2 = rng.randint(0, 2), rng.randint(1, 3)
    reconnect = rng.random() < 0.5
    out = []

    async def main():
        store = make_store(backend, scratch, tag + "_sl")
        base_poll = AbstractWorkflowStore.poll_interval
        AbstractWorkflowStore.poll_interval = POLL
        pid = 0
        try:
            a = store.subscribe_events("r", after_sequence=-1)
            b = store.subscribe_events("r", after_sequence=-1)
            got_b = []

            async def nxt(gen):
                item = await asyncio.wait_for(gen.__anext__(), 20 * POLL + 5)
                return item[0] if isinstance(item, tuple) else item.sequence
            for _ in range(n1):
                pid += 1
                await store.append_event("r", envelope("plain", pid))
            for _ in range(n1):
                await nxt(a)
                got_b.append(await nxt(b))
            # both are now parked waiting for the next event; start their reads, then A goes away
            ta = asyncio.ensure_future(nxt(a))
            tb = asyncio.ensure_future(nxt(b))
            await asyncio.sleep(0)
            ta.cancel()
            await asyncio.gather(ta, return_exceptions=True)
            await a.aclose()
            if reconnect:
                a = store.subscribe_events("r", after_sequence=n1 - 1)
            for _ in range(n2):
                pid += 1
                await store.append_event("r", envelope("plain", pid))
            try:
                got_b.append(await tb)
                for _ in range(n2 - 1):
                    got_b.append(await nxt(b))
            except asyncio.TimeoutError:
                out.append("subscriber B of run r received sequences %s and then nothing for %s s although %d events were "
                           "appended (%d before and %d after subscriber A %s)"
                           % (got_b, 20 * POLL + 5, n1 + n2, n1, n2, "reconnected" if reconnect else "disconnected"))
            else:
                if got_b != list(range(n1 + n2)):
                    out.append("subscriber B received sequences %s, expected %s" % (got_b, list(range(n1 + n2))))
            for g in (a, b):
                try:
                    await g.aclose()
                except BaseException:  # noqa: BLE001
                    pass
        finally:
            AbstractWorkflowStore.poll_interval = base_poll
            conn = getattr(store, "_persistent_conn", None)
            if conn is not None:
                conn.close()

    vloop.run(main())
    return out, dict(before=n1, after=n2, reconnect=reconnect, backend=backend)
