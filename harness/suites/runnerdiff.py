"""L2 correspondence suite `runnerdiff`: the real _ControlLoopRunner vs Model/Runner.v.

A generated workflow is run by the real engine under the gate-driven driver.  The real run is turned into the
model's environment actions -- a worker finished (with the ticks its body sent and its result list), an external tick
was delivered, time advanced -- in the order the real run consumed them; everything else (feedback ticks from commands,
idle checks, delayed retries, waiter time-outs, what is buffered / pulled / woken when) the model has to produce itself.
Compared inside Coq, exactly: the complete processed-tick log, the complete published stream and the outcome."""
import itertools
from fractions import Fraction

import boot  # noqa: F401
from core import gz, glist, gopt
from suites import engine as E, engine_probe as PR, reducer as R
from suites.wfevents import TY
from workflows import retry_policy as rp
from workflows.errors import WorkflowCancelledByUser, WorkflowTimeoutError
from workflows.events import StepFailedEvent, StopEvent
from workflows.runtime.types.results import (AddCollectedEvent, AddWaiter, DeleteCollectedEvent, DeleteWaiter,
                                             StepWorkerFailed, StepWorkerResult)
from workflows.runtime.types.ticks import (TickAddEvent, TickCancelRun, TickIdleCheck, TickPublishEvent, TickStepResult,
                                           TickTimeout, TickWaiterTimeout)

SC = 4            # model time unit = 1/4 s (all generated delays are multiples of 0.25)
HEADER = R.HEADER + "From WF Require Import Model.Runner Model.RunnerEnc.\n"


class Auto(dict):
    """interning table: unknown names get the next free id"""

    def __missing__(self, k):
        v = max([x for x in self.values() if x < 90] + [0]) + 1
        self[k] = v
        return v


def sc(t):
    f = Fraction(t) * SC
    assert f.denominator == 1, "time %r is not a multiple of 1/%d" % (t, SC)
    return int(f)


class Enc:
    """encoders / Gallina printers with per-case interning (steps, waiter ids, attribute keys, messages)"""

    def __init__(self, step_names):
        self.STEP = {n: i + 1 for i, n in enumerate(step_names)}
        self.WID, self.KEY, self.XM, self.BUF = Auto(), Auto({"k": 1}), Auto(), Auto({"default": 1})

    # ---- values
    def attrs(self, e):
        return [(self.KEY[k], v) for k, v in e._data.items() if k != "i" and isinstance(v, int) and not isinstance(v, bool)]

    def e_ev(self, e):
        if isinstance(e, StepFailedEvent):
            return [7, e.input_event.get("i", 0), 4, 1, self.STEP[e.step_name], 2, e.attempts, 3, sc(e.elapsed_seconds),
                    4, TY[type(e.input_event)]]
        a = self.attrs(e)
        return [TY[type(e)], e.get("i", 0) or 0, len(a)] + [z for p in a for z in p]

    def g_ev(self, e):
        enc = self.e_ev(e)
        n = enc[2]
        at = [(enc[3 + 2 * i], enc[4 + 2 * i]) for i in range(n)]
        return "{| ety := %s; eid := %s; eattrs := %s |}" % (gz(enc[0]), gz(enc[1]), glist("(%s,%s)" % (gz(a), gz(b)) for a, b in at))

    def x(self, ex):
        return [{ValueError: 1, RuntimeError: 2, KeyError: 3}.get(type(ex), 0), self.XM[str(ex)]]

    def g_x(self, ex):
        a = self.x(ex)
        return "{| xty := %d; xmsg := %d |}" % (a[0], a[1])

    def eo(self, f, o):
        return [0] if o is None else [1] + f(o)

    def el(self, f, l):
        return [len(l)] + [z for x in l for z in f(x)]

    def e_att(self, t):
        return (self.e_ev(t.event) + self.eo(lambda n: [n], t.attempts) + self.eo(lambda v: [sc(v)], t.first_attempt_at)
                + self.eo(self.x, t.last_exception) + self.eo(lambda v: [sc(v)], t.last_failed_at)
                + self.el(lambda p: [self.STEP[p[0]], p[1]], list((t.recovery_counts or {}).items())))

    def g_att(self, t):
        return "{| a_ev := %s; a_att := %s; a_first := %s; a_exn := %s; a_failed := %s; a_rc := %s |}" % (
            self.g_ev(t.event), gopt(gz, t.attempts), gopt(lambda v: gz(sc(v)), t.first_attempt_at),
            gopt(self.g_x, t.last_exception), gopt(lambda v: gz(sc(v)), t.last_failed_at),
            glist("(%d,%d)" % (self.STEP[k], v) for k, v in (t.recovery_counts or {}).items()))

    def e_result(self, r):
        if isinstance(r, StepWorkerResult):
            if r.result is None:
                return [1, 2]
            if hasattr(r.result, "_data"):
                return [1, 1] + self.e_ev(r.result)
            return [1, 3]
        if isinstance(r, StepWorkerFailed):
            return [2] + self.x(r.exception) + [sc(r.failed_at)]
        if isinstance(r, AddCollectedEvent):
            return [3, self.BUF[r.event_id]] + self.e_ev(r.event)
        if isinstance(r, DeleteCollectedEvent):
            return [4, self.BUF[r.event_id]]
        if isinstance(r, AddWaiter):
            reqs = [(self.KEY[k], v) for k, v in r.requirements.items()]
            return ([5, self.WID[r.waiter_id]] + self.eo(self.e_ev, r.waiter_event) + [len(reqs)] + [z for p in reqs for z in p]
                    + self.eo(lambda v: [sc(v)], r.timeout) + [TY[r.event_type]])
        if isinstance(r, DeleteWaiter):
            return [6, self.WID[r.waiter_id]]
        raise TypeError(r)

    def g_result(self, r):
        if isinstance(r, StepWorkerResult):
            if r.result is None:
                return "RResult ONone"
            if hasattr(r.result, "_data"):
                return "RResult (OEvent %s)" % self.g_ev(r.result)
            return "RResult OOther"
        if isinstance(r, StepWorkerFailed):
            return "RFailed %s %s" % (self.g_x(r.exception), gz(sc(r.failed_at)))
        if isinstance(r, AddCollectedEvent):
            return "RAddColl %d %s" % (self.BUF[r.event_id], self.g_ev(r.event))
        if isinstance(r, DeleteCollectedEvent):
            return "RDelColl %d" % self.BUF[r.event_id]
        if isinstance(r, AddWaiter):
            return "RAddWaiter %d %s %s %s %d" % (
                self.WID[r.waiter_id], gopt(self.g_ev, r.waiter_event),
                glist("(%d,%s)" % (self.KEY[k], gz(v)) for k, v in r.requirements.items()),
                gopt(lambda v: gz(sc(v)), r.timeout), TY[r.event_type])
        if isinstance(r, DeleteWaiter):
            return "RDelWaiter %d" % self.WID[r.waiter_id]
        raise TypeError(r)

    def e_tick(self, t):
        if isinstance(t, TickAddEvent):
            return [1] + self.e_att(t) + self.eo(lambda s: [self.STEP.get(s, 99)], t.step_name)
        if isinstance(t, TickStepResult):
            return [2, self.STEP[t.step_name], t.worker_id] + self.e_ev(t.event) + self.el(self.e_result, t.result)
        if isinstance(t, TickCancelRun):
            return [3]
        if isinstance(t, TickPublishEvent):
            return [4] + self.e_ev(t.event)
        if isinstance(t, TickTimeout):
            return [5, sc(t.timeout)]
        if isinstance(t, TickWaiterTimeout):
            return [6, self.STEP.get(t.step_name, 99), self.WID[t.waiter_id]]
        if isinstance(t, TickIdleCheck):
            return [7]
        return [8]

    def g_tick(self, t):
        if isinstance(t, TickAddEvent):
            return "TAdd %s %s" % (self.g_att(t), gopt(lambda s: gz(self.STEP.get(s, 99)), t.step_name))
        if isinstance(t, TickCancelRun):
            return "TCancel"
        if isinstance(t, TickTimeout):
            return "TTimeout %s" % gz(sc(t.timeout))
        raise TypeError(t)

    def e_pub(self, ev):
        from workflows.events import (StepStateChanged, UnhandledEvent, WorkflowCancelledEvent, WorkflowFailedEvent,
                                      WorkflowIdleEvent, WorkflowTimedOutEvent)
        if isinstance(ev, StepStateChanged):
            st = {"preparing": 0, "running": 1, "not_running": 2}[ev.step_state.value]
            wid = [0] if ev.worker_id == "<enqueued>" else [1, int(ev.worker_id)]
            n = ev.input_event_name
            inty = R.TYN[n] if n in R.TYN else R.TYSTR[n]
            return [1, self.STEP[ev.name], st] + wid + [inty] + R.e_out(ev.output_event_name)
        if isinstance(ev, UnhandledEvent):
            return [3, R.TYN[ev.event_type]] + self.eo(lambda s: [self.STEP.get(s, 99)], ev.step_name) + [int(ev.idle)]
        if isinstance(ev, WorkflowIdleEvent):
            return [4]
        if isinstance(ev, WorkflowFailedEvent):
            return [5, self.STEP[ev.step_name]] + self.x(ev.exception) + [ev.attempts, sc(ev.elapsed_seconds)]
        if isinstance(ev, WorkflowTimedOutEvent):
            return [6, sc(ev.timeout)] + self.el(lambda s: [self.STEP[s]], ev.active_steps)
        if isinstance(ev, WorkflowCancelledEvent):
            return [7]
        return [2] + self.e_ev(ev)


def policy_term(spec):
    """the retry policies of the templates as a model oracle (pid = index of the step, 1-based)"""
    arms = []
    for i, (n, s) in enumerate(sorted(spec["steps"].items())):
        p = s.get("policy")
        if p is None:
            continue
        w, st = p.wait, p.stop
        assert isinstance(w, rp.wait_fixed) and isinstance(st, rp.stop_after_attempt), "unsupported policy in runnerdiff"
        arms.append("if Z.eqb pid %d then (if Z.ltb f %d then PRetry %d else PStop)" % (i + 1, st.max_attempt_number, sc(w.wait)))
    return "(fun pid _ f _ => %s)" % (" else ".join(arms) + (" else PStop" if arms else "PStop"))


def state_term(spec, enc):
    ws = []
    for i, (n, s) in enumerate(sorted(spec["steps"].items())):
        ws.append("(%d, w0 (sc %s %d%%nat %s))" % (enc.STEP[n], glist(gz(TY[c]) for c in s["accepts"]), s.get("num_workers", 4),
                                                   "(Some %d)" % (i + 1) if s.get("policy") is not None else "None"))
    return "(mkstate [] [] %s)" % glist(ws)


def run_case(template, seed):
    """returns (coq expression : Z, info) or (None, reason) when the run is outside the modelled fragment"""
    PR.install()
    PR.reset()
    spec, rec, obs = E.run_case(template, seed)
    if (spec.get("timeout") and not spec.get("rd_exit")) or spec.get("handlers"):
        return None, "workflow timeout / handlers are outside the runner model"
    log = [(t, now) for (_, t, now) in PR.TICKLOG]
    PR.reset()
    if not log or not obs.done or obs.stuck:
        return None, "run not finished (or ended by the driver because nothing could happen any more)"
    enc = Enc(sorted(spec["steps"]))
    start_tick, t0 = log[0]
    # which invocation produced which step-result tick, and what did it send
    enters, sends = {}, {}
    for r in rec.log:
        if r["kind"] == "enter":
            enters.setdefault((r["step"], r["i"]), []).append(r["inv"])
        elif r["kind"] == "send":
            sends.setdefault((r["step"], r["inv"]), []).append(r["i"])
    add_by_i = {}
    for t, _ in log[1:]:
        if isinstance(t, TickAddEvent) and not t.attempts and not isinstance(t.event, StepFailedEvent):
            add_by_i.setdefault(t.event.get("i", None), t)
    sent_ids = {i for l in sends.values() for i in l}
    returned_ids = {r["i"] for r in rec.log if r["kind"] == "return"}
    seen = {}
    acts, clock = [], sc(t0)
    for t, now in log[1:]:
        ts = sc(now)
        if ts > clock:
            acts.append("AAdvance %d" % (ts - clock))
            clock = ts
        if isinstance(t, TickStepResult):
            key = (t.step_name, t.event.get("i", None))
            k = seen.get(key, 0)
            seen[key] = k + 1
            invs = enters.get(key, [])
            inv = invs[k] if k < len(invs) else None
            mine = [add_by_i[i] for i in sends.get((t.step_name, inv), []) if i in add_by_i]
            acts.append("AWorkerDone %d %d%%nat %s %s" % (enc.STEP[t.step_name], t.worker_id, glist(enc.g_tick(x) for x in mine),
                                                         glist(enc.g_result(r) for r in t.result)))
        elif isinstance(t, TickAddEvent) and not t.attempts and not isinstance(t.event, StepFailedEvent) \
                and t.event.get("i", None) not in sent_ids and t.event.get("i", None) not in returned_ids:
            acts.append("ADeliver (%s)" % enc.g_tick(t))     # sent from outside the run (driver externals)
        elif isinstance(t, (TickCancelRun, TickTimeout)):
            # cancel_run puts TickCancelRun into the run's mailbox; the workflow timeout is a wake-up the real loop schedules
            # at its start (the model has no such wake-up: the tick is delivered by the environment at the instant it fired -
            # the templates keep that instant apart from every retry / waiter wake-up)
            acts.append("ADeliver (%s)" % enc.g_tick(t))
        elif isinstance(t, TickPublishEvent):
            return None, "tick kind outside the compared fragment"
    ticks_enc = [len(log)] + [z for t, _ in log for z in enc.e_tick(t)]
    pubs = [e for e in obs.stream if not isinstance(e, tuple)]
    # a StopEvent result is published as the event itself
    pubs_enc = [len(pubs)] + [z for e in pubs for z in enc.e_pub(e)]
    if obs.exception is None:
        out = [1] + enc.e_ev(obs.result_event) if getattr(obs, "result_event", None) is not None else None
        stop = next((e for e in reversed(obs.stream) if isinstance(e, StopEvent)), None)
        out = [1] + enc.e_ev(stop)
    elif isinstance(obs.exception, WorkflowCancelledByUser):
        out = [3]
    elif isinstance(obs.exception, WorkflowTimeoutError):
        out = [4]
    else:
        out = [2] + enc.x(obs.exception)
    expect = ticks_enc + pubs_enc + out
    expr = "runner_case %s %s %s %d %s %s" % (policy_term(spec), state_term(spec, enc), enc.g_ev(start_tick.event), sc(t0),
                                              glist(acts), glist(gz(z) for z in expect))
    info = dict(ticks=len(log), actions=len(acts), published=len(pubs), idle_checks=sum(1 for t, _ in log if isinstance(t, TickIdleCheck)),
                delayed=sum(1 for a in acts if a.startswith("AAdvance")), externals=sum(1 for a in acts if a.startswith("ADeliver")),
                outcome=out[0], expect=expect, acts=acts)
    return expr, info
