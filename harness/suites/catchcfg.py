"""L0 correspondence suite `catchcfg`: real representation.validate._collect_catch_error_handlers on generated
StepConfig tables vs Model/Handlers.v (handler descriptors + step->handler routing table, or ValidationError)."""
import boot  # noqa: F401
from core import gz, glist
from workflows.decorators import StepConfig
from workflows.errors import WorkflowValidationError
from workflows.representation.validate import _collect_catch_error_handlers

HEADER = """From Coq Require Import List ZArith Bool.
Import ListNotations.
From WF Require Import Model.Engine Model.Handlers.
Open Scope Z_scope.
"""
NAMES = ["a", "b", "c", "d", "e", "f", "g"]
NID = {n: i + 1 for i, n in enumerate(NAMES)}
NID["zz"] = 99


def mkcfg(role="step", for_steps=None, maxr=1):
    return StepConfig(accepted_events=[], event_name="ev", return_types=[], context_parameter=None, num_workers=1,
                      retry_policy=None, resources=[], role=role, catch_error_for_steps=for_steps,
                      catch_error_max_recoveries=maxr)


def gen(rng):
    n = rng.randint(1, 6)
    names = NAMES[:n]
    rng.shuffle(names)
    nh = rng.choice([0, 1, 1, 2, 2, 3])
    hs = names[:min(nh, n)]
    plain = [x for x in names if x not in hs]
    steps = {}
    bad = rng.random() < 0.3
    pool = list(plain)
    rng.shuffle(pool)
    wild_used = False
    decl = []
    for nm in names:
        if nm in hs:
            if (not wild_used and rng.random() < 0.4) or (bad and rng.random() < 0.15):
                fs = None
                wild_used = True
            else:
                k = rng.randint(0, 2)
                fs = [pool.pop() for _ in range(min(k, len(pool)))]
                if bad and rng.random() < 0.5:
                    fs.append(rng.choice(["zz", nm] + hs + plain))
            maxr = rng.choice([1, 1, 2, 3]) if not (bad and rng.random() < 0.2) else rng.choice([0, -1])
            steps[nm] = mkcfg("catch_error", fs, maxr)
            decl.append((nm, (fs, maxr)))
        else:
            steps[nm] = mkcfg()
            decl.append((nm, None))
    return steps, decl


def real(steps):
    try:
        hs, tbl = _collect_catch_error_handlers(steps)
    except WorkflowValidationError:
        return None
    return hs, tbl


def encode(steps, r):
    if r is None:
        return [-1]
    hs, tbl = r
    out = [0, len(hs)]
    for nm, h in hs.items():
        assert nm == h.step_name
        out.append(NID[nm])
        out += [-1] if h.for_steps is None else [len(h.for_steps)] + [NID[t] for t in h.for_steps]
        out.append(h.max_recoveries)
    keys = [k for k in steps if k in tbl]
    extra = [k for k in tbl if k not in steps]
    out.append(len(keys) + len(extra))
    for k in keys + extra:
        out += [NID[k], NID[tbl[k]]]
    return out


def g_decl(decl):
    def one(d):
        nm, h = d
        if h is None:
            return "(%d, None)" % NID[nm]
        fs, m = h
        f = "None" if fs is None else "(Some %s)" % glist(gz(NID[t]) for t in fs)
        return "(%d, Some (%s, %s))" % (NID[nm], f, gz(m))
    return glist(one(d) for d in decl)


def monitor(steps, decl, r):
    """the routing statement of the property on the real table"""
    out = []
    if r is None:
        return out
    hs, tbl = r
    hnames = set(hs)
    for nm in steps:
        scoped = [h for h in hs.values() if h.for_steps is not None and nm in h.for_steps]
        wild = [h for h in hs.values() if h.for_steps is None]
        if nm in hnames:
            want = None
        elif scoped:
            want = scoped[0].step_name
        elif wild:
            want = wild[0].step_name
        else:
            want = None
        if tbl.get(nm) != want:
            out.append("step %s is routed to %s, the property demands %s" % (nm, tbl.get(nm), want))
    return out
