"""L0 correspondence suite `handlers` (C24): the real MemoryWorkflowStore and SqliteWorkflowStore handler
operations (update/upsert, update_handler_status, query, delete, eviction) vs Model/HandlerStore.v.

A history is a list of operations over small pools (so that ids, run ids and filters collide); it is
executed on a real memory store and on a real SQLite store (file under ctx.scratch), each compared with
its own model inside Coq (memory: exact result order, final dict and eviction queue; SQLite: results
as sets).  Monitors evaluate the property's own clauses on the real outputs, using a dump of the
store taken outside the store API before and after every operation."""
import asyncio
import os
import sqlite3
import typing
from datetime import datetime, timezone

import boot
import vloop
from core import gz

boot.enable_server()
from llama_agents.server._store import abstract_workflow_store as AWS                 # noqa: E402
from llama_agents.server._store.abstract_workflow_store import HandlerQuery, PersistentHandler  # noqa: E402
from llama_agents.server._store.memory_workflow_store import MemoryWorkflowStore      # noqa: E402
from llama_agents.server._store.sqlite.sqlite_workflow_store import SqliteWorkflowStore  # noqa: E402

HEADER = """From Coq Require Import List ZArith Bool String.
From WF Require Import Generated Model.HandlerStore.
Import ListNotations.
Open Scope string_scope.
Open Scope list_scope.
Open Scope Z_scope.
"""

IDS = ["h%d" % i for i in range(6)]
RUNS = ["r%d" % i for i in range(5)]
WFS = ["w0", "w1", "w2"]
ERRS = ["e0", "e1"]
STATUSES = list(typing.get_args(AWS.Status))
TERMINAL = [s for s in STATUSES if AWS.is_terminal_status(s)]
T0 = datetime(2026, 1, 1, tzinfo=timezone.utc)


def idx(pool, v):
    return None if v is None else pool.index(v)


# ---- canonical handler: (id, wf, status, run|None, idle, err|None, done) as small ints ----
def canon(h):
    return (IDS.index(h.handler_id), WFS.index(h.workflow_name), STATUSES.index(h.status), idx(RUNS, h.run_id),
            h.idle_since is not None, idx(ERRS, h.error), h.completed_at is not None)


# updated_at of successive writes, in no particular order and with different UTC offsets: `update` replaces the row
# whatever the timestamps say (the field is not part of the canonical form; it only travels with the write)
from datetime import timedelta as _td  # noqa: E402
_UPD = [None, T0, T0 + _td(hours=1), T0 - _td(hours=1), None,
        (T0 + _td(minutes=30)).astimezone(timezone(_td(hours=5))), T0 - _td(days=1), T0 + _td(seconds=1),
        (T0 - _td(minutes=10)).astimezone(timezone(-_td(hours=7)))]
_upd_ix = [0]


def build(c):
    i, w, s, r, idle, e, done = c
    _upd_ix[0] += 1
    return PersistentHandler(handler_id=IDS[i], workflow_name=WFS[w], status=STATUSES[s],
                             run_id=None if r is None else RUNS[r], error=None if e is None else ERRS[e],
                             idle_since=T0 if idle else None, completed_at=T0 if done else None,
                             updated_at=_UPD[(_upd_ix[0] * 7) % len(_UPD)])


def g_opt(o):
    return "None" if o is None else "(Some %s)" % gz(o)


def g_bool(b):
    return "true" if b else "false"


def g_handler(c):
    i, w, s, r, idle, e, done = c
    return "(H %d %d %d %s %s %s %s)" % (i, w, s, g_opt(r), g_bool(idle), g_opt(e), g_bool(done))


def g_hlist(l):
    return "[%s]" % "; ".join(g_handler(c) for c in l)


def g_zl(o):
    return "None" if o is None else "(Some [%s])" % "; ".join(str(x) for x in o)


def g_query(q):
    ids, runs, wfs, sts, idle = q
    return "(Q %s %s %s %s %s)" % (g_zl(ids), g_zl(runs), g_zl(wfs), g_zl(sts),
                                   "None" if idle is None else "(Some %s)" % g_bool(idle))


def g_op(o):
    k = o[0]
    if k == "update":
        return "OUpdate %s" % g_handler(o[1])
    if k == "query":
        return "OQuery %s" % g_query(o[1])
    if k == "delete":
        return "ODelete %s" % g_query(o[1])
    run, st, err, idle = o[1]
    return "OSetStatus (SU %d %s %s %s)" % (run, g_opt(st), g_opt(err), "None" if idle is None else "(Some %s)" % g_bool(idle))


def g_out(r):
    if r is None:
        return "RUnit"
    if isinstance(r, tuple):
        return "RCount (-999)"        # the operation raised: never what the model answers
    if isinstance(r, int):
        return "RCount %d" % r
    return "RList %s" % g_hlist(r)


def py_query(q):
    ids, runs, wfs, sts, idle = q
    return HandlerQuery(handler_id_in=None if ids is None else [IDS[i] for i in ids],
                        run_id_in=None if runs is None else [RUNS[i] for i in runs],
                        workflow_name_in=None if wfs is None else [WFS[i] for i in wfs],
                        status_in=None if sts is None else [STATUSES[i] for i in sts],
                        is_idle=idle)


# ---- the property's notion of "matches every given filter" (declarative, on canonical handlers) ----
def accepts(q, c):
    ids, runs, wfs, sts, idle = q
    i, w, s, r, is_idle, _e, _d = c
    if ids is not None and i not in ids:
        return False
    if runs is not None and (r is None or r not in runs):
        return False
    if wfs is not None and w not in wfs:
        return False
    if sts is not None and s not in sts:
        return False
    if idle is not None and idle != is_idle:
        return False
    return True


def has_filter(q):
    return any(f is not None for f in q)


# ---------------------------------------------------------------------------------------------
# generators
def gen_filter(rng, n, p_none=0.6, p_empty=0.08):
    r = rng.random()
    if r < p_none:
        return None
    if r < p_none + p_empty:
        return []
    k = rng.choice([1, 1, 2, 3])
    return [rng.randrange(n) for _ in range(k)]        # duplicates allowed


def gen_query(rng, need_filter):
    while True:
        q = (gen_filter(rng, len(IDS)), gen_filter(rng, len(RUNS)), gen_filter(rng, len(WFS), 0.75),
             gen_filter(rng, len(STATUSES), 0.7), rng.choice([None, None, None, True, False]))
        if has_filter(q) or not need_filter:
            return q


def gen_handler(rng, p_terminal=0.5, ids=None):
    i = rng.randrange(ids or len(IDS))
    term = rng.random() < p_terminal
    s = STATUSES.index(rng.choice(TERMINAL)) if term else STATUSES.index("running")
    r = rng.random()
    run = (i % len(RUNS)) if r < 0.7 else (None if r < 0.82 else rng.randrange(len(RUNS)))
    return (i, rng.randrange(len(WFS)), s, run, rng.random() < 0.3,
            rng.choice([None, None, None, 0, 1]), term if rng.random() < 0.9 else not term)


def gen_history(rng, kind):
    """kind: 'equiv' (both backends compared with each other: deletes carry a filter),
             'nofilter' (may contain delete(HandlerQuery())), 'retention' (memory, small max_completed)"""
    n = rng.choice([3, 6, 10, 14, 20])
    ops = []
    if kind == "retention":
        w = dict(update=0.62, query=0.08, delete=0.12, status=0.18)
        pt = 0.7
    else:
        w = dict(update=0.4, query=0.3, delete=0.15, status=0.15)
        pt = 0.5
    for _ in range(n):
        r = rng.random()
        if r < w["update"]:
            ops.append(("update", gen_handler(rng, pt)))
        elif r < w["update"] + w["query"]:
            ops.append(("query", gen_query(rng, False)))
        elif r < w["update"] + w["query"] + w["delete"]:
            if kind == "nofilter" and rng.random() < 0.35:
                ops.append(("delete", (None, None, None, None, None)))
            else:
                ops.append(("delete", gen_query(rng, True)))
        else:
            st = rng.choice([None, None] + list(range(len(STATUSES))) * 2)
            ops.append(("status", (rng.randrange(len(RUNS)), st, rng.choice([None, None, 0, 1]),
                                   rng.choice([None, None, True, False]))))
    return ops


# ---------------------------------------------------------------------------------------------
# drivers for the real stores
class SqliteBox:
    """one real SqliteWorkflowStore on a scratch file, emptied between histories by direct SQL"""
    def __init__(self, scratch):
        os.makedirs(scratch, exist_ok=True)
        self.path = os.path.join(scratch, "c24_handlers.sqlite")
        for suf in ("", "-wal", "-shm"):
            if os.path.exists(self.path + suf):
                os.remove(self.path + suf)
        self.store = SqliteWorkflowStore(self.path)
        self.raw = sqlite3.connect(self.path)
        self.raw.execute("PRAGMA synchronous=OFF")

    def reset(self):
        self.raw.execute("DELETE FROM handlers")
        self.raw.commit()

    def dump(self):
        rows = self.raw.execute(
            "SELECT handler_id, workflow_name, status, run_id, idle_since, error, completed_at "
            "FROM handlers ORDER BY rowid").fetchall()
        self.raw.commit()
        return [(IDS.index(a), WFS.index(b), STATUSES.index(c), idx(RUNS, d), e is not None, idx(ERRS, f), g is not None)
                for a, b, c, d, e, f, g in rows]

    def close(self):
        self.raw.close()


class MemBox:
    def __init__(self, mx):
        self.store = MemoryWorkflowStore(max_completed=mx)

    def dump(self):
        return [canon(h) for h in self.store.handlers.values()]

    def queue(self):
        return [IDS.index(x) for x in self.store._terminal_queue]


async def _apply(store, o):
    k = o[0]
    if k == "update":
        await store.update(build(o[1]))
        return None
    if k == "query":
        return [canon(h) for h in await store.query(py_query(o[1]))]
    if k == "delete":
        return int(await store.delete(py_query(o[1])))
    run, st, err, idle = o[1]
    kw = {}
    if idle is not None:
        kw["idle_since"] = T0 if idle else None
    await store.update_handler_status(RUNS[run], status=None if st is None else STATUSES[st],
                                      error=None if err is None else ERRS[err], **kw)
    return None


def run_history(loop, box, ops):
    """-> (outputs, dumps) dumps[k] = store contents before op k (dumps[len] = final)"""
    outs, dumps = [], [box.dump()]

    async def go():
        for o in ops:
            try:
                outs.append(await _apply(box.store, o))
            except Exception as e:  # noqa: BLE001 - a store operation raising is an outcome to report
                outs.append(("raised", "%s: %s" % (type(e).__name__, e)))
                dumps.append(box.dump())
                break
            dumps.append(box.dump())
    loop.run_until_complete(go())
    return outs, dumps


def new_loop():
    loop = vloop.VirtualLoop()
    loop.auto = True
    asyncio.set_event_loop(loop)
    return loop


# ---------------------------------------------------------------------------------------------
# monitors: the property's clauses on the real outputs
def upsert(rows, c):
    out, hit = [], False
    for r in rows:
        if r[0] == c[0]:
            out.append(c)
            hit = True
        else:
            out.append(r)
    if not hit:
        out.append(c)
    return out


def is_term(c):
    return STATUSES[c[2]] in TERMINAL


def apply_status(c, su):
    _run, st, err, idle = su
    i, w, s, r, is_idle, e, done = c
    if st is not None:
        s = st
        if STATUSES[st] in TERMINAL:
            done = True
    if err is not None:
        e = err
    if idle is not None:
        is_idle = idle
    return (i, w, s, r, is_idle, e, done)


def monitor_history(backend, ops, outs, dumps, mx):
    """-> list of (finding_key, description, op index).  backend 'memory' | 'sqlite'.
    mx: max_completed of the memory store (None = unlimited); SQLite never evicts."""
    fails = []
    last = {}            # handler index -> op index of its last update (recency of completion)
    for k, o in enumerate(ops):
        if k >= len(outs):
            break
        before, after, out = dumps[k], dumps[k + 1], outs[k]
        kind = o[0]
        if isinstance(out, tuple):
            fails.append(("C24/operation-raised", "%s: %r raised %s (store before: %r)" % (backend, o, out[1], before), k))
            break
        if len(set(c[0] for c in after)) != len(after):
            fails.append(("C24/duplicate-handler-id", "%s: two rows with one handler_id after %r" % (backend, o), k))
        if kind == "query":
            want = sorted(c for c in before if accepts(o[1], c))
            if any(f == [] for f in o[1][:4]) and out != []:
                fails.append(("C24/empty-filter-matches", "%s: query with an empty filter list returned %r" % (backend, out), k))
            elif sorted(out) != want:
                fails.append(("C24/query-not-exact", "%s: query %r returned %r, the matching handlers are %r"
                              % (backend, o[1], sorted(out), want), k))
            if sorted(after) != sorted(before):
                fails.append(("C24/query-mutates", "%s: query changed the store" % backend, k))
        elif kind == "delete":
            if not has_filter(o[1]):
                continue        # outside the property (and the backends deliberately differ)
            match = [c for c in before if accepts(o[1], c)]
            keep = [c for c in before if not accepts(o[1], c)]
            if out != len(match) or sorted(after) != sorted(keep):
                fails.append(("C24/delete-not-exact", "%s: delete %r returned %r and left %r; matching were %r"
                              % (backend, o[1], out, sorted(after), sorted(match)), k))
            for c in match:
                last.pop(c[0], None)
        else:
            if kind == "update":
                news = [o[1]]
            else:
                cands = [c for c in before if c[3] == o[1][0]]
                if not cands:
                    if sorted(after) != sorted(before):
                        fails.append(("C24/status-update-of-unknown-run", "%s: update_handler_status for an unknown "
                                      "run changed the store" % backend, k))
                    continue
                # several handlers may share the run id: which of them is updated is not specified
                news = [apply_status(c, o[1]) for c in cands]
            verdicts = []
            for new in news:
                stored = upsert(before, new)
                t_last = dict(last)
                t_last[new[0]] = k
                if backend == "sqlite" or mx is None or not is_term(new):
                    want = stored                              # nothing may be evicted
                else:
                    done = sorted((c for c in stored if is_term(c)), key=lambda c: t_last.get(c[0], -1))
                    evict = set(c[0] for c in (done[:-mx] if mx > 0 else done)) if len(done) > mx else set()
                    want = [c for c in stored if c[0] not in evict]
                if sorted(after) == sorted(want):
                    verdicts = None
                    last = t_last
                    break
                lost_live = [c for c in want if c not in after and not is_term(c)]
                lost_done = [c for c in want if c not in after and is_term(c)]
                extra = [c for c in after if c not in want]
                capped = backend == "memory" and mx is not None
                if lost_live and capped:
                    key, why = "C24/non-terminal-handler-lost", "non-terminal handlers %r disappeared" % lost_live
                elif lost_done and capped:
                    key, why = ("C24/recent-completion-evicted",
                                "completed handlers %r are among the %s most recently completed but were evicted"
                                % (lost_done, mx))
                elif capped and extra and all(is_term(c) for c in extra) and is_term(new):
                    key, why = "C24/old-completion-kept", "completed handlers %r are beyond the %d most recent" % (extra, mx)
                else:
                    key, why = "C24/upsert-not-exact", "store is %r, expected %r" % (sorted(after), sorted(want))
                verdicts.append((key, "%s: after %r: %s (store before: %r)" % (backend, o, why, before), k))
            if verdicts:
                fails.append(verdicts[0])
                last[news[0][0]] = k
            for c in before:
                if c[0] not in [x[0] for x in after]:
                    last.pop(c[0], None)
    return fails
