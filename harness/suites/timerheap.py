"""The run loop's timer heap: _ControlLoopRunner.schedule_tick / pop_due_ticks / next_wakeup_timeout (control_loop.py) on
generated operation sequences, compared inside Coq with Model/Runner.v's insert_wakeup / due (the functions the run-loop
theorems of Proofs/RunnerFire.v are about), and evaluated directly against the statement: a pop returns exactly the
scheduled ticks whose time has come, in (time, scheduling order), and leaves the others."""
import types

import boot  # noqa: F401
import workflows.runtime.control_loop as CL
from workflows.events import Event
from workflows.runtime.types.ticks import TickAddEvent, TickTimeout, TickWaiterTimeout

SC = 4   # model time unit = 1/4 s

HEADER = ("From Coq Require Import List ZArith Bool.\nImport ListNotations.\n"
          "From WF Require Import Model.Engine Model.Runner.\nOpen Scope Z_scope.\n"
          "Inductive top := OSched (t : Z) (uid : Z) | OPop (now : Z) | ONext (now : Z).\n"
          "Definition uid_of (t : tick) : Z := match t with TWaiterTimeout _ u => u | _ => -1 end.\n"
          "Fixpoint trun (ops : list top) (wk : list (Z * Z * tick)) (seq : Z) : list Z :=\n"
          "  match ops with\n"
          "  | [] => []\n"
          "  | OSched t u :: r => trun r (insert_wakeup (t, seq, TWaiterTimeout 0 u) wk) (seq + 1)\n"
          "  | OPop now :: r => let dr := due now wk in (Z.of_nat (length (fst dr)) :: map uid_of (fst dr)) ++ trun r (snd dr) seq\n"
          "  | ONext now :: r => (match wk with [] => -1 | (t, _, _) :: _ => Z.max 0 (t - now) end) :: trun r wk seq\n"
          "  end.\n"
          "Fixpoint ldiff (a b : list Z) (k : Z) : Z := match a, b with [] , [] => 0 | x :: a', y :: b' => if Z.eqb x y then ldiff a' b' (k + 1) else k | _, _ => k end.\n"
          "Definition timer_case (ops : list top) (expect : list Z) : Z := ldiff (trun ops [] 0) expect 1.\n")


class _E(Event):
    pass


def gen_ops(rng):
    n = rng.randint(3, 14)
    ops, now, uid = [], 0, 0
    steps = ["a", "a", "b", "c"]
    for _ in range(n):
        r = rng.random()
        if r < 0.55:
            uid += 1
            # delays that tie, that grow and that shrink: a long delay scheduled before a short one, three pending at once
            t = now + rng.choice([0, 1, 2, 2, 4, 6, 8, 13, 20])
            kind = rng.choice(["retry", "retry", "retry", "waiter", "timeout"])
            ops.append(("sched", t, uid, kind, rng.choice(steps)))
        elif r < 0.85:
            now += rng.choice([0, 0, 1, 2, 3, 5, 9])
            ops.append(("pop", now))
        else:
            ops.append(("next", now + rng.choice([0, 1, 3])))
    ops.append(("pop", now + rng.choice([0, 4, 30])))
    return ops


def run_real(ops):
    """-> (expected encoding of the real outputs, monitor failures, facts)"""
    obj = types.SimpleNamespace(scheduled_wakeups=[], _wakeup_sequence=0)
    R = CL._ControlLoopRunner
    uid_of = {}
    pending = []           # reference: (time, seq, uid)
    seq = 0
    enc, fails = [], []
    facts = dict(pops=0, popped=0, max_pending=0, pops_leaving_some=0, long_before_short=0)
    for op in ops:
        if op[0] == "sched":
            _, t, uid, kind, step = op
            if kind == "retry":
                tick = TickAddEvent(event=_E(i=uid), step_name=step, attempts=1, first_attempt_at=0.0)
            elif kind == "waiter":
                tick = TickWaiterTimeout(step_name=step, waiter_id="w%d" % uid)
            else:
                tick = TickTimeout(timeout=float(uid))
            uid_of[id(tick)] = uid
            obj._keep = getattr(obj, "_keep", []) + [tick]
            R.schedule_tick(obj, tick, t / SC)
            if any(p[0] > t for p in pending):
                facts["long_before_short"] += 1
            pending.append((t, seq, uid))
            seq += 1
            facts["max_pending"] = max(facts["max_pending"], len(pending))
        elif op[0] == "pop":
            now = op[1]
            got = [uid_of.get(id(x), -1) for x in R.pop_due_ticks(obj, now / SC)]
            want = [u for (t, s, u) in sorted(pending) if t <= now]
            pending = [p for p in pending if p[0] > now]
            facts["pops"] += 1
            facts["popped"] += len(got)
            facts["pops_leaving_some"] += 1 if pending else 0
            enc += [len(got)] + got
            if got != want:
                early = [u for u in got if u not in want]
                missed = [u for u in want if u not in got]
                fails.append("pop_due_ticks(now=%s) returned ticks %s; the scheduled ticks whose time has come are %s%s%s"
                             % (now / SC, got, want,
                                (": %s were handed out BEFORE their time" % early) if early else "",
                                (": %s are due and were NOT handed out" % missed) if missed else ""))
                # keep the reference in step with what the implementation still holds
                left = sorted((int(round(t * SC)), s, uid_of.get(id(x), -1)) for (t, s, x) in obj.scheduled_wakeups)
                pending = left
        else:
            now = op[1]
            r = R.next_wakeup_timeout(obj, now / SC)
            want = None if not pending else max(0, min(p[0] for p in pending) - now) / SC
            enc.append(-1 if r is None else int(round(r * SC)))
            if r != want:
                fails.append("next_wakeup_timeout(now=%s) = %r, the earliest pending wake-up gives %r" % (now / SC, r, want))
    return enc, fails, facts


def coq_case(ops, enc):
    def g(o):
        if o[0] == "sched":
            return "OSched %d %d" % (o[1], o[2])
        if o[0] == "pop":
            return "OPop %d" % o[1]
        return "ONext %d" % o[1]
    z = lambda v: ("(%d)" % v) if v < 0 else str(v)   # noqa: E731
    return "timer_case [%s] [%s]" % ("; ".join(g(o) for o in ops), "; ".join(z(v) for v in enc))


def run_suite(ctx, n, pid, theorems):
    import random
    rng = random.Random(ctx.seed * 71 + 13)
    exprs, fails, tot = [], [], {}
    for i in range(n):
        ops = gen_ops(rng)
        enc, why, facts = run_real(ops)
        exprs.append(coq_case(ops, enc))
        for k, v in facts.items():
            tot[k] = tot.get(k, 0) + v
        ctx.count(1, ("timerheap", tuple(o[0] for o in ops), facts["max_pending"], facts["popped"]))
        if i < 2:
            ctx.sample(dict(kind="timer-heap-ops", ops=[list(o) for o in ops][:8], outputs=enc[:12]), limit=10)
        for w in why[:1]:
            fails.append(dict(why=w, ops=[list(o) for o in ops]))
    res = ctx.run_cases("timerheap", HEADER, exprs, shard=200)
    bad = [i for i, z in enumerate(res) if z != 0]
    ctx.suite("timerheap", cases=n, disagreements=len(bad), monitor_failures=len(fails), **tot)
    ctx.disagreements += len(bad)
    ctx.disagreements_checked += len(bad)
    for f in fails[:2]:
        ctx.violation("%s fails on the run loop's timer heap: %s" % (pid, f["why"]),
                      dict(kind="implementation-monitor/L0", suite="timerheap", input=f,
                           replay_hint="suites.timerheap.run_real(ops) replays the operations (times in 1/4 s) on the real "
                                       "schedule_tick / pop_due_ticks / next_wakeup_timeout"))
    if bad and not fails:
        ctx.violation("model/implementation disagreement in suite timerheap (no property-level failing input found)",
                      dict(suite="timerheap", theorem=theorems + " (Model/Runner.v insert_wakeup / due no longer match the run loop's timer heap)",
                           coq_cases=[exprs[i] for i in bad[:3]]), found_input=False)
    ctx.require_coverage("timerheap", "pops_leaving_some", tot.get("pops_leaving_some", 0), 20)
    ctx.require_coverage("timerheap", "long_before_short", tot.get("long_before_short", 0), 20)
    return len(bad), len(fails)
