"""Harness-side observation of the real _ControlLoopRunner (no source hooks in /repo): wraps
process_command / _process_tick of the runner and send_event of the asyncio adapters so that, at the
moment an idle announcement is published, the monitor can see what the runner still holds:
scheduled wake-ups, the tick buffer, and ticks delivered to the run but not yet processed."""
import boot  # noqa: F401
from workflows.events import UnhandledEvent, WorkflowIdleEvent
from workflows.plugins import basic as B
from workflows.runtime import control_loop as CL
from workflows.runtime.types.commands import CommandPublishEvent
from workflows.runtime.types.ticks import TickAddEvent, TickIdleCheck, TickWaiterTimeout

IDLE_SNAPS = []     # dicts, appended at each idle publication
DELIVERED = {}      # run_id -> {id(tick): tick} delivered to the run's mailbox and not yet processed
RUNNERS = {}        # run_id -> the live _ControlLoopRunner (its .state is the live engine state)
TICKLOG = []        # (run_id, tick, wall-clock reading) for every tick handed to _process_tick, in order
_installed = False


def reset():
    IDLE_SNAPS.clear()
    DELIVERED.clear()
    RUNNERS.clear()
    TICKLOG.clear()


def install():
    global _installed
    if _installed:
        return
    _installed = True
    orig_cmd = CL._ControlLoopRunner.process_command
    orig_tick = CL._ControlLoopRunner._process_tick

    async def process_command(self, command):
        if isinstance(command, CommandPublishEvent):
            ev = command.event
            if isinstance(ev, WorkflowIdleEvent) or (isinstance(ev, UnhandledEvent) and ev.idle):
                pend = DELIVERED.get(self.adapter.run_id, {})
                IDLE_SNAPS.append(dict(
                    kind=type(ev).__name__,
                    run_id=self.adapter.run_id,
                    retries_scheduled=[(t.step_name, type(t.event).__name__, t.attempts)
                                       for _, _, t in self.scheduled_wakeups if isinstance(t, TickAddEvent)],
                    waiter_timeouts_scheduled=sum(1 for _, _, t in self.scheduled_wakeups
                                                  if isinstance(t, TickWaiterTimeout)),
                    buffered=[type(t).__name__ for t in self.tick_buffer if not isinstance(t, TickIdleCheck)],
                    delivered_unprocessed=[(type(t).__name__, type(getattr(t, "event", None)).__name__)
                                           for t in pend.values()],
                    queued=sum(len(w.queue) for w in self.state.workers.values()),
                    in_progress=sum(len(w.in_progress) for w in self.state.workers.values()),
                    worker_tasks=len(self.worker_tasks) + len(self._pending_workers),
                    is_running=self.state.is_running,
                ))
        return await orig_cmd(self, command)

    async def _process_tick(self, tick):
        RUNNERS[self.adapter.run_id] = self
        import time as _t
        TICKLOG.append((self.adapter.run_id, tick, _t.time()))
        DELIVERED.get(self.adapter.run_id, {}).pop(id(tick), None)
        return await orig_tick(self, tick)

    CL._ControlLoopRunner.process_command = process_command
    CL._ControlLoopRunner._process_tick = _process_tick

    for cls in (B.InternalAsyncioAdapter, B.ExternalAsyncioAdapter):
        orig_send = cls.send_event

        def mk(orig_send):
            async def send_event(self, tick):
                DELIVERED.setdefault(self.run_id, {})[id(tick)] = tick
                return await orig_send(self, tick)
            return send_event
        cls.send_event = mk(orig_send)
