"""Correspondence suite `statesched` (C20): concurrent operations on the real InMemoryStateStore and
SqliteStateStore under the deterministic virtual loop vs Model/StateSched.v.

A case = an initial state, 2-4 concurrent operations (set / set_state / get / an edit_state block
that awaits between its parts) and a driver schedule.  Each operation is an asyncio task; the
driver starts a task or opens the next gate of its edit block, then lets the loop run until nothing
is ready.  The real code logs which task executed a segment when; that log is the schedule given to
the model, whose final state must equal the real one (`check_sched_case`).  The property itself —
the final state is the result of SOME serial execution — is evaluated in Python over all
permutations of the operations."""
import asyncio
import contextvars
import copy
import itertools

import boot

boot.enable_server()

import core  # noqa: E402
import vloop  # noqa: E402
from core import glist, gbool  # noqa: E402
from suites import statestore as S  # noqa: E402
from workflows.context.state_store import InMemoryStateStore  # noqa: E402

HEADER_IMPORTS = """From Coq Require Import List ZArith Bool.
Import ListNotations.
From WF Require Import Model.StateStore Model.StateSched Model.StateSchedFifo.
Open Scope Z_scope.
"""



class NeverFinished(Exception):
    """some operations of a schedule are still pending after every gate was opened and the loop ran to quiescence
    again and again: a deadlock, or work handed to something the event loop does not drive (a thread)"""


def header():
    return S.header().replace(S.HEADER_IMPORTS, HEADER_IMPORTS)


def source_locks():
    """[get; set; set_state; edit_state] locking flags of both stores, from the tree under check."""
    import re
    import translate
    import translate_statestore as TS
    try:
        txt = TS.extract(translate.src)
    except (TS.Err, translate.TranslateError, SyntaxError):
        return None
    out = {}
    for name in ("memory", "sqlite"):
        m = re.search(r"statestore_%s_locked : list bool := \[([^\]]*)\]" % name, txt)
        out[name] = [x.strip() == "true" for x in m.group(1).split(";")]
    return out


def gcop(o):
    k = o[0]
    if k == "set":
        return "(CSet %s %s)" % (S.gs(o[1]), S.gval(o[2]))
    if k == "set_state":
        return "(CSetState %s)" % S.gsobj((o[1], o[2]))
    if k == "edit":
        return "(CEdit %s)" % glist(glist(S.gedit(e) for e in part) for part in o[1])
    if k == "get":
        return "(CGet %s)" % S.gs(o[1])
    raise core.CheckError("statesched: unknown op %r" % (o,))


def case_expr(store, locks, init, ops, log, fin, fifo=None):
    """Guard-lock model replaying the observed segment order; with `fifo` (the driver's pokes interleaved
    with the segments each poke made run) the FIFO-lock model instead."""
    mk = "(%s %s)" % ("mem_task" if store == "memory" else "sql_task", glist(gbool(b) for b in locks))
    return "%s %s %s %s %s %s" % (
        "check_sched_case" if fifo is None else "check_fifo_case",
        mk, S.gsobj(init), glist(gcop(o) for o in ops),
        glist("%d%%nat" % i for i in (log if fifo is None else fifo)), S.gsobj(fin))


# ---- real execution -------------------------------------------------------------------------------
def run_real(make_store, init, ops, sched, inherit=False):
    """Returns (log of executed segments, final state dump, per-op outcome, fifo schedule).
    inherit: a task started while some edit_state block is suspended inside is created with a copy of the contextvars
    context of that block (as if the block's body had spawned it) - who holds the store lock must not depend on it.
    fifo schedule: every driver poke, followed by the segments that ran before the loop went quiet
    (the poked task's own segment first, then tasks the lock was handed to)."""
    async def go():
        store = make_store()
        await store.set_state(S.build_obj(init[0], init[1]))
        log, outcome, fifo = [], {}, []
        gates = {i: [asyncio.Event() for _ in range(len(o[1]) - 1)] for i, o in enumerate(ops) if o[0] == "edit"}
        opened = {i: 0 for i in gates}
        tasks = {}
        inside_ctx = {}

        async def body(i, o):
            try:
                if o[0] == "edit":
                    async with store.edit_state() as st:
                        inside_ctx[i] = contextvars.copy_context()
                        for k, part in enumerate(o[1]):
                            S.apply_edits_real(st, part)
                            log.append(i)
                            if k < len(o[1]) - 1:
                                await gates[i][k].wait()
                elif o[0] == "set":
                    try:
                        await store.set(o[1], copy.deepcopy(o[2]))
                    finally:
                        log.append(i)
                elif o[0] == "set_state":
                    try:
                        await store.set_state(S.build_obj(o[1], o[2]))
                    finally:
                        log.append(i)
                else:
                    try:
                        await store.get(o[1], None)
                    finally:
                        log.append(i)
                outcome[i] = "ok"
            except Exception as e:  # noqa: BLE001
                outcome[i] = S.classify_exc(e)
            finally:
                inside_ctx.pop(i, None)

        def poke(i):
            if i not in tasks:
                parent = next((c for j, c in inside_ctx.items() if j != i), None) if inherit else None
                if parent is not None:
                    tasks[i] = asyncio.get_running_loop().create_task(body(i, ops[i]), context=parent.copy())
                else:
                    tasks[i] = asyncio.get_running_loop().create_task(body(i, ops[i]))
            elif i in gates and opened[i] < len(gates[i]):
                gates[i][opened[i]].set()
                opened[i] += 1

        async def drive(i):
            k = len(log)
            poke(i)
            await vloop.settle()
            ran = log[k:]
            fifo.extend(ran if i in ran else [i] + ran)

        for i in sched:
            await drive(i)
        for _ in range(64):                      # flush: let everything finish
            if len(tasks) == len(ops) and all(t.done() for t in tasks.values()):
                break
            for i in range(len(ops)):
                await drive(i)
        else:
            raise NeverFinished([i for i in range(len(ops)) if i not in tasks or not tasks[i].done()])
        if hasattr(store, "_state"):
            fin = S.dump_state(store._state)
        else:
            fin = S.dump_state(await store.get_state())
        return log, fin, outcome, fifo

    return vloop.run(go(), auto=False)


def serial_outcomes(init, ops):
    outs = []
    for perm in itertools.permutations(range(len(ops))):
        orc = S.Oracle(init[0])
        orc.d = copy.deepcopy(init[1])
        for i in perm:
            o = ops[i]
            if o[0] == "set":
                orc.set(o[1], copy.deepcopy(o[2]))
            elif o[0] == "set_state":
                orc.merge(o[1], o[2])
            elif o[0] == "edit":
                for part in o[1]:
                    S.Oracle.edits(orc.cls, orc.d, part)
        outs.append((perm, (list(orc.cls), orc.d)))
    return outs


# ---- generator -----------------------------------------------------------------------------------
def gen_case(rng, i):
    if i % 8 == 5:
        # typed inherited state: an edit block that changes fields only the stored (child) class has is suspended
        # while a set_state with an object of the PARENT class (merge into the stored child) starts; the edit
        # completes first, then the merge is written
        chain = [1, 2]
        cls = S.BY_CHAIN[(1, 2)]
        d = {f: copy.deepcopy(cls.model_fields[f].default) for f in cls.model_fields}
        init = (list(chain), copy.deepcopy(d))
        parts = [[("put", "p2", rng.choice([6, 7, "x"]))], [("put", "p1", {"k": rng.choice([1, 2])})]]
        if rng.random() < 0.5:
            parts.append([("add", "p2", 1)])
        ops = [("edit", parts), ("set_state", [1], {"g1": rng.choice([None, 3, "g"]), "cnt": rng.choice([1, 4])})]
        if rng.random() < 0.4:
            ops.append(("get", "p2"))
        sched = [0, 1] + [0] * len(parts) + [1, 1] + [k for k in range(len(ops))] * 2
        return init, ops, sched
    chain = [0] if rng.random() < 0.65 else [1, 2]
    orc = S.Oracle(chain)
    if chain == [0]:
        orc.d = {rng.choice(S.KEYS[:5]): S.gen_value(rng, 1) for _ in range(rng.randint(0, 3))}
        if rng.random() < 0.6:
            orc.d["n"] = rng.choice([0, 1, 10])
    else:
        cls = S.BY_CHAIN[tuple(chain)]
        orc.d = {f: S.gen_value(rng, 1, S.field_kind(cls, f)) if rng.random() < 0.5
                 else copy.deepcopy(cls.model_fields[f].default) for f in cls.model_fields}
    init = (list(chain), copy.deepcopy(orc.d))
    n = rng.choice([2, 2, 3, 3, 4])
    ops = []
    kinds = ["edit", "set_state", "set", "get"]
    ctr = "n" if chain == [0] else "cnt"
    if i % 4 == 0:                                   # a read-modify-write counter in an edit block that is
        parts = [[("add", ctr, rng.choice([1, 2, 5]))] for _ in range(rng.choice([2, 2, 3]))]
        for part in parts:                           # suspended across a write of the same key
            if rng.random() < 0.3:
                part.extend(S.gen_edits(rng, orc.cls, orc.d)[:1])
        ops.append(("edit", parts))
        if rng.random() < 0.6:
            ops.append(("set", ctr, rng.choice([10, 20, 100])))
        elif chain == [0]:
            ops.append(("set_state", [0], {ctr: rng.choice([10, 20, 100])}))
        else:
            ops.append(gen_op(rng, orc, "set_state"))
        if rng.random() < 0.5:
            ops.append(("get", ctr))                 # an unlocked read (SQLite) interleaves with the block
    elif i % 2 == 0:                                 # an edit block suspended across another writer
        ops.append(gen_edit(rng, orc, min_parts=2))
        ops.append(gen_op(rng, orc, rng.choice(["set_state", "set_state", "set", "edit"])))
        if rng.random() < 0.4:
            ops.append(gen_op(rng, orc, "get"))
    while len(ops) < n:
        ops.append(gen_op(rng, orc, rng.choice(kinds)))
    rng.shuffle(ops)
    segs = sum(len(o[1]) if o[0] == "edit" else 1 for o in ops)
    sched = [rng.randrange(len(ops)) for _ in range(rng.randint(len(ops), segs + len(ops) + 2))]
    if i % 2 == 0 and rng.random() < 0.7:            # start the multi-part edit first, then the others
        first = next(k for k, o in enumerate(ops) if o[0] == "edit" and len(o[1]) > 1)
        sched = [first] + [k for k in range(len(ops)) if k != first] + sched
    return init, ops, sched


def gen_edit(rng, orc, min_parts=1):
    parts = [S.gen_edits(rng, orc.cls, orc.d) for _ in range(rng.randint(min_parts, 3))]
    if orc.cls == [0] and rng.random() < 0.6:        # read-modify-write counter: the classic lost update
        parts[rng.randrange(len(parts))].append(("add", "n", rng.choice([1, 2, 5])))
    elif orc.cls != [0] and rng.random() < 0.6:
        parts[rng.randrange(len(parts))].append(("add", "cnt", rng.choice([1, 2, 5])))
    return ("edit", parts)


def gen_op(rng, orc, k):
    if k == "edit":
        return gen_edit(rng, orc)
    if k == "set_state":
        if orc.cls == [0]:
            items = {rng.choice(S.KEYS[:5] + ["n"]): S.gen_value(rng, 1) for _ in range(rng.randint(0, 3))}
            return ("set_state", [0], items) if rng.random() < 0.93 else ("set_state", [9], {"u1": 1})
        ch, items = S.gen_incoming(rng, orc.cls, orc.cls)
        return ("set_state", ch, items)
    if k == "set":
        p = S.gen_path(rng, orc)
        kind = "any"
        if orc.closed() and p in S.BY_CHAIN[tuple(orc.cls)].model_fields:
            kind = S.field_kind(S.BY_CHAIN[tuple(orc.cls)], p)
        return ("set", p, S.gen_value(rng, 1, kind))
    return ("get", S.gen_path(rng, orc))


# ---- a writer that is cancelled while it waits for the store lock (monitor only) ------------------------------
def cancel_case(rng, make_store, init):
    """A: an edit_state block of two parts, suspended between them (it holds the store lock).  B: a writer that has to
    wait for the lock and is CANCELLED while waiting.  C: another writer, started afterwards.  Then A's block finishes.
    The cancelled writer has no effect, and the final state is the result of a serial order of A and C.  Returns
    (failure text or None, facts)."""
    orc = S.Oracle(init[0])
    orc.d = copy.deepcopy(init[1])
    ctr = "n" if init[0] == [0] else "cnt"
    a = ("edit", [[("add", ctr, rng.choice([1, 2]))], [("add", ctr, rng.choice([5, 7]))]])
    b = gen_op(rng, orc, rng.choice(["set", "set_state", "edit"]))
    c = ("set", ctr, rng.choice([100, 200]))
    box = {}

    async def go():
        store = make_store()
        await store.set_state(S.build_obj(init[0], init[1]))
        gate = asyncio.Event()

        async def run_a():
            async with store.edit_state() as st:
                S.apply_edits_real(st, a[1][0])
                await gate.wait()
                S.apply_edits_real(st, a[1][1])

        async def run_op(o):
            if o[0] == "edit":
                async with store.edit_state() as st:
                    for part in o[1]:
                        S.apply_edits_real(st, part)
            elif o[0] == "set":
                await store.set(o[1], copy.deepcopy(o[2]))
            else:
                await store.set_state(S.build_obj(o[1], o[2]))
        ta = asyncio.ensure_future(run_a())
        await vloop.settle()
        tb = asyncio.ensure_future(run_op(b))
        await vloop.settle()
        box["b_waited"] = not tb.done()
        tb.cancel()
        await vloop.settle()
        tc = asyncio.ensure_future(run_op(c))
        await vloop.settle()
        box["c_done_inside_a"] = tc.done()
        gate.set()
        await vloop.settle()
        res = await asyncio.gather(ta, tb, tc, return_exceptions=True)
        box["errors"] = [None if not isinstance(r, BaseException) or isinstance(r, asyncio.CancelledError) else repr(r) for r in res]
        box["fin"] = S.dump_state(store._state) if hasattr(store, "_state") else S.dump_state(await store.get_state())

    vloop.run(go(), auto=False)
    outs = [o for _, o in serial_outcomes(init, [a, c])]
    why = None
    if not box["b_waited"]:
        pass          # B did not have to wait (it failed early): nothing to say
    elif box["c_done_inside_a"]:
        why = ("a writer started while another task's edit_state block was suspended completed INSIDE that block (the store "
               "lock was free although the block held it) after a waiting writer had been cancelled")
    elif any(e for e in box["errors"][0::2]):
        why = "the edit block or the later writer failed: %s" % box["errors"]
    elif box["fin"] not in [(list(cl), d) for cl, d in outs] and tuple(box["fin"]) not in [tuple(o) for o in outs]:
        why = "final state %r is not the result of a serial order of the edit block and the later writer (the cancelled writer has no effect)" % (box["fin"],)
    return why, dict(a=a, b=b, c=c, waited=box["b_waited"])
