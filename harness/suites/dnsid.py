"""L0 correspondence suite `dnsid` (C32): the real `find_deployment_id` / `_append_random_suffix`
(k8s_client.py, loaded by source slice because the module imports `kubernetes`), the call site in
`create_deployment`, and the real `_DNS_1035_RE` vs Model/DnsId.v.

The slice executes the repository's own text: the named module-level definitions are cut out of
the file with `ast` and compiled into a fresh namespace whose `random` and
`validate_deployment_id` are scripted oracles (draw tables / answer tables that are also handed to
the model), or the real `random` module behind a recording proxy (monitor runs)."""
import ast
import os
import random as _random
import re
import string

import boot
import core
from core import gz, glist, gzlist, gbool, gopt

K8S = os.path.join(boot.PK, "llama-agents-control-plane/src/llama_agents/control_plane/k8s_client.py")

HEADER = """From Coq Require Import List ZArith Bool.
Import ListNotations.
From WF Require Import Generated Model.DnsId.
Open Scope Z_scope.
"""


# ---- source-slice loader --------------------------------------------------------------------
class Slice:
    """namespace with the real find_deployment_id/_append_random_suffix/reserved_deployment_ids
    and `derive` = the two statements of create_deployment that compute the id."""

    def __init__(self):
        try:
            tree = ast.parse(open(K8S).read(), filename=K8S)
        except (OSError, SyntaxError) as e:
            raise core.CheckError("cannot load %s: %r" % (K8S, e))
        want = {"_append_random_suffix", "find_deployment_id"}
        body, found = [], set()
        for n in tree.body:
            if isinstance(n, (ast.FunctionDef, ast.AsyncFunctionDef)) and n.name in want:
                body.append(n)
                found.add(n.name)
            elif isinstance(n, ast.Assign) and len(n.targets) == 1 and isinstance(n.targets[0], ast.Name) \
                    and n.targets[0].id == "reserved_deployment_ids":
                body.append(n)
                found.add("reserved_deployment_ids")
        missing = (want | {"reserved_deployment_ids"}) - found
        if missing:
            raise core.CheckError("slice loader: definitions missing from k8s_client.py: %s" % sorted(missing))
        # the id computation inside create_deployment: the `else:` branch that calls find_deployment_id
        cd = [n for n in tree.body if isinstance(n, ast.AsyncFunctionDef) and n.name == "create_deployment"]
        if len(cd) != 1:
            raise core.CheckError("slice loader: create_deployment not found")
        branch = None
        for n in ast.walk(cd[0]):
            if isinstance(n, ast.If) and n.orelse and any(
                    isinstance(c, ast.Call) and isinstance(c.func, ast.Name) and c.func.id == "find_deployment_id"
                    for s in n.orelse for c in ast.walk(s)):
                branch = n.orelse
        if branch is None:
            raise core.CheckError("slice loader: create_deployment no longer calls find_deployment_id in an else branch")
        # parameter = the name handed to find_deployment_id, result = the variable it is assigned to
        site = [(s, c) for s in branch for c in ast.walk(s)
                if isinstance(c, ast.Call) and isinstance(c.func, ast.Name) and c.func.id == "find_deployment_id"]
        if len(site) != 1 or not isinstance(site[0][0], ast.Assign) or len(site[0][0].targets) != 1 \
                or not isinstance(site[0][0].targets[0], ast.Name) or len(site[0][1].args) != 1 \
                or not isinstance(site[0][1].args[0], ast.Name):
            raise core.CheckError("slice loader: create_deployment's find_deployment_id call has an unexpected shape")
        fn = ast.parse("async def derive(%s):\n    pass\n    return %s\n"
                       % (site[0][1].args[0].id, site[0][0].targets[0].id)).body[0]
        fn.body = list(branch) + [fn.body[-1]]
        body.append(fn)
        mod = ast.Module(body=body, type_ignores=[])
        ast.fix_missing_locations(mod)
        self.ns = {"re": re, "random": _random}
        exec(compile(mod, "k8s_client_slice", "exec"), self.ns)

    def call(self, fname, args, kwargs, rnd, oracle):
        self.ns["random"] = rnd
        self.ns["validate_deployment_id"] = oracle
        coro = self.ns[fname](*args, **kwargs)
        try:
            coro.send(None)
        except StopIteration as e:
            return e.value
        except ValueError as e:
            if "already in use" in str(e):
                return None
            return Raised(e)
        except Exception as e:  # noqa: BLE001 - the real function crashed on this input
            return Raised(e)
        coro.close()
        raise core.CheckError("find_deployment_id suspended on something that is not the oracle")

    def suffix(self, b, max_length, rnd):
        self.ns["random"] = rnd
        return self.ns["_append_random_suffix"](b, max_length)


class Raised:
    """the real function raised something other than the documented 'already in use' ValueError"""

    def __init__(self, e):
        self.text = "%s: %s" % (type(e).__name__, e)

    def __repr__(self):
        return "<raised %s>" % self.text


class ScriptRandom:
    """random.choices / random.choice answered from a table: call n of choices uses hexd[n],
    the (at most one) choice call that follows uses letd[n]; a draw i selects pop[i % len(pop)]."""

    def __init__(self, table):
        self.table = table
        self.n = 0
        self.log = []
        self.letters_used = 0

    def choices(self, population, k=1):
        hexd = self.table[self.n][0] if self.n < len(self.table) else []
        out = [population[(hexd[j] if j < len(hexd) else 0) % len(population)] for j in range(k)]
        self.n += 1
        self.log.append("".join(out))
        return out

    def choice(self, population):
        i = self.table[self.n - 1][1] if 0 < self.n <= len(self.table) else 0
        self.letters_used += 1
        c = population[i % len(population)]
        self.log[-1] = c + self.log[-1][1:]
        return c


class RecordingRandom:
    """the real `random` module, recording what it returned (monitor runs)"""

    def __init__(self, seed):
        self.r = _random.Random(seed)
        self.n = 0
        self.log = []
        self.letters_used = 0

    def choices(self, population, k=1):
        out = self.r.choices(population, k=k)
        self.n += 1
        self.log.append("".join(out))
        return out

    def choice(self, population):
        c = self.r.choice(population)
        self.letters_used += 1
        self.log[-1] = c + self.log[-1][1:]
        return c


class Oracle:
    def __init__(self, answers=None, taken=None):
        self.answers, self.taken = answers, taken
        self.calls = []

    async def __call__(self, d):
        i = len(self.calls)
        self.calls.append(d)
        if self.taken is not None:
            return d not in self.taken
        return self.answers[i] if i < len(self.answers) else False


# ---- generators -----------------------------------------------------------------------------
LOW = string.ascii_lowercase
DIG = string.digits
UPPER = string.ascii_uppercase
# characters whose lower() is, or contains, an ASCII alphanumeric
TRICKY_ALNUM = ["K",      # KELVIN SIGN -> k
                "İ"]      # I WITH DOT ABOVE -> i + U+0307 (one alphanumeric and one separator)
SEPS = [" ", "  ", "_", ".", "-", "--", "---", "!", "/", "\n", "\t", "é", "ß", "ẞ", "日本",
        "́", "Σ", "ς", "\U0001f600", "Å", "ı", "@#$", " ", "—", "٠", "²",
        "Ａ", "１", "Ⅰ", "\x00", "\x7f", ":", "+", "~"]
RESERVED_HINT = ["validate-repository", "list-projects", "organizations", "version"]


def gen_word(rng, n, first=None):
    cs = [rng.choice(LOW + DIG) for _ in range(n)]
    if first == "digit" and n:
        cs[0] = rng.choice(DIG)
    if first == "letter" and n:
        cs[0] = rng.choice(LOW)
    return "".join(cs)


def gen_target(rng, total, first):
    """a sanitised form (words of [a-z0-9] joined by single hyphens) of exactly `total` characters"""
    if total <= 0:
        return ""
    out = ""
    while len(out) < total:
        room = total - len(out)
        if out:
            if room < 2:
                out += gen_word(rng, room)
                break
            out += "-"
            room -= 1
        w = min(room, rng.choice([1, 1, 2, 3, 5, 8, 13]))
        if room - w == 1:
            w += 1
        out += gen_word(rng, w, first if not out else None)
    return out


def place_hyphen(t, idx):
    """make position idx of the sanitised form a separator (keeping the form well shaped)"""
    if 0 < idx < len(t) - 1 and t[idx] != "-" and t[idx - 1] != "-" and t[idx + 1] != "-":
        return t[:idx] + "-" + t[idx + 1:]
    return t


def decorate(rng, t, wild):
    """a display name whose lower-cased alphanumeric runs are exactly the words of t"""
    out = []
    if rng.random() < 0.3:
        out.append(rng.choice(SEPS))
    for ch in t:
        if ch == "-":
            out.append("".join(rng.choice(SEPS) for _ in range(rng.choice([1, 1, 1, 2, 3]))))
        elif ch in LOW and rng.random() < (0.4 if wild else 0.1):
            out.append(ch.upper())
        elif ch == "k" and rng.random() < 0.5:
            out.append("K")
        else:
            out.append(ch)
    if rng.random() < 0.3:
        out.append("".join(rng.choice(SEPS) for _ in range(rng.choice([1, 2, 5]))))
    return "".join(out)


LENGTHS = [0, 0, 1, 1, 2, 2, 3, 3, 4, 5, 8, 20, 40, 55, 56, 57, 58, 59, 60, 61, 62, 63, 64, 65, 66, 70, 120, 200]


def gen_name(rng):
    """returns (name, kind)"""
    k = rng.random()
    if k < 0.08:
        r = rng.choice(RESERVED_HINT)
        v = rng.choice([r, r.upper(), r.title(), r + " ", r.replace("-", " "), r + "!", " " + r, r[:-1]])
        return v, "reserved-ish"
    if k < 0.16:
        # very short names around the suffix threshold, with separators and digits
        parts = [rng.choice(LOW + DIG + UPPER) for _ in range(rng.choice([0, 1, 1, 2, 2, 3]))]
        sep = rng.choice(SEPS + [""])
        v = rng.choice(["", rng.choice(SEPS)]) + sep.join(parts) + rng.choice(["", rng.choice(SEPS)])
        return v, "short"
    if k < 0.22:
        n = rng.choice([0, 1, 2, 3, 10, 63, 64, 100])
        return "".join(rng.choice(SEPS + TRICKY_ALNUM + [" "]) for _ in range(n)), "mostly-separators"
    if k < 0.30:
        n = rng.choice(LENGTHS)
        pool = LOW + DIG + UPPER + " -_." + "".join(s for s in SEPS if len(s) == 1) + "".join(TRICKY_ALNUM)
        return "".join(rng.choice(pool) for _ in range(n)), "random"
    total = rng.choice(LENGTHS)
    first = rng.choice(["letter", "letter", "digit", None])
    if first == "digit" and rng.random() < 0.7:
        total = max(0, total - 2)      # "d-" will be added: keep the boundary in reach
    t = gen_target(rng, total, first)
    if rng.random() < 0.5:
        off = 2 if (t[:1] in DIG and t) else 0
        t = place_hyphen(t, rng.choice([56, 57, 62, 63]) - off - rng.choice([0, 0, 1]))
    return decorate(rng, t, rng.random() < 0.3), "structured"


def gen_draw_table(rng, n):
    tab = []
    for _ in range(n):
        mode = rng.random()
        if mode < 0.35:
            hexd = [rng.randrange(0, 10)] + [rng.randrange(16) for _ in range(4)]      # digit first
        elif mode < 0.6:
            hexd = [rng.randrange(10, 16)] + [rng.randrange(16) for _ in range(4)]     # letter first
        else:
            hexd = [rng.choice([rng.randrange(16), rng.randrange(-50, 50), rng.randrange(10 ** 6)])
                    for _ in range(5)]
        tab.append((hexd, rng.choice([rng.randrange(6), rng.randrange(-20, 40)])))
    return tab


def gen_answers(rng):
    k = rng.random()
    if k < 0.5:
        return [True]
    if k < 0.94:
        n = rng.choice([1, 1, 2, 3, 5])
        return [False] * n + [True]
    if k < 0.97:
        n = rng.choice([97, 98])
        return [False] * n + [True]
    return []          # every candidate refused -> ValueError after the last attempt


def g_table(tab):
    return glist("(%s, %s)" % (gzlist(h), gz(l)) for h, l in tab)


def g_str(s):
    return gzlist([ord(c) for c in s])


# ---- case builders --------------------------------------------------------------------------
ALNUM = set(LOW + DIG)


def analyse(name):
    low = name.lower()
    al = [c for c in low if c in ALNUM]
    return low, al


def case_find(sl, rng, derive=False):
    name, kind = gen_name(rng)
    force = (rng.random() < 0.15) and not derive
    answers = gen_answers(rng)
    ndraw = (len(answers) + 2) if answers else 101
    tab = gen_draw_table(rng, min(ndraw, 8)) + [([3, 1, 4, 1, 5], 2)] * max(0, ndraw - 8)
    rnd, orc = ScriptRandom(tab), Oracle(answers=answers)
    if derive:
        rid = sl.call("derive", (name,), {}, rnd, orc)
    else:
        rid = sl.call("find_deployment_id", (name,), {"force_suffix": force}, rnd, orc)
    low, al = analyse(name)
    if isinstance(rid, Raised):
        return "1", dict(kind=("derive/" if derive else "find/") + kind, name=name, force=force,
                         answers=len(answers), id=None, raised=rid.text, draws=rnd.n, calls=len(orc.calls),
                         hexes=list(rnd.log[-2:]), letters=rnd.letters_used, candidates=orc.calls[-3:],
                         first_candidate=orc.calls[0] if orc.calls else None,
                         accepted_first=bool(answers and answers[0]), answers_list=answers,
                         draw_table=tab[:max(rnd.n, 1)])
    # only the draws that were consumed need to be in the Coq literal
    used = tab[:rnd.n]
    if derive:
        term = "derive_id (table_oracle %s) (table_draws %s) %s" % (
            glist(gbool(a) for a in answers), g_table(used), g_str(low))
    else:
        term = "find_deployment_id (table_oracle %s) (table_draws %s) %s %s" % (
            glist(gbool(a) for a in answers), g_table(used), g_str(low), gbool(force))
    n_for_model = rnd.n
    expr = "res_agree (%s) %s %s %s" % (term, gopt(g_str, rid), gz(n_for_model), gz(len(orc.calls)))
    info = dict(kind=("derive/" if derive else "find/") + kind, name=name, force=force, answers=len(answers),
                id=rid, draws=rnd.n, calls=len(orc.calls), hexes=list(rnd.log[-2:]), letters=rnd.letters_used,
                candidates=orc.calls[-3:], first_candidate=orc.calls[0] if orc.calls else None,
                accepted_first=bool(answers and answers[0]), answers_list=answers,
                draw_table=tab[:max(rnd.n, 1)])
    return expr, info


def case_suffix(sl, rng):
    """_append_random_suffix on its own, with arbitrary ids and max_length"""
    n = rng.choice([0, 0, 1, 2, 5, 13, 14, 15, 20, 56, 57, 58, 63, 80])
    b = "".join(rng.choice(LOW + DIG + "-") for _ in range(n))
    ml = rng.choice([63, 63, 63, 20, 10, 7, 6, 5, 64, 3])
    tab = gen_draw_table(rng, 1)
    rnd = ScriptRandom(tab)
    out = sl.suffix(b, ml, rnd)
    expr = "str_agree (append_suffix %s %s (fst (table_draws %s 0%%nat)) (snd (table_draws %s 0%%nat))) %s" % (
        g_str(b), gz(ml), g_table(tab), g_table(tab), g_str(out))
    return expr, dict(kind="suffix", b=b, max_length=ml, out=out, letters=rnd.letters_used)


def gen_label(rng):
    k = rng.random()
    n = rng.choice([0, 1, 1, 2, 3, 10, 61, 62, 63, 64, 65, 100])
    s = gen_target(rng, n, rng.choice(["letter", "letter", "digit"]))
    if k < 0.4:
        return s
    ops = rng.choice(["upper", "trail-hy", "lead-hy", "nl", "nl2", "dbl", "uni", "mid-nl", "space"])
    if ops == "upper" and s:
        i = rng.randrange(len(s))
        return s[:i] + s[i].upper() + s[i + 1:]
    if ops == "trail-hy":
        return s + "-"
    if ops == "lead-hy":
        return "-" + s
    if ops == "nl":
        return s + "\n"
    if ops == "nl2":
        return s + "\n\n"
    if ops == "dbl" and len(s) > 3:
        i = rng.randrange(1, len(s) - 1)
        return s[:i] + "--" + s[i + 2:]
    if ops == "uni" and s:
        i = rng.randrange(len(s))
        return s[:i] + rng.choice(["é", "٠", "ａ", "K"]) + s[i + 1:]
    if ops == "mid-nl" and s:
        i = rng.randrange(len(s))
        return s[:i] + "\n" + s[i + 1:]
    return s + " "


def case_dns(rng, dns_re):
    s = gen_label(rng)
    m = bool(dns_re.match(s))
    return "b_agree (dns_match %s) %s" % (g_str(s), gbool(m)), dict(kind="dns", label=s, match=m)


def case_ascii_classes():
    """str.isalpha / str.isdigit on all of ASCII vs the model's is_alpha / is_digit"""
    al = [c for c in range(128) if chr(c).isalpha()]
    dg = [c for c in range(128) if chr(c).isdigit()]
    rng128 = "map Z.of_nat (seq 0 128)"
    return ("str_agree (filter is_alpha (%s)) %s + str_agree (filter is_digit (%s)) %s"
            % (rng128, gzlist(al), rng128, gzlist(dg)))


# ---- the property, evaluated on one real outcome --------------------------------------------
DNS_TEXT = re.compile(r"[a-z]([a-z0-9-]*[a-z0-9])?\Z")    # the RFC-1035 <label> grammar, independently


def monitor(info, low, al, reserved, validate_label):
    """returns (finding_key, description) or None. Demands exactly the property's clauses."""
    rid = info["id"]
    if info.get("raised"):
        return "C32/raises", "deriving an id raised %s" % info["raised"]
    if rid is None:
        return None                       # no id was derived (every candidate refused)
    if not (DNS_TEXT.match(rid) and len(rid) <= 63):
        return "C32/invalid-label", "derived id %r is not a DNS-1035 label of at most 63 characters" % rid
    try:
        validate_label(rid)
    except ValueError:
        return "C32/invalid-label", "derived id %r is rejected by validate_dns_1035_label" % rid
    forced = info["force"] or (info["kind"].startswith("derive/") and low in reserved)
    hexes = info["hexes"]
    suffixed = info["draws"] > 0
    if suffixed and not (hexes and rid.endswith(hexes[-1]) and (len(rid) == len(hexes[-1]) or
                                                               rid[-len(hexes[-1]) - 1] == "-")):
        return "C32/suffix-not-the-draw", "id %r does not end with the drawn suffix %r" % (rid, hexes[-1:])
    if len(al) >= 3:
        stem = rid[:-len(hexes[-1]) - 1] if suffixed else rid
        body = stem[2:] if (al[0] in DIG and stem.startswith("d-")) else stem
        squeezed = body.replace("-", "")
        want = "".join(al)
        ok = want.startswith(squeezed) and len(squeezed) >= 3 and (al[0] not in DIG or stem.startswith("d-"))
        if ok and not forced and info["accepted_first"]:
            ok = (not suffixed) and (squeezed == want or len(rid) >= 62)
        if not ok:
            return ("C32/alnum-name-not-derived",
                    "name with >= 3 lowercase alphanumerics (%s) gave %r, which is not derived from them (%r)"
                    % ("forced or colliding" if (forced or not info["accepted_first"]) else "free, not reserved",
                       rid, want[:70]))
        return None
    # fewer than three alphanumerics: must carry a random suffix
    if not suffixed:
        return ("C32/short-name-without-suffix",
                "name with %d lowercase alphanumerics gave %r without a random suffix" % (len(al), rid))
    return None
