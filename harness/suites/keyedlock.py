"""Correspondence suites `keyedlock` and `asynciolock` (C25).

The real `KeyedLock` (and, for the trusted primitive, plain `asyncio.Lock` objects) is used by n real
asyncio tasks (`async with kl(key): await gate`).  The event loop is *stepped by hand*: one scheduler
choice of the model = one action on the real objects

    CRun i     run the one ready callback of task i (`Task.__step`/wakeup handle in loop._ready)
    COpen i    gate_i.set_result(None)           (the body of i will finish normally)
    CCancel i  task_i.cancel()

so every interleaving the model quantifies over can be forced on the real code, including
cancellation of a waiter that was already woken but has not run yet.  After every choice the complete
observable state (task phase, awaited-future state, Task._must_cancel, readiness, main lock, `_locks`
with each lock's `_locked` and waiter queue as task ids, `_refs`, unexpected exceptions) is encoded
and compared with the model inside Coq.  A second driver (`natural_run`) uses an ordinary running
loop with a driver coroutine and records the task steps asyncio itself chooses (FIFO ready queue).
"""
import asyncio
import collections.abc

import boot

boot.enable_server()
import vloop  # noqa: E402
from core import gz, gzlist, glist  # noqa: E402
from llama_agents.server._keyed_lock import KeyedLock  # noqa: E402

HEADER = """From Coq Require Import List ZArith Bool.
Import ListNotations.
From WF Require Import Base.SchedKL Model.KeyedLock.
Open Scope Z_scope.
"""

RUN, OPEN, CANCEL = 0, 1, 2
KIND = {RUN: "run", OPEN: "open", CANCEL: "cancel"}


def code(kind, i):
    return 3 * i + kind


def show(c):
    return "%s %d" % (KIND[c % 3], c // 3)


_LOOP = None


def the_loop():
    """One hand-stepped loop reused by all cases (it is only a container for ready handles)."""
    global _LOOP
    if _LOOP is None:
        _LOOP = vloop.VirtualLoop()
    return _LOOP


class Traced(collections.abc.Coroutine):
    """Coroutine wrapper logging every step the event loop gives the task."""

    def __init__(self, coro, on_step):
        self.coro, self.on_step = coro, on_step

    def send(self, v):
        self.on_step()
        return self.coro.send(v)

    def throw(self, *a):
        self.on_step()
        return self.coro.throw(*a)

    def close(self):
        return self.coro.close()

    def __await__(self):
        return self


class World:
    """n workers over one KeyedLock (mode 'keyed') or over plain asyncio.Lock objects ('plain')."""

    def __init__(self, keys, mode="keyed", loop=None, log=None):
        self.keys, self.mode, self.n = list(keys), mode, len(keys)
        self.loop = loop or the_loop()
        self.log = log
        self.kl = KeyedLock() if mode == "keyed" else None
        self.nlocks = (max(keys) + 1) if keys else 0
        self.plain = None
        self.started = [False] * self.n
        self.inside = [False] * self.n
        self.entered = [0] * self.n
        self.gates = [None] * self.n
        self.cancel_requested = [False] * self.n
        self.occ = {}
        self.monitor = []           # property failures seen on the implementation
        self.tasks = [None] * self.n

    # ----- real objects -----
    def cm(self, i):
        if self.mode == "keyed":
            return self.kl("k%d" % self.keys[i])
        if self.plain is None:
            self.plain = [asyncio.Lock() for _ in range(self.nlocks)]
        return self.plain[self.keys[i]]

    async def worker(self, i):
        self.started[i] = True
        k = self.keys[i]
        async with self.cm(i):
            self.inside[i] = True
            self.entered[i] += 1
            self.occ[k] = self.occ.get(k, 0) + 1
            if self.occ[k] > 1:
                self.monitor.append(("mutex", "two holders inside the critical section of key %d" % k))
            try:
                g = self.gates[i] = self.loop.create_future()
                await g
            finally:
                self.inside[i] = False
                self.occ[k] -= 1

    def spawn(self, i):
        coro = self.worker(i)
        if self.log is not None:
            coro = Traced(coro, lambda: self.log.append(code(RUN, i)))
        self.tasks[i] = self.loop.create_task(coro)

    def spawn_all(self):
        for i in range(self.n):
            self.spawn(i)

    # ----- scheduler choices on the hand-stepped loop -----
    def handle_of(self, i):
        t = self.tasks[i]
        for h in self.loop._ready:
            if not h._cancelled and getattr(h._callback, "__self__", None) is t:
                return h
        return None

    def do(self, c):
        kind, i = c % 3, c // 3
        if i >= self.n:
            return
        if kind == RUN:
            h = self.handle_of(i)
            if h is not None:
                first = not self.started[i]
                alone = not any(j != i and self.keys[j] == self.keys[i] and self.started[j]
                                and not self.tasks[j].done() for j in range(self.n))
                self.loop._ready.remove(h)
                h._run()
                if first and self.started[i] and alone and not self.inside[i]:
                    self.monitor.append(("independence", "task %d found key %d unused but did not enter at once"
                                         % (i, self.keys[i])))
        elif kind == OPEN:
            if self.inside[i] and self.gates[i] is not None and not self.gates[i].done():
                self.gates[i].set_result(None)
        else:
            self.cancel(i)

    def cancel(self, i):
        t = self.tasks[i]
        if t is not None and not t.done():
            self.cancel_requested[i] = True
        if t is not None:
            t.cancel()

    # ----- observation -----
    def fut_owner(self, fut):
        for j, t in enumerate(self.tasks):
            if t is not None and not t.done() and t._fut_waiter is fut:
                return j
        return 99

    def enc_lock(self, lk):
        ws = list(lk._waiters or []) if lk is not None else []
        return [1 if (lk is not None and lk.locked()) else 0, len(ws)] + [self.fut_owner(f) for f in ws]

    def observe(self):
        out = []
        err = 0
        # (read defensively: if the lock's internals are renamed the observation differs from the model's - a reported
        # disagreement - instead of crashing the check)
        main = getattr(self.kl, "_main_lock", None) if self.kl is not None else None
        mainw = list(main._waiters or []) if main is not None else []
        for i, t in enumerate(self.tasks):
            if t is None or not self.started[i] and not t.done():
                mc = 1 if (t is not None and t._must_cancel) else 0
                out += [0, 0, mc, 1]
                continue
            if t.done():
                if t.cancelled():
                    out += [7, 0, 0, 0]
                else:
                    if t.exception() is not None:
                        err = 1
                    out += [6, 0, 0, 0]
                continue
            fw = t._fut_waiter
            if self.inside[i]:
                p = 3
            elif fw is not None and any(fw is f for f in mainw):
                p = 1 if self.entered[i] == 0 else 4
            else:
                p = 2
            f = 0 if fw is None or not fw.done() else (2 if fw.cancelled() else 1)
            out += [p, f, 1 if t._must_cancel else 0, 1 if self.handle_of(i) is not None else 0]
        out.append(-1)
        if self.mode == "keyed":
            out += self.enc_lock(main)
            out.append(-1)
            for k, lk in getattr(self.kl, "_locks", {}).items():
                out += [int(k[1:])] + self.enc_lock(lk)
            out.append(-1)
            for k, r in getattr(self.kl, "_refs", {"k9": -9}).items():
                out += [int(k[1:]), r]
        else:
            if self.plain is None:
                self.plain = [asyncio.Lock() for _ in range(self.nlocks)]
            for lk in self.plain:
                out += self.enc_lock(lk)
        out += [-1, err]
        return out

    # ----- derived facts used by generators / monitors -----
    def enabled(self):
        """Choices that change something right now."""
        out = []
        for i, t in enumerate(self.tasks):
            if t.done():
                continue
            if self.handle_of(i) is not None:
                out.append(code(RUN, i))
            if self.inside[i] and self.gates[i] is not None and not self.gates[i].done():
                out.append(code(OPEN, i))
            out.append(code(CANCEL, i))
        return out

    def all_done(self):
        return all(t is not None and t.done() for t in self.tasks)

    def final_monitor(self):
        """Clauses that speak about a finished run: everybody done, non-cancelled tasks entered once,
        no lock state left."""
        if not self.all_done():
            self.monitor.append(("progress", "tasks %s never finished although every holder left its critical "
                                 "section and every ready task was run" %
                                 [i for i, t in enumerate(self.tasks) if not t.done()]))
            return
        for i, t in enumerate(self.tasks):
            if not t.cancelled() and t.exception() is not None:
                self.monitor.append(("internal-error", "task %d ended with %r" % (i, t.exception())))
            elif not self.cancel_requested[i] and self.entered[i] != 1:
                self.monitor.append(("progress", "task %d was never cancelled but entered %d times" % (i, self.entered[i])))
        if self.mode == "keyed" and (getattr(self.kl, "_locks", None) or getattr(self.kl, "_refs", None)):
            self.monitor.append(("cleanup", "all holders and waiters are gone but _locks=%s _refs=%s" % (
                sorted(getattr(self.kl, "_locks", {})), dict(getattr(self.kl, "_refs", {})))))

    def finish_fairly(self, sched, segs):
        """Complete the run without further cancellation: open every gate, run every ready task."""
        for _ in range(6 * self.n + 6):
            if self.all_done():
                break
            progressed = False
            for i in range(self.n):
                for c in (code(OPEN, i), code(RUN, i)):
                    if c in self.enabled():
                        self.do(c)
                        sched.append(c)
                        segs.append(([c], self.observe()))
                        progressed = True
            if not progressed:
                break
        self.final_monitor()

    def dispose(self):
        for t in self.tasks:
            if t is not None and not t.done():
                t.cancel()
        for _ in range(4 * self.n + 4):
            live = False
            for i, t in enumerate(self.tasks):
                if t is not None and not t.done():
                    h = self.handle_of(i)
                    if h is not None:
                        self.loop._ready.remove(h)
                        h._run()
                    live = True
            if not live:
                break
        for t in self.tasks:
            if t is not None and t.done() and not t.cancelled():
                t.exception()
        self.loop._ready.clear()


class stepping:
    """Context: the hand-stepped loop is 'running' for the code executed by handle._run()."""

    def __enter__(self):
        self.loop = the_loop()
        asyncio.set_event_loop(self.loop)
        asyncio.events._set_running_loop(self.loop)
        return self.loop

    def __exit__(self, *a):
        asyncio.events._set_running_loop(None)
        asyncio.set_event_loop(None)


def run_schedule(keys, sched, mode="keyed", finish=False):
    """Force `sched` on the real code; returns (segments, monitor failures, schedule incl. completion)."""
    with stepping():
        w = World(keys, mode)
        w.spawn_all()
        segs = []
        sched = list(sched)
        try:
            for c in sched:
                w.do(c)
                segs.append(([c], w.observe()))
            if finish:
                w.finish_fairly(sched, segs)
            elif w.all_done():
                w.final_monitor()
            return segs, list(w.monitor), sched
        finally:
            w.dispose()


def random_schedule(rng, keys, mode="keyed", maxlen=40, p_cancel=0.18, p_noop=0.06):
    """Generate a schedule while executing it: mostly enabled choices, a few no-ops, biased to
    cancel tasks that are queued or freshly woken."""
    n = len(keys)
    with stepping():
        w = World(keys, mode)
        w.spawn_all()
        segs, sched = [], []
        stats = dict(cancel_pending_waiter=0, cancel_woken_waiter=0, cancel_in_cs=0, cancel_before_start=0,
                     cancel_after_gate=0, noop=0, queued=0)
        try:
            for _ in range(rng.randrange(3, maxlen)):
                en = w.enabled()
                if not en:
                    break
                r = rng.random()
                if r < p_noop:
                    c = code(rng.randrange(3), rng.randrange(n))
                    stats["noop"] += 0 if c in en else 1
                else:
                    cs = [c for c in en if c % 3 == CANCEL]
                    if r < p_noop + p_cancel and cs:
                        # prefer interesting cancellation points
                        woken = [c for c in cs if w.started[c // 3] and not w.inside[c // 3]
                                 and w.handle_of(c // 3) is not None]
                        c = rng.choice(woken) if woken and rng.random() < 0.6 else rng.choice(cs)
                    else:
                        c = rng.choice([c for c in en if c % 3 != CANCEL] or en)
                if c % 3 == CANCEL and c in en:
                    i = c // 3
                    t = w.tasks[i]
                    if not w.started[i]:
                        stats["cancel_before_start"] += 1
                    elif w.inside[i]:
                        stats["cancel_after_gate" if w.gates[i].done() else "cancel_in_cs"] += 1
                    elif t._fut_waiter is not None and t._fut_waiter.done():
                        stats["cancel_woken_waiter"] += 1
                    else:
                        stats["cancel_pending_waiter"] += 1
                w.do(c)
                sched.append(c)
                segs.append(([c], w.observe()))
                if c % 3 == RUN and w.started[c // 3] and not w.inside[c // 3] and not w.tasks[c // 3].done():
                    stats["queued"] += 1
            w.finish_fairly(sched, segs)
            return segs, list(w.monitor), sched, stats
        finally:
            w.dispose()


def natural_run(rng, keys, mode="keyed"):
    """An ordinary running loop: a driver coroutine spawns/opens/cancels/yields; the order of task
    steps is asyncio's own (recorded by the Traced wrapper)."""
    n = len(keys)
    loop = vloop.VirtualLoop()
    asyncio.set_event_loop(loop)
    log, segs, last = [], [], [0]
    w = World(keys, mode, loop=loop, log=log)

    def obs():
        segs.append((list(log[last[0]:]), w.observe()))
        last[0] = len(log)

    async def driver():
        order = list(range(n))
        rng.shuffle(order)
        # the model numbers tasks by id; spawning order is the order of first steps
        pending_spawn = order[:]
        for _ in range(rng.randrange(n, 6 * n + 4)):
            acts = ["yield"]
            if pending_spawn:
                acts += ["spawn"] * 3
            live = [i for i in range(n) if w.tasks[i] is not None and not w.tasks[i].done()]
            if live:
                acts += ["cancel"]
            ins = [i for i in live if w.inside[i] and not w.gates[i].done()]
            if ins:
                acts += ["open"] * 2
            a = rng.choice(acts)
            if a == "yield":
                await asyncio.sleep(0)
            elif a == "spawn":
                w.spawn(pending_spawn.pop(0))
            elif a == "cancel":
                i = rng.choice(live)
                w.cancel(i)
                log.append(code(CANCEL, i))
            else:
                i = rng.choice(ins)
                w.gates[i].set_result(None)
                log.append(code(OPEN, i))
            obs()
        for i in pending_spawn:
            w.spawn(i)
        for _ in range(6 * n + 6):
            await vloop.settle()
            obs()
            if w.all_done():
                break
            for i in range(n):
                if w.inside[i] and not w.gates[i].done():
                    w.gates[i].set_result(None)
                    log.append(code(OPEN, i))
        obs()
        w.final_monitor()

    try:
        loop.run_until_complete(driver())
    finally:
        for t in w.tasks:
            if t is not None and not t.done():
                t.cancel()
        try:
            loop.run_until_complete(asyncio.gather(*[t for t in w.tasks if t is not None], return_exceptions=True))
        except BaseException:  # noqa: BLE001
            pass
        asyncio.set_event_loop(None)
        loop.close()
    return segs, list(w.monitor), list(log)


def explore(keys, mode="keyed", skip_noops=False):
    """Breadth-first enumeration of every state the real code can be driven to by ANY schedule
    (states identified by the complete observation).  For every state: the path to it, its
    observation, and the observation after each choice.  Returns (entries, monitor failures)
    with entries = [(path, obs, [(choice, obs_after), ...])]."""
    n = len(keys)
    all_choices = [code(k, i) for i in range(n) for k in (RUN, OPEN, CANCEL)]
    entries, failures = [], []
    with stepping():
        w = World(keys, mode)
        w.spawn_all()
        init_obs = w.observe()
        w.dispose()
        seen = {tuple(init_obs)}
        frontier = [([], init_obs)]
        while frontier:
            nxt = []
            for path, obs in frontier:
                fans = []
                for c in all_choices:
                    w = World(keys, mode)
                    w.spawn_all()
                    try:
                        for d in path:
                            w.do(d)
                        if skip_noops and c not in w.enabled():
                            continue
                        w.do(c)
                        o = w.observe()
                        if w.all_done():
                            w.final_monitor()
                        for m in w.monitor:
                            failures.append((m, path + [c]))
                        fans.append((c, o))
                        key = tuple(o)
                        if key not in seen:
                            seen.add(key)
                            nxt.append((path + [c], o))
                    finally:
                        w.dispose()
                entries.append((path, obs, fans))
            frontier = nxt
    return entries, failures


def fan_expr(keys, path, obs, fans, exact=True):
    return "check_fan %s %s %s %s" % (gzlist(keys), gzlist(path), gzlist(obs) if exact else "[]",
                                      glist("(%d, %d)" % (c, fp(o)) for c, o in fans))


def explore_job(args):
    """Worker for multiprocessing: exhaustive exploration of one configuration."""
    keys, skip_noops, exact = args
    entries, failures = explore(keys, skip_noops=skip_noops)
    exprs = [fan_expr(keys, p, o, f, exact) for p, o, f in entries]
    ntrans = sum(len(f) for _, _, f in entries)
    maxlen = max((len(p) for p, _, _ in entries), default=0)
    return keys, exprs, len(entries), ntrans, maxlen, failures[:5]


# ---- Coq side ----
P61 = 2305843009213693951


def fp(o):
    """Fingerprint of an observation (see Model/KeyedLock.v `fp`)."""
    z = 1
    for x in reversed(o):
        z = z * 256 + (x + 8)
    return z % P61


def g_segs(segs):
    return glist("(%s, %d)" % (gzlist(cs), fp(o)) for cs, o in segs)


def case_expr(keys, segs, mode="keyed", init_obs=None):
    """Every intermediate observation by fingerprint, the last one exactly."""
    final = segs[-1][1] if segs else init_obs
    if mode == "keyed":
        return "check %s %s %s" % (gzlist(keys), g_segs(segs), gzlist(final))
    return "pcheck %s %s %s %s" % (gzlist(keys), gz((max(keys) + 1) if keys else 0), g_segs(segs), gzlist(final))


def gen_keys(rng, nmax=6):
    n = rng.choice([1, 2, 2, 3, 3, 3, 4, 4, 5, nmax])
    nk = rng.choice([1, 1, 2, 2, 3])
    return [rng.randrange(nk) for _ in range(n)]


# ---- (d) looping workers: the same task takes a key again right after releasing it ------------------------------
def loop_run(rng):
    """W worker tasks over 1-2 keys, each taking its key R times in a row (release, then - after 0..2 yields - acquire
    again) and staying inside for 0..2 yields; run on an ordinary loop.  Mutual exclusion, completion and clean-up are
    evaluated on the real KeyedLock (a task that comes back is just another acquirer: who holds the key must not depend
    on which task asks).  Returns (monitor failures [(clause, text)], facts)."""
    nkeys = rng.choice([1, 1, 2])
    W = rng.choice([2, 2, 3, 4])
    R = rng.choice([2, 3, 4])
    plan = [[(rng.choice([0, 0, 1, 2]), rng.choice([0, 1, 1, 2])) for _ in range(R)] for _ in range(W)]
    keys = [rng.randrange(nkeys) for _ in range(W)]
    loop = vloop.VirtualLoop()
    asyncio.set_event_loop(loop)
    kl = KeyedLock()
    occ, mon, trace, done = {}, [], [], [0]
    contended = [0]

    async def worker(i):
        k = "k%d" % keys[i]
        for r, (outside, inside) in enumerate(plan[i]):
            for _ in range(outside):
                await asyncio.sleep(0)
            if getattr(kl, "_locks", {}).get(k) is not None and kl._locks[k].locked():
                contended[0] += 1
            async with kl(k):
                occ[k] = occ.get(k, 0) + 1
                trace.append("%d.%d+" % (i, r))
                if occ[k] > 1:
                    mon.append(("mutex", "two holders inside the critical section of key %s (trace %s)" % (k, " ".join(trace[-8:]))))
                try:
                    for _ in range(inside):
                        await asyncio.sleep(0)
                finally:
                    occ[k] -= 1
                    trace.append("%d.%d-" % (i, r))
        done[0] += 1

    async def main():
        ts = [asyncio.ensure_future(worker(i)) for i in range(W)]
        for _ in range(40 * W * R + 50):
            await asyncio.sleep(0)
            if all(t.done() for t in ts):
                break
        for t in ts:
            if not t.done():
                t.cancel()
        await asyncio.gather(*ts, return_exceptions=True)

    try:
        loop.run_until_complete(main())
    finally:
        asyncio.set_event_loop(None)
        loop.close()
    if done[0] != W:
        mon.append(("progress", "%d of %d looping workers never finished their %d rounds" % (W - done[0], W, R)))
    if getattr(kl, "_locks", None) or getattr(kl, "_refs", None):
        mon.append(("cleanup", "all looping workers are gone but _locks=%s _refs=%s"
                    % (sorted(getattr(kl, "_locks", {})), dict(getattr(kl, "_refs", {})))))
    return mon, dict(keys=keys, plan=plan, contended_acquires=contended[0], rounds=W * R)
