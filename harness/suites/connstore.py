"""Correspondence suite `connstore` (C21): the real SqliteWorkflowStore in single-connection mode and
in per-call mode vs Model/ConnStore.v.

A case is a sequence of store operations (handlers, events, ticks, state stores created with
create_state_store incl. seeding, state operations); it is executed on a fresh database in each
mode; the canonicalised results (sqlite3.ProgrammingError -> PClosed) are compared inside Coq with
the model's `runs_single` / `runs_percall`."""
import copy
import os
import sqlite3

import boot

boot.enable_server()

import core  # noqa: E402
import vloop  # noqa: E402
from core import gz, glist, gzlist  # noqa: E402
from suites import statestore as S  # noqa: E402
from workflows.context.serializers import JsonSerializer  # noqa: E402
from workflows.context.state_store import DictState, InMemoryStateStore  # noqa: E402
from llama_agents.client.protocol.serializable_events import EventEnvelopeWithMetadata  # noqa: E402
from llama_agents.server._store.abstract_workflow_store import HandlerQuery, PersistentHandler  # noqa: E402
from llama_agents.server._store.sqlite.sqlite_workflow_store import SqliteWorkflowStore  # noqa: E402

HEADER_IMPORTS = """From Coq Require Import List ZArith Bool.
Import ListNotations.
From WF Require Import Generated Model.StateStore Model.ConnStore.
Open Scope Z_scope.
"""

STATUS = ["running", "completed", "failed", "cancelled"]
RUN_TYPE = {1: [0], 2: [0], 3: [1, 2]}        # run id -> declared state type (class chain)


def header():
    return S.header().replace(S.HEADER_IMPORTS, HEADER_IMPORTS)


# ---- printers -------------------------------------------------------------------------------------
def gwop(o):
    k = o[0]
    if k == "update":
        return "(WUpdate %d %d)" % (o[1], o[2])
    if k == "query":
        return "(WQuery %s)" % gzlist(o[1])
    if k == "query_status":
        return "(WQueryStatus %d)" % o[1]
    if k == "delete":
        return "(WDelete %s)" % gzlist(o[1])
    if k == "append_event":
        return "(WAppendEvent %d %d)" % (o[1], o[2])
    if k == "query_events":
        return "(WQueryEvents %d %s)" % (o[1], gz(o[2]))
    if k == "append_tick":
        return "(WAppendTick %d %d)" % (o[1], o[2])
    if k == "get_ticks":
        return "(WGetTicks %d)" % o[1]
    if k == "seed":
        return "(WSeed %d %s)" % (o[1], S.gsobj((o[2], o[3])))
    if k == "copy":
        return "(WCopy %d %d)" % (o[1], o[2])
    if k == "state":
        return "(WState %d %s %s)" % (o[1], gzlist(RUN_TYPE[o[1]]), S.gop(o[2]))
    if k == "reopen":
        return "WReopen"
    raise core.CheckError("connstore: unknown op %r" % (o,))


def gpairs(l):
    return glist("(%s, %s)" % (gz(a), gz(b)) for a, b in l)


def gres(r):
    k = r[0]
    if k == "closed":
        return "PClosed"
    if k == "ok":
        return "(PDone WOk)"
    if k == "handlers":
        return "(PDone (WHandlers %s))" % gpairs(r[1])
    if k == "count":
        return "(PDone (WCount %s))" % gz(r[1])
    if k == "seq":
        return "(PDone (WSeq %s))" % gpairs(r[1])
    if k == "out":
        return "(PDone (WOut %s))" % S.gout(r[1])
    if k == "exc":
        return "(PDone (WCount (-1)))"         # an exception the model never produces
    raise core.CheckError("connstore: unknown result %r" % (r,))


def case_expr(ops, obs_single, obs_percall, closes="false"):
    return "check_conn_case %s CT %s %s %s" % (
        closes, glist(gwop(o) for o in ops), glist(gres(r) for r in obs_single),
        glist(gres(r) for r in obs_percall))


# ---- driving the real store --------------------------------------------------------------------------
class Driver:
    def __init__(self, path, single):
        self.path, self.single = path, single
        self.ws = SqliteWorkflowStore(path, single_connection=single)
        self.stores = {}

    def reopen(self):
        """What a process restart does: the store (and its shared connection) goes away, a new store
        is opened on the same file; only committed data is still there."""
        self.close()
        self.ws = SqliteWorkflowStore(self.path, single_connection=self.single)
        self.stores = {}

    def state_store(self, run):
        st = self.stores.get(run)
        if st is None:
            st = self.stores[run] = self.ws.create_state_store(
                "r%d" % run, state_type=S.BY_CHAIN[tuple(RUN_TYPE[run])])
        return st

    async def step(self, o):
        k = o[0]
        try:
            if k == "reopen":
                self.reopen()
                return ("ok",)
            if k == "update":
                await self.ws.update(PersistentHandler(handler_id="h%d" % o[1], workflow_name="w",
                                                       status=STATUS[o[2]]))
                return ("ok",)
            if k in ("query", "query_status"):
                q = HandlerQuery(handler_id_in=["h%d" % h for h in o[1]]) if k == "query" \
                    else HandlerQuery(status_in=[STATUS[o[1]]])
                rows = await self.ws.query(q)
                return ("handlers", sorted((int(h.handler_id[1:]), STATUS.index(h.status)) for h in rows))
            if k == "delete":
                return ("count", await self.ws.delete(HandlerQuery(handler_id_in=["h%d" % h for h in o[1]])))
            if k == "append_event":
                await self.ws.append_event("r%d" % o[1], EventEnvelopeWithMetadata(
                    value={"i": o[2]}, qualified_name=None, type="E", types=None))
                return ("ok",)
            if k == "query_events":
                evs = await self.ws.query_events("r%d" % o[1], after_sequence=o[2])
                return ("seq", [(e.sequence, e.event.value["i"]) for e in evs])
            if k == "append_tick":
                await self.ws.append_tick("r%d" % o[1], {"k": o[2]})
                return ("ok",)
            if k == "get_ticks":
                return ("seq", [(t.sequence, t.tick_data["k"]) for t in await self.ws.get_ticks("r%d" % o[1])])
            if k == "seed":
                payload = InMemoryStateStore(S.build_obj(o[2], o[3])).to_dict(JsonSerializer())
                self.stores[o[1]] = self.ws.create_state_store(
                    "r%d" % o[1], state_type=S.BY_CHAIN[tuple(RUN_TYPE[o[1]])],
                    serialized_state=payload, serializer=JsonSerializer())
                return ("ok",)
            if k == "copy":
                self.stores[o[1]] = self.ws.create_state_store(
                    "r%d" % o[1], state_type=S.BY_CHAIN[tuple(RUN_TYPE[o[1]])],
                    serialized_state={"store_type": "sqlite", "run_id": "r%d" % o[2]}, serializer=JsonSerializer())
                return ("ok",)
            if k == "state":
                rr = S.RealRun(self.state_store(o[1]), lambda: None)
                try:
                    return ("out", await rr.step(0, o[2]))
                finally:
                    pass
        except sqlite3.ProgrammingError:
            return ("closed",)
        except Exception as e:  # noqa: BLE001
            return ("exc", type(e).__name__, str(e)[:120])
        raise core.CheckError("connstore: unknown op %r" % (o,))

    def close(self):
        c = self.ws._persistent_conn
        if c is not None:
            try:
                c.close()
            except Exception:  # noqa: BLE001
                pass


class ClosedInside(Exception):
    pass


def run_mode(path, single, ops):
    """RealRun maps exceptions of state operations to ('err', name): a ProgrammingError raised
    inside a state operation must surface as 'closed'."""
    d = Driver(path, single)

    async def go():
        out = []
        for o in ops:
            r = await d.step(o)
            if r[0] == "out" and r[1][0] == "err" and r[1][1] == "ProgrammingError":
                r = ("closed",)
            out.append(r)
        return out

    try:
        return vloop.run(go())
    finally:
        d.close()


def run_both(dbdir, n, ops):
    os.makedirs(dbdir, exist_ok=True)
    a = os.path.join(dbdir, "single-%d.db" % n)
    b = os.path.join(dbdir, "percall-%d.db" % n)
    try:
        return run_mode(a, True, ops), run_mode(b, False, ops)
    finally:
        for p in (a, b, a + "-journal", b + "-journal"):
            try:
                os.remove(p)
            except OSError:
                pass


# every case ends with a restart and a read-back of everything: what the operations reported must
# also be what a new connection finds in the file
READ_BACK = ([("reopen",)] + [("query_status", st) for st in range(4)]
             + [x for r in (1, 2) for x in (("query_events", r, -1), ("get_ticks", r))]
             + [("state", r, ("get_state",)) for r in (1, 2, 3)])


# ---- generator ---------------------------------------------------------------------------------------
def gen_state_op(rng, run, orc):
    k = rng.choice(["set", "set", "get", "get", "edit", "get_state", "set_state", "clear"])
    chain = orc.cls
    if k == "set":
        p = S.gen_path(rng, orc)
        kind = "any"
        if orc.closed() and p in S.BY_CHAIN[tuple(chain)].model_fields:
            kind = S.field_kind(S.BY_CHAIN[tuple(chain)], p)
        return ("set", p, S.gen_value(rng, 1, kind))
    if k == "get":
        return ("get", S.gen_path(rng, orc), rng.choice([None, (None,), (3,)]))
    if k == "edit":
        return ("edit", S.gen_edits(rng, orc.cls, orc.d))
    if k == "get_state":
        return ("get_state",)
    if k == "set_state":
        ch, items = S.gen_incoming(rng, RUN_TYPE[run], orc.cls)
        return ("set_state", ch, items)
    return ("clear",)


def gen_case(rng, i):
    ops = []
    orcs = {r: S.Oracle(RUN_TYPE[r]) for r in RUN_TYPE}
    n = rng.randint(3, 14)
    early_state = i % 3 == 0           # a state operation first, workflow-store operations after it
    while len(ops) < n:
        x = rng.random()
        if (early_state and not ops) or x < 0.4:
            run = rng.choice([1, 1, 2, 3])
            so = gen_state_op(rng, run, orcs[run])
            orcs[run].step(so)
            o = ("state", run, so)
        elif x < 0.47:
            run = rng.choice([1, 2, 3])
            ch = RUN_TYPE[run]
            if ch == [0]:
                items = {rng.choice(S.KEYS[:6]): S.gen_value(rng, 1) for _ in range(rng.randint(0, 3))}
            else:
                cls = S.BY_CHAIN[tuple(ch)]
                items = {f: S.gen_value(rng, 1, S.field_kind(cls, f)) for f in cls.model_fields}
            orc = S.Oracle(ch)
            orc.d = copy.deepcopy(items)
            orcs[run] = orc
            o = ("seed", run, ch, items)
        elif x < 0.52:
            run, src = rng.choice([(1, 2), (2, 1), (1, 1)])
            if run != src:
                orcs[run] = copy.deepcopy(orcs[src])       # only guides path generation
            o = ("copy", run, src)
        elif x < 0.62:
            o = ("update", rng.randint(1, 4), rng.randrange(4))
        elif x < 0.70:
            o = ("query", rng.sample([1, 2, 3, 4], rng.randint(0, 3)))
        elif x < 0.74:
            o = ("query_status", rng.randrange(4))
        elif x < 0.79:
            o = ("delete", rng.sample([1, 2, 3, 4], rng.randint(0, 2)))
        elif x < 0.81:
            o = ("reopen",)
        elif x < 0.86:
            o = ("append_event", rng.choice([1, 2]), rng.randint(0, 9))
        elif x < 0.91:
            o = ("query_events", rng.choice([1, 2]), rng.choice([-1, -1, 0, 1, 5]))
        elif x < 0.96:
            o = ("append_tick", rng.choice([1, 2]), rng.randint(0, 9))
        else:
            o = ("get_ticks", rng.choice([1, 2]))
        ops.append(o)
    return ops + READ_BACK


# ---- a tick stream that is still open while the same store appends (monitor only: both modes must agree) ---------
def stream_interleave_case(rng, dbdir, tag):
    """n ticks are stored; stream_ticks() is opened and read up to a random position; k more ticks are appended through the
    same store object; the stream is read to its end.  Per-call and single-connection mode must deliver the same ticks
    (and a fresh read afterwards must show all n + k).  Returns (failures, facts)."""
    import asyncio as _a
    import vloop as _v
    n = rng.choice([1, 2, 3, 5, 8])
    k = rng.choice([1, 1, 2])
    pos = rng.randint(0, n)
    out = {}

    async def one(single):
        path = os.path.join(dbdir, "si_%s_%d.db" % (tag, int(single)))
        for suffix in ("", "-wal", "-shm", "-journal"):
            if os.path.exists(path + suffix):
                os.remove(path + suffix)
        ws = SqliteWorkflowStore(path, single_connection=single)
        try:
            for i in range(n):
                await ws.append_tick("r1", {"k": i})
            got = []
            gen = ws.stream_ticks("r1")
            try:
                for _ in range(pos):
                    got.append((await gen.__anext__()).tick_data["k"])
                for j in range(k):
                    await ws.append_tick("r1", {"k": 100 + j})
                while True:
                    try:
                        got.append((await gen.__anext__()).tick_data["k"])
                    except StopAsyncIteration:
                        break
            finally:
                await gen.aclose()
            after = [t.tick_data["k"] for t in await ws.get_ticks("r1")]
            return got, after
        finally:
            c = ws._persistent_conn
            if c is not None:
                c.close()

    async def main():
        out["percall"] = await one(False)
        out["single"] = await one(True)

    _v.run(main(), auto=False)
    fails = []
    want_after = list(range(n)) + [100 + j for j in range(k)]
    if out["percall"][0] != out["single"][0]:
        fails.append("a tick stream opened on %d stored ticks, read up to position %d, then %d ticks appended through the same "
                     "store: per-call mode delivered %s, single-connection mode %s" % (n, pos, k, out["percall"][0], out["single"][0]))
    for m in ("percall", "single"):
        if out[m][1] != want_after:
            fails.append("%s mode: ticks read back after the interleaved appends are %s, expected %s" % (m, out[m][1], want_after))
    return fails, dict(n=n, k=k, pos=pos)


def long_run_case(rng, dbdir, tag):
    """A run with more ticks / events than any page or batch size the stores use (100-300): reading it back gives all of
    them, in order, in both connection modes.  Returns (failures, facts)."""
    import vloop as _v
    n = rng.choice([101, 130, 257])
    res = {}

    async def one(single):
        path = os.path.join(dbdir, "lr_%s_%d.db" % (tag, int(single)))
        for suffix in ("", "-wal", "-shm", "-journal"):
            if os.path.exists(path + suffix):
                os.remove(path + suffix)
        ws = SqliteWorkflowStore(path, single_connection=single)
        try:
            for i in range(n):
                await ws.append_tick("r1", {"k": i})
                if i % 3 == 0:
                    await ws.append_event("r1", EventEnvelopeWithMetadata(value={"i": i}, qualified_name=None, type="E", types=None))
            out = {}
            for name, fn in (("get_ticks", lambda: ws.get_ticks("r1")), ("query_events", lambda: ws.query_events("r1"))):
                try:
                    rows = await fn()
                    out[name] = [t.tick_data["k"] for t in rows] if name == "get_ticks" else [e.event.value["i"] for e in rows]
                except Exception as ex:  # noqa: BLE001
                    out[name] = "raised %s: %s" % (type(ex).__name__, str(ex)[:80])
            try:
                out["stream_ticks"] = [t.tick_data["k"] async for t in ws.stream_ticks("r1")]
            except Exception as ex:  # noqa: BLE001
                out["stream_ticks"] = "raised %s: %s" % (type(ex).__name__, str(ex)[:80])
            return out
        finally:
            c = ws._persistent_conn
            if c is not None:
                c.close()

    async def main():
        res["percall"] = await one(False)
        res["single"] = await one(True)

    _v.run(main(), auto=False)
    fails = []
    want = dict(get_ticks=list(range(n)), stream_ticks=list(range(n)), query_events=[i for i in range(n) if i % 3 == 0])
    for m in ("percall", "single"):
        for k, w in want.items():
            if res[m][k] != w:
                got = res[m][k]
                fails.append("%s mode: %s of a run with %d ticks gives %s" % (
                    m, k, n, got if isinstance(got, str) else "%d items, first difference at %s" % (
                        len(got), next((i for i, (x, y) in enumerate(zip(got, w)) if x != y), min(len(got), len(w))))))
    return fails, dict(n=n)
