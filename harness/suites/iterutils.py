"""Correspondence suite `iterutils` (C29): real merge_generators / debounced_sorted_prefix vs Model/IterUtils.v.

merge: sources are gated async generators (the driver decides in which loop iteration each source
produces its next item / ends / raises; several in the same iteration give a `done` set with more than
one task).  The schedule of the run is *observed*: sources log when their pending `anext` completes,
an observation-only wrapper around `asyncio.wait` logs every returned `done` set in its iteration
order (as source indices, read from the generator frame's `next_item_tasks`), the consumer logs its
requests.  The model replays exactly this schedule; after every driver action the generator frame
(next_item_tasks, active_generators, flags, position in completed_results) and the yielded list are
compared.  Set order depends on object addresses, so each case keeps a random amount of junk alive.

sorted prefix: the real debounced_sorted_prefix under the virtual-time loop with timed items
(bias: items landing exactly at / next to the end of the debounce window and of the max window);
the observed schedule of the inner merge is replayed through the model and the yielded list compared.
"""
import asyncio

import boot  # noqa: F401
import vloop
from core import gz, gzlist, glist
from llama_agents.core import iter_utils as IU

HEADER = """From Coq Require Import List ZArith Bool.
Import ListNotations.
From WF Require Import Base.SchedKL Model.IterUtils.
Open Scope Z_scope.
"""

_real_wait = asyncio.wait
_HOOK = [None]


async def _logging_wait(fs, **kw):
    done, pending = await _real_wait(fs, **kw)
    if _HOOK[0] is not None:
        _HOOK[0](done)
    return done, pending


class wait_hook:
    """Observation only: the same set object is handed on, so the iteration order is the one
    merge_generators will see."""

    def __init__(self, fn):
        self.fn = fn

    def __enter__(self):
        _HOOK[0] = self.fn
        asyncio.wait = _logging_wait

    def __exit__(self, *a):
        asyncio.wait = _real_wait
        _HOOK[0] = None


class SrcError(Exception):
    def __init__(self, code):
        super().__init__("source error %d" % code)
        self.code = code


FRAME_NAMES = ("next_item_tasks", "active_generators", "exception_to_raise", "stopped_on_first_completion")


def merge_frame(agen):
    """Locals of the suspended merge_generators frame (observation only).  The observer depends on the
    names of four locals; if they are renamed the check stops with a machinery error, not a verdict."""
    fr = agen.ag_frame
    if fr is None:
        return None
    loc = fr.f_locals
    if "next_item_tasks" in loc or "generators" in loc:
        started = "next_item_tasks" in loc
        if started and any(n not in loc for n in FRAME_NAMES):
            import core
            raise core.CheckError("merge_generators frame layout changed: expected locals %s" % (FRAME_NAMES,))
        return loc
    import core
    raise core.CheckError("merge_generators frame layout changed: no local `next_item_tasks`/`generators`")


def idx_of_task(loc, t):
    for i, x in loc["next_item_tasks"].items():
        if x is t:
            return i
    return 99


def task_enc(t):
    if t is None:
        return [0, 0]
    if not t.done():
        return [1, 0]
    if t.cancelled():
        return [5, 0]
    ex = t.exception()
    if ex is None:
        return [2, t.result() if isinstance(t.result(), int) else -1]
    if isinstance(ex, StopAsyncIteration):
        return [3, 0]
    return [4, getattr(ex, "code", 999)]


def observe_merge(agen, n, out, raised, last_value):
    """Encoding of Model/IterUtils.v `enc_m`."""
    loc = merge_frame(agen)
    o = []
    if loc is None or "next_item_tasks" not in loc:
        o += [2]
        exc = -1 if raised is None else getattr(raised, "code", 999)
    else:
        tasks = loc["next_item_tasks"]
        for i in range(n):
            o += task_enc(tasks.get(i))
        o.append(-7)
        o += [1 if i in loc["active_generators"] else 0 for i in range(n)]
        o.append(-7)
        comp = loc.get("completed_results") or []
        pos = [k for k, (ti, v) in enumerate(comp) if v == last_value]
        if last_value is not None and pos and loc.get("task_index") is not None and _suspended_at_yield(agen):
            o += [1, comp[pos[0]][0], len(comp) - pos[0] - 1]
        else:
            o += [0]
        o += [-7, 1 if loc["stopped_on_first_completion"] else 0]
        e = loc["exception_to_raise"]
        exc = -1 if e is None else getattr(e, "code", 999)
    o += [-7, exc, -7]
    for v in out:
        o += [v // 100, v]
    return o


def _suspended_at_yield(agen):
    # the async generator is suspended at `yield value` iff it is not awaiting anything
    return agen.ag_await is None and not agen.ag_running


def run_merge(rng, srcs, stop_mode, slow_consumer):
    """srcs: list of (items, err) with err = -1 (normal end) or an error code.
    Returns (segments, output values, raised code or None, finished, monitor failures, stats)."""
    n = len(srcs)
    loop = vloop.VirtualLoop()
    loop.auto = False
    asyncio.set_event_loop(loop)
    log, segs, last = [], [], [0]
    out, state = [], dict(raised=None, finished=False, last=None, waiting_consumer=False)
    gates = {}
    waiting = set()
    junk = [object() for _ in range(rng.randrange(300))]
    lat = [[rng.choice([0, 0, 0, 1, 2]) for _ in range(len(items) + 1)] for items, _ in srcs]
    stats = dict(batches=0, multi=0, err_seen=0)
    cgate = [None]

    async def source(i):
        items, err = srcs[i]
        for k in range(len(items) + 1):
            g = gates[i] = loop.create_future()
            waiting.add(i)
            await g
            waiting.discard(i)
            for _ in range(lat[i][k]):
                await asyncio.sleep(0)
            log.append([0, i])
            if k < len(items):
                yield items[k]
            elif err >= 0:
                raise SrcError(err)
            else:
                return

    gens = [source(i) for i in range(n)]
    agen = IU.merge_generators(*gens, stop_on_first_completion=stop_mode)

    def on_done(done):
        loc = merge_frame(agen)
        order = [idx_of_task(loc, t) for t in done]
        log.append([1] + order)
        stats["batches"] += 1
        stats["multi"] += 1 if len(order) > 1 else 0

    def obs():
        segs.append((list(log[last[0]:]), observe_merge(agen, n, out, state["raised"], state["last"])))
        last[0] = len(log)

    async def consumer():
        first = True
        while True:
            if not first:
                if slow_consumer:
                    cgate[0] = loop.create_future()
                    state["waiting_consumer"] = True
                    await cgate[0]
                    state["waiting_consumer"] = False
                log.append([2])
            first = False
            try:
                v = await agen.__anext__()
            except StopAsyncIteration:
                break
            except SrcError as e:
                state["raised"] = e
                stats["err_seen"] += 1
                break
            out.append(v)
            state["last"] = v
        state["finished"] = True

    async def driver():
        ct = asyncio.ensure_future(consumer())
        await vloop.settle()
        obs()
        for _ in range(40 * (n + 1)):
            if ct.done():
                break
            acts = []
            if waiting:
                acts += ["src"] * 3
            if state["waiting_consumer"]:
                acts += ["cons"] * 2
            if not acts:
                await vloop.settle()
                if not waiting and not state["waiting_consumer"] and not ct.done():
                    break
                continue
            if rng.choice(acts) == "src":
                ws = sorted(waiting)
                k = rng.choice([1, 1, 2, 2, 3, len(ws)])
                for i in rng.sample(ws, min(k, len(ws))):
                    gates[i].set_result(None)
            else:
                cgate[0].set_result(None)
            await vloop.settle()
            obs()
        if ct.done() and ct.exception() is not None:
            raise ct.exception()
        if not ct.done():
            ct.cancel()

    try:
        with wait_hook(on_done):
            loop.run_until_complete(driver())
    finally:
        try:
            pend = [t for t in asyncio.all_tasks(loop) if not t.done()]
            for t in pend:
                t.cancel()
            if pend:
                loop.run_until_complete(asyncio.gather(*pend, return_exceptions=True))
            loop.run_until_complete(loop.shutdown_asyncgens())
        except BaseException:  # noqa: BLE001
            pass
        asyncio.set_event_loop(None)
        loop.close()
    del junk
    raised = None if state["raised"] is None else state["raised"].code
    mon = merge_monitor(srcs, stop_mode, out, raised, state["finished"])
    return segs, out, raised, state["finished"], mon, stats


def merge_monitor(srcs, stop_mode, out, raised, finished):
    """C29, first sentence, on the real output."""
    fails = []
    if len(set(out)) != len(out):
        fails.append(("merge-duplicate", "an item was yielded twice: %s" % out))
    for i, (items, err) in enumerate(srcs):
        got = [v for v in out if v // 100 == i]
        if got != items[:len(got)]:
            fails.append(("merge-order", "source %d produced %s but its items were yielded as %s" % (i, items, got)))
    if finished and not stop_mode:
        errs = [e for _, e in srcs if e >= 0]
        if raised is None:
            if errs:
                fails.append(("merge-error-lost", "a source raised (codes %s) but merge_generators ended normally" % errs))
            for i, (items, err) in enumerate(srcs):
                got = [v for v in out if v // 100 == i]
                if got != items:
                    fails.append(("merge-item-lost", "source %d: items %s, yielded %s" % (i, items, got)))
        elif raised not in errs:
            fails.append(("merge-error-wrong", "raised %s, sources' errors %s" % (raised, errs)))
    if not finished:
        fails.append(("merge-hang", "merge_generators did not finish although every source finished"))
    return fails


def gen_srcs(rng):
    n = rng.choice([1, 2, 2, 3, 3, 4])
    srcs = []
    for i in range(n):
        k = rng.choice([0, 1, 2, 3, 4])
        err = (900 + i) if rng.random() < 0.2 else -1
        srcs.append(([100 * i + j for j in range(k)], err))
    return srcs


def g_choices(cs):
    return glist(gzlist(c) for c in cs)


def merge_expr(srcs, stop_mode, segs):
    return "mcheck %s %s %s" % (
        "true" if stop_mode else "false",
        glist("(%s, %s)" % (gzlist(items), gz(err)) for items, err in srcs),
        glist("(%s, %s)" % (g_choices(cs), gzlist(o)) for cs, o in segs))


# ---------------------------------------------------------------- debounced_sorted_prefix
def run_dsp(rng, items, keys, delays, debounce, maxwin, junk_n=0):
    """items: unique ints; keys[v]: sort key; delays[k]: virtual seconds slept before item k is
    produced; a final delay before the source ends.  Returns (schedule, output, finished, burst_info)."""
    loop = vloop.VirtualLoop()
    loop.auto = True
    vloop.CLOCK.loop = loop
    asyncio.set_event_loop(loop)
    log, out = [], []
    junk = [object() for _ in range(junk_n)]
    seen_fin1 = [0]
    holder = {}

    # in a third of the cases the stream carries plain STRINGS (log lines) instead of ints: the function is generic in
    # its item type, nothing may depend on what the items are
    as_str = bool(items) and sum(items) % 3 == 0
    wrap = (lambda v: "line-%d" % v) if as_str else (lambda v: v)
    unwrap = (lambda o: int(o[5:]) if isinstance(o, str) and o.startswith("line-") else o)

    async def inner():
        for k, v in enumerate(items):
            if delays[k] > 0:
                await asyncio.sleep(delays[k])
            log.append([0, 0])
            yield wrap(v)
        if delays[len(items)] > 0:
            await asyncio.sleep(delays[len(items)])
        log.append([0, 0])

    def merged_agen():
        fr = holder["agen"].ag_frame
        return None if fr is None else fr.f_locals.get("merged")

    def on_done(done):
        m = merged_agen()
        loc = merge_frame(m)
        order = [idx_of_task(loc, t) for t in done]
        # the debouncer's stream is not ours: its completions are seen here
        t1 = loc["next_item_tasks"].get(1)
        if t1 is not None and t1.done() and 1 in order:
            log.append([0, 1])
        log.append([3] + order)

    async def main():
        agen = holder["agen"] = IU.debounced_sorted_prefix(
            inner(), key=lambda v: keys[unwrap(v)], debounce_seconds=debounce, max_window_seconds=maxwin)
        async for v in agen:
            out.append(unwrap(v))
        return True

    finished = False
    try:
        with wait_hook(on_done):
            finished = loop.run_until_complete(asyncio.wait_for(main(), 10_000))
    finally:
        try:
            pend = [t for t in asyncio.all_tasks(loop) if not t.done()]
            for t in pend:
                t.cancel()
            if pend:
                loop.run_until_complete(asyncio.gather(*pend, return_exceptions=True))
            loop.run_until_complete(loop.shutdown_asyncgens())
        except BaseException:  # noqa: BLE001
            pass
        vloop.CLOCK.loop = None
        asyncio.set_event_loop(None)
        loop.close()
    del junk
    return log, out, bool(finished)


def dsp_monitor(items, keys, out, delays=None, debounce=None, maxwin=None):
    """C29, second sentence: every item once; for some split of the input into initial burst + later items
    the output is the burst stably sorted by key followed by the later items in arrival order.  With the
    timing known the split is constrained: items arriving strictly before the first moment the window can
    end (min(debounce, max window) after the start) belong to the burst, items arriving strictly after
    the max window are later items."""
    if sorted(out) != sorted(items):
        return ("dsp-items", "input %s, yielded %s" % (items, out))
    lo, hi = 0, len(items)
    if delays is not None:
        t, arr = 0.0, []
        for k in range(len(items)):
            t += delays[k]
            arr.append(t)
        lo = sum(1 for a in arr if a < min(debounce, maxwin))
        hi = sum(1 for a in arr if a <= maxwin)
    for b in range(lo, hi + 1):
        if out[b:] == items[b:] and out[:b] == sorted(items[:b], key=lambda v: keys[v]):
            return None
    return ("dsp-order", "input %s (keys %s, arrival delays %s, debounce %s, max window %s) yielded as %s: not "
                         "<initial burst sorted by key> + <later items in arrival order> for any admissible burst "
                         "(at least the first %d, at most the first %d items)"
            % (items, [keys[v] for v in items], delays, debounce, maxwin, out, lo, hi))


def gen_dsp(rng):
    n = rng.choice([0, 1, 2, 3, 4, 5, 6])
    items = list(range(10, 10 + n))
    if rng.random() < 0.5:
        rng.shuffle(items)        # arrival order is not the order of the item values: ties between equal keys must be
                                  # broken by ARRIVAL (stable sort), never by comparing the items themselves
    ks = [rng.randrange(6) for _ in items]
    keys = {v: k for v, k in zip(items, ks)}
    debounce = rng.choice([0.25, 0.5, 1.0])
    maxwin = debounce * rng.choice([1, 1, 2, 4])
    delays = []
    t_first = 0.0
    for k in range(n + 1):
        r = rng.random()
        if r < 0.35:
            d = 0.0
        elif r < 0.55:
            d = debounce                     # exactly at the end of the (extended) window
        elif r < 0.65:
            d = maxwin                       # exactly at the max window
        elif r < 0.8:
            d = debounce / 2
        elif r < 0.9:
            d = debounce * 2
        else:
            d = rng.choice([0.125, 0.375, 3.0])
        delays.append(d)
    return items, keys, delays, debounce, maxwin


def dsp_expr(items, keys, sched, out, finished):
    return "dsp_check %s %s (-1) %s %s %s" % (
        glist("(%s, %s)" % (gz(v), gz(k)) for v, k in keys.items()), gzlist(items),
        g_choices(sched), gzlist(out), "true" if finished else "false")


def merge_cancelled_input_case(rng):
    """An input of merge_generators dies with asyncio.CancelledError raised inside its own body (it awaited something that
    someone else cancelled) while the consumer of the merged stream is NOT being cancelled.  That is the input's error like
    any other: it reaches the consumer; the merged stream must not end normally with that input silently dropped.
    Returns (failure text or None, facts)."""
    n = rng.randint(1, 3)
    victim = rng.randrange(n)
    lens = [rng.randint(0, 3) for _ in range(n)]
    die_after = rng.randint(0, lens[victim])
    got, state = [], dict(raised=None, finished=False)

    async def source(i):
        for k in range(lens[i]):
            if i == victim and k == die_after:
                raise asyncio.CancelledError()
            await asyncio.sleep(0)
            yield (i, k)
        if i == victim and die_after == lens[i]:
            raise asyncio.CancelledError()

    async def main():
        agen = IU.merge_generators(*[source(i) for i in range(n)])
        try:
            async for v in agen:
                got.append(v)
            state["finished"] = True
        except asyncio.CancelledError as e:
            state["raised"] = e
        except Exception as e:  # noqa: BLE001
            state["raised"] = e

    vloop.run(main())
    facts = dict(inputs=n, lengths=lens, victim=victim, dies_after=die_after, delivered=len(got),
                 outcome="ended normally" if state["finished"] else "raised %r" % (state["raised"],))
    if state["finished"]:
        return ("input %d of %d raised CancelledError from its own body after %d items, but the merged stream ended normally "
                "after %d items: the input's failure was swallowed and its remaining items dropped" % (victim, n, die_after, len(got))), facts
    return None, facts
