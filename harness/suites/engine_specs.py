"""Workflow templates (spec generators) for the L2 engine suite. Each returns (spec, externals, opts)."""
from suites.wfevents import T1, T2, T3, T4, U6, HR, IR, MyStop, MyStart
from workflows.events import StartEvent, StopEvent
from workflows import retry_policy as rp


def fanout(rng):
    """start sends n T1 -> `work` (k workers, gated, may fail+retry) returns T2 -> `gather` collects n T2 -> Stop."""
    n = rng.choice([1, 2, 3, 4, 5])
    k = rng.choice([1, 2, 3, 4])
    kg = rng.choice([1, 1, 2, 3])
    fail = rng.choice([0, 0, 1, 2])
    pol = rp.retry_policy(wait=rp.wait_fixed(rng.choice([0, 0, 0.5])), stop=rp.stop_after_attempt(4)) if fail else None
    work = [("gate", "w")]
    if fail:
        work = [("fail_until", fail, "value"), ("gate", "w")]
    spec = dict(steps={
        "a_start": dict(accepts=[StartEvent], returns=[T1, type(None)], num_workers=1,
                        script=[("send", T1, n, None), ("return", None)]),
        "b_work": dict(accepts=[T1], returns=[T2], num_workers=k, policy=pol, script=work + [("return", T2)]),
        "c_gather": dict(accepts=[T2], returns=[StopEvent, type(None)], num_workers=kg,
                         script=[("gate", "c"), ("collect", [T2] * n, None), ("return", StopEvent)]),
    })
    return spec, [], dict(policy=rng.choice(["random", "random", "lifo", "fifo"]))


def waitfan(rng):
    """start sends n T1 -> `b_wait` (k workers) waits for HR(k=<its own i>) (replayed when the response or the
    timeout arrives), then gated, returns T2 -> `c_gather` collects n T2 -> Stop.  Responses are external sends
    in a random order, possibly duplicated, possibly before the waiter exists."""
    n = rng.choice([1, 2, 3, 4])
    k = rng.choice([1, 2, 3, 4])
    wev = rng.choice([None, IR])
    spec = dict(steps={
        "a_start": dict(accepts=[StartEvent], returns=[T1, type(None)], num_workers=1,
                        script=[("send", T1, n, None), ("return", None)]),
        "b_wait": dict(accepts=[T1], returns=[T2], num_workers=k,
                       script=[("wait", HR, {"k": "$i"}, rng.choice([5.0, 5.0, 50.0]), None, wev, "none"),
                               ("gate", "w"), ("return", T2)]),
        "c_gather": dict(accepts=[T2], returns=[StopEvent, type(None)], num_workers=rng.choice([1, 2]),
                         script=[("collect", [T2] * n, None), ("return", StopEvent)]),
    })
    ids = list(range(1, n + 1))
    rng.shuffle(ids)
    if rng.random() < 0.4:
        ids.append(rng.choice(ids))     # a duplicate response

    def mk(i):
        def f(handler, rec):
            rec.ev("external", ev="HR", k=i)
            handler.ctx.send_event(HR(k=i))
        f.label = "HR(k=%d)" % i
        return f

    return spec, [mk(i) for i in ids], dict(policy=rng.choice(["random", "lifo", "fifo"]))


def multiwait(rng):
    """ONE event resolves SEVERAL waiters of the same step in one tick: start sends n T1 -> `b_wait` (k <= n workers)
    waits for any HR (no requirements) under its own waiter id, then gated, returns T2 -> `c_gather` collects n T2 ->
    Stop.  All n invocations end up parked as waiters (a waiting invocation gives its slot back); one external HR then
    admits n replays at once on k slots (the others must queue)."""
    n = rng.choice([2, 3, 4])
    k = rng.choice([1, 1, 2, n])
    spec = dict(steps={
        "a_start": dict(accepts=[StartEvent], returns=[T1, type(None)], num_workers=1,
                        script=[("send", T1, n, None), ("return", None)]),
        "b_wait": dict(accepts=[T1], returns=[T2], num_workers=k,
                       script=[("wait", HR, {}, None, "w$i", None, "none"), ("gate", "w"), ("return", T2)]),
        "c_gather": dict(accepts=[T2], returns=[StopEvent, type(None)], num_workers=1,
                         script=[("collect", [T2] * n, None), ("return", StopEvent)]),
    })

    def hr(handler, rec):
        # sent by a timer: time only passes when nothing else can happen, i.e. when every invocation is parked
        import asyncio

        def send():
            rec.ev("external", ev="HR", k=0)
            handler.ctx.send_event(HR(k=0))
        asyncio.get_running_loop().call_later(20.0, send)
    hr.label = "HR in 20 s"
    return spec, [hr], dict(policy=rng.choice(["random", "fifo", "lifo"]), time_bias=0.0)


def samefan(rng):
    """fan-out of events with IDENTICAL payload: start sends n equal T1 -> `b_work` (k < n workers, gated) returns T2 ->
    `c_gather` collects n T2 -> Stop.  The invocations of b_work cannot be told apart by their input: slot bookkeeping
    must go by worker id, whatever order they finish in."""
    n = rng.choice([3, 4, 5])
    k = rng.choice([2, 2, 3])
    spec = dict(steps={
        "a_start": dict(accepts=[StartEvent], returns=[T1, type(None)], num_workers=1,
                        script=[("send_same", T1, n, None), ("return", None)]),
        "b_work": dict(accepts=[T1], returns=[T2], num_workers=k, script=[("gate", "w"), ("return", T2)]),
        "c_gather": dict(accepts=[T2], returns=[StopEvent, type(None)], num_workers=1,
                         script=[("collect", [T2] * n, None), ("return", StopEvent)]),
    })
    return spec, [], dict(policy=rng.choice(["lifo", "random", "lifo"]))


TEMPLATES = [fanout, waitfan, multiwait, samefan]


def targeted(rng):
    """start sends n T1, each either broadcast or addressed to one of two steps that both accept T1;
    b1/b2 (gated) answer T2; gather collects exactly the number of deliveries the property demands."""
    n = rng.choice([1, 2, 3, 4])
    tg = [rng.choice([None, "b1", "b2"]) for _ in range(n)]
    m = sum(2 if t is None else 1 for t in tg)
    spec = dict(steps={
        "a_start": dict(accepts=[StartEvent], returns=[T1, type(None)], num_workers=1,
                        script=[("send", T1, 1, t) for t in tg] + [("return", None)]),
        "b1": dict(accepts=[T1], returns=[T2], num_workers=rng.choice([1, 2, 3]),
                   script=[("gate", "w"), ("return", T2)]),
        "b2": dict(accepts=[T1], returns=[T2], num_workers=rng.choice([1, 2]),
                   script=[("gate", "w"), ("return", T2)]),
        "c_gather": dict(accepts=[T2], returns=[StopEvent, type(None)], num_workers=1,
                         script=[("collect", [T2] * m, None), ("return", StopEvent)]),
    })
    spec["expected"] = {("b1", i + 1): (1 if t in (None, "b1") else 0) for i, t in enumerate(tg)}
    spec["expected"].update({("b2", i + 1): (1 if t in (None, "b2") else 0) for i, t in enumerate(tg)})
    return spec, [], dict(policy=rng.choice(["random", "lifo", "fifo"]))


def sendwait(rng):
    """waitfan whose waiting step SENDS a note to another step immediately before it suspends in wait_for_event (no await in
    between), on the first pass and again on every replay: every one of those sends is an event of its own and is delivered"""
    spec, ext, opts = waitfan(rng)
    spec["steps"]["b_wait"]["script"] = [("send", T3, 1, None)] + spec["steps"]["b_wait"]["script"]
    spec["steps"]["b_wait"]["returns"] = [T2, T3]
    spec["steps"]["d_note"] = dict(accepts=[T3], returns=[type(None)], num_workers=rng.choice([1, 2]), script=[("return", None)])
    return spec, ext, opts


TEMPLATES_C02 = [fanout, targeted, waitfan, sendwait]     # props/C02.py adds failflow (defined below)


def irflow(rng):
    """start sends n T1 -> `b_ask` (k workers, gated) RETURNS an InputRequiredEvent subclass (IR) ->
    nobody consumes IR inside the workflow (boundary event) ; external HR(k=j) responses -> `c_answer`
    (accepts HR, gated) returns T2 -> `d_gather` collects n T2 -> Stop."""
    n = rng.choice([1, 2, 3, 4])
    k = rng.choice([1, 2, 3])
    spec = dict(steps={
        "a_start": dict(accepts=[StartEvent], returns=[T1, type(None)], num_workers=1,
                        script=[("send", T1, n, None), ("return", None)]),
        "b_ask": dict(accepts=[T1], returns=[IR], num_workers=k, script=[("gate", "w"), ("return", IR)]),
        "c_answer": dict(accepts=[HR], returns=[T2], num_workers=rng.choice([1, 2]),
                         script=[("gate", "c"), ("return", T2)]),
        "d_gather": dict(accepts=[T2], returns=[StopEvent, type(None)], num_workers=1,
                         script=[("collect", [T2] * n, None), ("return", StopEvent)]),
    })

    def mk(i):
        def f(handler, rec):
            rec.ev("external", ev="HR", k=i)
            handler.ctx.send_event(HR(k=i))
        f.label = "HR(k=%d)" % i
        return f

    return spec, [mk(i) for i in range(1, n + 1)], dict(policy=rng.choice(["random", "lifo", "fifo"]))


def sendnone(rng):
    """C03b shape: `a_start` sends n T1 with ctx.send_event and returns None; `b_work` (k workers, gated, may fail
    and retry with a delay) returns T2; `c_gather` collects n T2 -> Stop.  After a_start finishes the reducer state
    is quiet while the sent events are still in the run's mailbox."""
    n = rng.choice([1, 2, 3])
    fail = rng.choice([0, 1, 2])
    delay = rng.choice([0, 0.5, 2.0])
    pol = rp.retry_policy(wait=rp.wait_fixed(delay), stop=rp.stop_after_attempt(4)) if fail else None
    work = ([("fail_until", fail, "value")] if fail else []) + [("gate", "w"), ("return", T2)]
    spec = dict(steps={
        "a_start": dict(accepts=[StartEvent], returns=[T1, type(None)], num_workers=1,
                        script=[("send", T1, n, None), ("return", None)]),
        "b_work": dict(accepts=[T1], returns=[T2], num_workers=rng.choice([1, 2]), policy=pol, script=work),
        "c_gather": dict(accepts=[T2], returns=[StopEvent, type(None)], num_workers=1,
                         script=[("collect", [T2] * n, None), ("return", StopEvent)]),
    })
    spec["retry_delay"] = delay if fail else None
    return spec, [], dict(policy=rng.choice(["random", "lifo", "fifo"]))


def retrychain(rng):
    """start -> `b_work` fails `fail` times with a retry delay, then returns Stop. Nothing else is pending while
    the retry waits out its delay (C03a shape)."""
    fail = rng.choice([1, 2, 3])
    delay = rng.choice([0.5, 1.0, 3.0])
    pol = rp.retry_policy(wait=rp.wait_fixed(delay), stop=rp.stop_after_attempt(5))
    spec = dict(steps={
        "a_start": dict(accepts=[StartEvent], returns=[T1], num_workers=1, script=[("return", T1)]),
        "b_work": dict(accepts=[T1], returns=[StopEvent], num_workers=1, policy=pol,
                       script=[("fail_until", fail, "value"), ("return", StopEvent)]),
    })
    spec["retry_delay"] = delay
    return spec, [], dict(policy="random")


def collect2(rng):
    """start sends m = rounds*n T2 to `c_gather` (k workers, gated BEFORE collect_events so invocations overlap and
    see stale snapshots), which collects n T2 per set and returns T3 per full set; `d_sink` swallows T3.  The run is
    ended by the workflow timeout (virtual time) once everything is quiet."""
    n = rng.choice([1, 2, 2, 3])
    rounds = rng.choice([1, 2, 3])
    k = rng.choice([1, 2, 3, 4])
    spec = dict(steps={
        "a_start": dict(accepts=[StartEvent], returns=[T2, type(None)], num_workers=1,
                        script=[("send", T2, n * rounds, None), ("return", None)]),
        "c_gather": dict(accepts=[T2], returns=[T3, type(None)], num_workers=k,
                         script=[("gate", "c"), ("collect", [T2] * n, None), ("return", T3)]),
        "d_sink": dict(accepts=[T3], returns=[StopEvent, type(None)], num_workers=2, script=[("return", None)]),
    }, timeout=500.0)
    spec["collect_n"], spec["collect_rounds"], spec["collect_k"] = n, rounds, k
    return spec, [], dict(policy=rng.choice(["random", "lifo", "fifo"]))


def failflow(rng):
    """start -> `b_work` (T1) raises (always, or until retry k) under stop_after_attempt(r) -> T2 -> `c_next` -> Stop.
    Handlers: optional scoped `h_scoped` (for b_work and/or c_next) and optional wildcard `h_wild`, max_recoveries 1..3.
    A handler returns T1 again (the lineage re-enters the failing step and the handler), recovers with a StopEvent, or
    raises itself (a failing handler must not be routed to any handler)."""
    layout = rng.choice(["scoped", "wild", "both", "none", "scoped", "both"])
    mode = rng.choice(["always", "always", "until"])
    r = rng.choice([1, 2, 3])
    k = rng.choice([1, 2, 3])
    pol = rp.retry_policy(wait=rp.wait_fixed(rng.choice([0, 0, 0.25])), stop=rp.stop_after_attempt(r))
    bscript = [("raise", "value", "boom")] if mode == "always" else [("fail_until", k, "value"), ("return", T2)]
    cfail = rng.random() < 0.3
    cscript = [("raise", "runtime", "cboom")] if cfail else [("return", StopEvent)]
    steps = {
        "a_start": dict(accepts=[StartEvent], returns=[T1], num_workers=1, script=[("return", T1)]),
        "b_work": dict(accepts=[T1], returns=[T2], num_workers=rng.choice([1, 2]), policy=pol, script=bscript),
        "c_next": dict(accepts=[T2], returns=[StopEvent], num_workers=1, script=cscript),
    }
    handlers = {}

    def hscript():
        x = rng.random()
        if x < 0.3:
            return [("return", T1)], "reenter"
        if x < 0.5:
            # (the handler re-dispatches the work with ctx.send_event instead of returning it: the same lineage)
            return [("send", T1, 1, None), ("return", None)], "reenter"
        if x < 0.8:
            return [("return", StopEvent)], "recover"
        return [("raise", "key", "hboom")], "raise"
    if layout in ("scoped", "both"):
        sc, beh = hscript()
        handlers["h_scoped"] = dict(for_steps=rng.choice([["b_work"], ["b_work", "c_next"], ["c_next"]]),
                                    max_recoveries=rng.choice([1, 2, 3]), returns=[T1, StopEvent, type(None)], script=sc, behaviour=beh)
    if layout in ("wild", "both"):
        sc, beh = hscript()
        handlers["h_wild"] = dict(for_steps=None, max_recoveries=rng.choice([1, 2, 3]), returns=[T1, StopEvent, type(None)],
                                  script=sc, behaviour=beh)
    spec = dict(steps=steps, handlers=handlers, disable_validation=rng.random() < 0.5)
    return spec, [], dict(policy="random")


class RaisingPolicy:
    """a user retry policy whose next() raises"""

    def next(self, elapsed_time, attempts, error):
        raise RuntimeError("policy bug")


def _boom(e):
    raise ZeroDivisionError("predicate bug")


import dataclasses as _dc


@_dc.dataclass
class DataclassPolicy:
    """a user retry policy written as a plain dataclass (eq=True makes it unhashable), with and without `seed`"""
    max_attempts: int = 2
    delay: float = 0.0

    def next(self, elapsed_time, attempts, error, *, seed=None):
        return None if attempts >= self.max_attempts else self.delay


@_dc.dataclass
class DataclassPolicyNoSeed:
    max_attempts: int = 2

    def next(self, elapsed_time, attempts, error):
        return None if attempts >= self.max_attempts else 0.0


def exits(rng):
    """Every way a run can end: result, step failure (with/without retries), a retry policy or retry predicate that
    raises, a step returning a non-event, several invocations racing to return StopEvent, user cancellation at a random
    moment, the workflow timeout, and a body that publishes while it is being cancelled."""
    mode = rng.choice(["result", "step_fail", "policy_raises", "pred_raises", "other_return", "stop_race", "cancel",
                       "timeout", "cancel", "timeout", "finally_publish", "user_policy_object", "stop_race_publish",
                       "stop_race_slow_unwind"])
    n = rng.choice([1, 2, 3])
    k = rng.choice([1, 2, 3])
    pol = None
    bscript = [("gate", "w"), ("return", T2)]
    cscript = [("collect", [T2] * n, None), ("return", StopEvent)]
    timeout = None
    ext = []
    if mode == "step_fail":
        pol = rng.choice([None, rp.retry_policy(wait=rp.wait_fixed(rng.choice([0, 0.5])), stop=rp.stop_after_attempt(2))])
        bscript = [("gate", "w"), ("raise", "value", "boom")]
    elif mode == "policy_raises":
        pol = RaisingPolicy()
        bscript = [("gate", "w"), ("raise", "value", "boom")]
    elif mode == "user_policy_object":
        pol = rng.choice([DataclassPolicy(rng.choice([1, 2, 3]), rng.choice([0.0, 0.5])), DataclassPolicyNoSeed(rng.choice([1, 2]))])
        bscript = [("gate", "w"), ("raise", "value", "boom")]
    elif mode == "pred_raises":
        pol = rp.retry_policy(retry=rp.retry_if_exception(_boom), wait=rp.wait_fixed(0), stop=rp.stop_after_attempt(3))
        bscript = [("gate", "w"), ("raise", "value", "boom")]
    elif mode == "other_return":
        bscript = [("gate", "w"), ("return", "other")]
        timeout = 40.0
    elif mode == "stop_race":
        bscript = [("gate", "w"), ("return", StopEvent)]
    elif mode == "stop_race_publish":
        # the first invocation to finish returns StopEvent while its siblings are still running; they publish while
        # being cancelled
        n, k = rng.choice([2, 3]), rng.choice([2, 3])
        bscript = [("on_cancel_publish", U6), ("gate", "w"), ("return", StopEvent)]
    elif mode == "stop_race_slow_unwind":
        # the first invocation to finish returns StopEvent BEFORE the workflow timeout; its siblings need longer than the
        # remaining time to unwind from their cancellation: the run finished first and must not be timed out
        n, k = rng.choice([2, 3]), rng.choice([2, 3])
        timeout = rng.choice([2.0, 5.0])
        # (half of the cases: the StopEvent is returned a fraction of a second BEFORE the deadline by the first input, while
        # its siblings are still working; the engine waits for them to unwind, and the deadline passes during that wait)
        late = rng.choice([None, 0.125, 0.25, 0.375])
        bscript = [("on_cancel_sleep", 3 * timeout), ("gate", "w")] + \
            ([("sleep_first", timeout - late)] if late else []) + [("return", StopEvent)]
    elif mode == "timeout":
        timeout = rng.choice([2.0, 5.0])
    elif mode == "finally_publish":
        bscript = [("on_cancel_publish", U6), ("gate", "w"), ("return", T2)]
        if rng.random() < 0.5:
            timeout = 3.0
    if mode in ("cancel", "finally_publish") and timeout is None:
        def cancel(handler, rec):
            import asyncio
            rec.ev("external", ev="cancel")
            asyncio.ensure_future(handler.cancel_run())
        cancel.label = "cancel_run"
        ext = [cancel]
    spec = dict(steps={
        "a_start": dict(accepts=[StartEvent], returns=[T1, type(None)], num_workers=1,
                        script=[("send", T1, n, None), ("return", None)]),
        "b_work": dict(accepts=[T1], returns=[T2, StopEvent], num_workers=k, policy=pol, script=bscript),
        "c_done": dict(accepts=[T2], returns=[StopEvent, type(None)], num_workers=1, script=cscript),
    }, timeout=timeout)
    spec["mode"] = mode
    return spec, ext, dict(policy=rng.choice(["random", "lifo", "fifo"]))


def selfcancel(rng):
    """a step body that ends with CancelledError of its own making (it awaits a cancelled future) while the run goes on:
    start sends n T1 -> `b_work` (k workers, gated): the invocation for the first event cancels itself, the others return T2
    -> `c_gather` collects n-1 T2 -> Stop."""
    n = rng.choice([2, 3, 4])
    spec = dict(steps={
        "a_start": dict(accepts=[StartEvent], returns=[T1, type(None)], num_workers=1,
                        script=[("send", T1, n, None), ("return", None)]),
        "b_work": dict(accepts=[T1], returns=[T2], num_workers=rng.choice([1, 2, 3]),
                       script=[("gate", "w"), ("self_cancel", [1]), ("return", T2)]),
        "c_gather": dict(accepts=[T2], returns=[StopEvent, type(None)], num_workers=1,
                         script=[("collect", [T2] * (n - 1), None), ("return", StopEvent)]),
    }, timeout=200.0)
    return spec, [], dict(policy=rng.choice(["random", "fifo", "lifo"]))


def lockflow(rng):
    """events that carry a payload which cannot be copied (a lock): start sends n T1 -> `b_work` (gated) returns T2 with the
    payload -> `c_done` collects n T2 (the buffer holds such events across several invocations) -> Stop."""
    n = rng.choice([2, 3, 4])
    spec = dict(steps={
        "a_start": dict(accepts=[StartEvent], returns=[T1, type(None)], num_workers=1,
                        script=[("send", T1, n, None), ("return", None)]),
        "b_work": dict(accepts=[T1], returns=[T2], num_workers=rng.choice([1, 2, 3]), script=[("gate", "w"), ("return_lock", T2)]),
        "c_done": dict(accepts=[T2], returns=[StopEvent, type(None)], num_workers=rng.choice([1, 2]),
                       script=[("collect", [T2] * n, None), ("return", StopEvent)]),
    })
    spec["mode"] = "uncopyable_payload"
    return spec, [], dict(policy=rng.choice(["random", "lifo", "fifo"]))


def exits_tc(rng):
    """exits restricted to the timeout / cancellation modes (C31); time passes more readily so that timeouts strike
    while step work is in progress, and sometimes the run finishes just before its timeout"""
    while True:
        r2 = __import__("random").Random(rng.randrange(1 << 30))
        spec, ext, opts = exits(r2)
        if spec["mode"] in ("cancel", "timeout", "finally_publish", "other_return", "stop_race_slow_unwind"):
            break
    opts = dict(opts)
    opts["time_bias"] = 0.35
    return spec, ext, opts


def countflow(rng):
    """deterministic workflow for snapshot/resume: start sends n T1; `b_work` (k workers) optionally fails until retry f
    (zero-delay retries), waits at a gate, increments the state-store counter `n`, returns T2; `c_gather` collects n T2
    and returns StopEvent(result="done").  Bodies are suspended only at the gate, before any side effect."""
    n = rng.choice([1, 2, 3, 4])
    k = rng.choice([1, 2, 3])
    f = rng.choice([0, 0, 1, 2])
    pol = rp.retry_policy(wait=rp.wait_fixed(0), stop=rp.stop_after_attempt(4)) if f else None
    work = ([("fail_until", f, "value")] if f else []) + [("gate", "w"), ("incr", "n"), ("return", T2)]
    spec = dict(steps={
        "a_start": dict(accepts=[StartEvent], returns=[T1, type(None)], num_workers=1,
                        script=[("send", T1, n, None), ("return", None)]),
        "b_work": dict(accepts=[T1], returns=[T2], num_workers=k, policy=pol, script=work),
        "c_gather": dict(accepts=[T2], returns=[StopEvent, type(None)], num_workers=1,
                         script=[("collect", [T2] * n, None), ("return_const", "done")]),
    })
    spec["count_n"], spec["fail_until"] = n, f
    return spec, [], dict(policy=rng.choice(["random", "lifo", "fifo"]))


def sameretries(rng):
    """two (or three) invocations of the SAME step waiting out retry delays that end at different times: start sends m
    T1 to `b_work` (m workers); invocation i works i*s seconds, fails once, is retried d seconds later (s < d, so every
    retry is already scheduled when the first one fires) and returns T2; `c_gather` collects m T2 -> Stop.  Between
    two retries nothing is queued or running, and the only pending work is the later retry of the same step."""
    m = rng.choice([2, 2, 3])
    s_, d = rng.choice([(0.5, 3.0), (1.0, 4.0), (1.0, 6.0)])
    spec = dict(steps={
        "a_start": dict(accepts=[StartEvent], returns=[T1, type(None)], num_workers=1,
                        script=[("send", T1, m, None), ("return", None)]),
        "b_work": dict(accepts=[T1], returns=[T2], num_workers=m,
                       policy=rp.retry_policy(wait=rp.wait_fixed(d), stop=rp.stop_after_attempt(3)),
                       script=[("sleep_first", s_), ("fail_until", 1, "value"), ("return", T2)]),
        "c_gather": dict(accepts=[T2], returns=[StopEvent, type(None)], num_workers=1,
                         script=[("collect", [T2] * m, None), ("return", StopEvent)]),
    })
    spec["retry_delay"] = d
    return spec, [], dict(policy="random", time_bias=0.5)


def collectwait(rng):
    """a collecting step that, having received a full set from collect_events, suspends in wait_for_event in the same
    invocation: start sends n T2 to `c_gather` (1 worker), which collects n T2, then waits for HR(k=7); when the
    response arrives the invocation is replayed and must get the same full set again from collect_events (the buffer is
    deleted only when the step completes), then returns StopEvent."""
    n = rng.choice([1, 2, 3])
    spec = dict(steps={
        "a_start": dict(accepts=[StartEvent], returns=[T2, type(None)], num_workers=1,
                        script=[("send", T2, n, None), ("return", None)]),
        "c_gather": dict(accepts=[T2], returns=[StopEvent, type(None)], num_workers=1,
                         script=[("gate", "c"), ("collect", [T2] * n, None), ("wait", HR, {"k": 7}, None, "w1", None, "none"),
                                 ("return", StopEvent)]),
    }, timeout=300.0)
    spec["collect_n"], spec["collect_rounds"], spec["collect_k"] = n, 1, 1
    spec["collect_then_fail"] = True     # same statement: a later attempt of the invocation gets the same set again
    spec["collect_then_wait"] = True

    def hr(handler, rec):
        # the response is sent by a timer 50 virtual seconds later; time only passes once every gate has been opened
        # (time_bias 0), i.e. when the collecting invocation already waits
        import asyncio

        def send():
            rec.ev("external", ev="HR", k=7)
            handler.ctx.send_event(HR(k=7))
        asyncio.get_running_loop().call_later(50.0, send)
    hr.label = "HR(k=7) in 50 s"
    return spec, [hr], dict(policy="fifo", time_bias=0.0)


def waitflow(rng, gate_after=False):
    """deterministic workflow for snapshot/resume with WAITING steps: start sends n T1; each `b_wait` invocation parks in
    wait_for_event(HR, requirements={k: <its event id>}), records the tag of the event that resolved it in the state
    store (`got<i>`), increments `n` and returns T2; `c_gather` collects n T2 -> StopEvent("done").  Externals: for each
    waiter the matching HR(k=i, tag="right"), some of them preceded by an HR of the awaited type that does NOT meet any
    requirement (k=900+i, tag="wrong")."""
    n = rng.choice([1, 2, 3])
    spec = dict(steps={
        "a_start": dict(accepts=[StartEvent], returns=[T1, type(None)], num_workers=1,
                        script=[("send", T1, n, None), ("return", None)]),
        "b_wait": dict(accepts=[T1], returns=[T2], num_workers=n,
                       script=[("wait", HR, {"k": "$i"}, None, None, None, "none", "got")]
                       + ([("gate", "w")] if gate_after else []) + [("incr", "n"), ("return", T2)]),
        "c_gather": dict(accepts=[T2], returns=[StopEvent, type(None)], num_workers=1,
                         script=[("collect", [T2] * n, None), ("return_const", "done")]),
    })
    spec["count_n"] = n

    def mk(k, tag):
        def f(handler, rec):
            rec.ev("external", ev="HR", k=k, tag=tag)
            handler.ctx.send_event(HR(k=k, tag=tag))
        f.label = "HR(k=%d,%s)" % (k, tag)
        return f
    ids = list(range(1, n + 1))
    rng.shuffle(ids)
    ext = []
    for i in ids:
        if rng.random() < 0.7:
            ext.append(mk(900 + i, "wrong"))
        ext.append(mk(i, "right"))
    return spec, ext, dict(policy="random")


# ---- templates for the runner differential (suites/runnerdiff.py): every body except the start step begins with a
# gate, so that a worker completes only when the driver says so (the model's AWorkerDone action)
def rd_fan(rng):
    n = rng.choice([1, 2, 3])
    k = rng.choice([1, 2, 3])
    fail = rng.choice([0, 0, 1, 2])
    delay = rng.choice([0, 0.5, 2.0])
    pol = rp.retry_policy(wait=rp.wait_fixed(delay), stop=rp.stop_after_attempt(4)) if fail else None
    work = [("gate", "w")] + ([("fail_until", fail, "value")] if fail else []) + [("return", T2)]
    spec = dict(steps={
        "a_start": dict(accepts=[StartEvent], returns=[T1, type(None)], num_workers=1,
                        script=[("send", T1, n, None), ("return", None)]),
        "b_work": dict(accepts=[T1], returns=[T2], num_workers=k, policy=pol, script=work),
        "c_gather": dict(accepts=[T2], returns=[StopEvent, type(None)], num_workers=rng.choice([1, 2]),
                         script=[("gate", "c"), ("collect", [T2] * n, None), ("return", StopEvent)]),
    })
    return spec, [], dict(policy=rng.choice(["random", "lifo", "fifo"]))


def rd_wait(rng):
    n = rng.choice([1, 2, 3])
    k = rng.choice([1, 2, 3])
    wev = rng.choice([None, IR])
    spec = dict(steps={
        "a_start": dict(accepts=[StartEvent], returns=[T1, type(None)], num_workers=1,
                        script=[("send", T1, n, None), ("return", None)]),
        "b_wait": dict(accepts=[T1], returns=[T2], num_workers=k,
                       script=[("gate", "g"), ("wait", HR, {"k": "$i"}, rng.choice([5.0, 50.0]), None, wev, "none"),
                               ("return", T2)]),
        "c_gather": dict(accepts=[T2], returns=[StopEvent, type(None)], num_workers=1,
                         script=[("gate", "c"), ("collect", [T2] * n, None), ("return", StopEvent)]),
    })
    ids = list(range(1, n + 1))
    rng.shuffle(ids)
    if rng.random() < 0.4:
        ids.append(rng.choice(ids))

    def mk(i):
        def f(handler, rec):
            rec.ev("external", ev="HR", k=i)
            handler.ctx.send_event(HR(k=i))
        f.label = "HR(k=%d)" % i
        return f
    return spec, [mk(i) for i in ids], dict(policy=rng.choice(["random", "lifo", "fifo"]))


def rd_multi(rng):
    """runner differential: several invocations of one step wait for ANY HR under their own waiter ids (gate first);
    one external HR resolves all waiters that exist at that moment in one tick, with k <= n slots for the replays"""
    n = rng.choice([2, 3])
    k = rng.choice([1, 2, n])
    spec = dict(steps={
        "a_start": dict(accepts=[StartEvent], returns=[T1, type(None)], num_workers=1,
                        script=[("send", T1, n, None), ("return", None)]),
        "b_wait": dict(accepts=[T1], returns=[T2], num_workers=k,
                       script=[("gate", "g"), ("wait", HR, {}, None, "w$i", None, "none"), ("return", T2)]),
        "c_gather": dict(accepts=[T2], returns=[StopEvent, type(None)], num_workers=1,
                         script=[("gate", "c"), ("collect", [T2] * n, None), ("return", StopEvent)]),
    })

    def mk(i):
        def f(handler, rec):
            rec.ev("external", ev="HR", k=i)
            handler.ctx.send_event(HR(k=i))
        f.label = "HR(k=%d)" % i
        return f
    # (enough responses for every waiter even when each resolves a single one; surplus responses are unhandled events)
    return spec, [mk(0) for _ in range(n + 2)], dict(policy=rng.choice(["random", "lifo", "fifo"]))


def rd_exit(rng, how_fixed=None):
    """runner differential: runs that END by cancellation, by the workflow timeout, by a step failure or by a result -
    a gate-driven fan-out whose workers fail and are retried after a delay (so that time passes), cancelled from outside
    at a scheduler-chosen moment or given a workflow timeout that never coincides with a retry wake-up (x.25 s)"""
    n = rng.choice([1, 2, 3])
    k = rng.choice([1, 2, 3])
    how = rng.choice(["cancel", "timeout", "timeout", "fail", "result"])
    how = how_fixed or how
    fail = rng.choice([1, 2]) if how != "fail" else 9
    delay = rng.choice([0.5, 2.0])
    pol = rp.retry_policy(wait=rp.wait_fixed(delay), stop=rp.stop_after_attempt(4 if how != "fail" else 2))
    work = [("gate", "w"), ("fail_until", fail, "value"), ("return", T2)]
    spec = dict(steps={
        "a_start": dict(accepts=[StartEvent], returns=[T1, type(None)], num_workers=1,
                        script=[("send", T1, n, None), ("return", None)]),
        "b_work": dict(accepts=[T1], returns=[T2], num_workers=k, policy=pol, script=work),
        "c_gather": dict(accepts=[T2], returns=[StopEvent, type(None)], num_workers=1,
                         script=[("gate", "c"), ("collect", [T2] * n, None), ("return", StopEvent)]),
    }, timeout=(rng.choice([0.25, 1.25, 3.25]) if how == "timeout" else None))
    spec["rd_exit"] = how
    ext = []
    if how == "cancel":
        def cancel(handler, rec):
            import asyncio
            rec.ev("external", ev="cancel")
            asyncio.ensure_future(handler.cancel_run())
        cancel.label = "cancel_run"
        ext = [cancel]
    return spec, ext, dict(policy=rng.choice(["random", "lifo", "fifo"]), time_bias=0.3)


def rd_exit_cancel(rng):
    return rd_exit(rng, "cancel")


def rd_exit_timeout(rng):
    return rd_exit(rng, "timeout")


def rd_exit_fail(rng):
    return rd_exit(rng, "fail")


def rd_ir(rng):
    n = rng.choice([1, 2, 3])
    spec = dict(steps={
        "a_start": dict(accepts=[StartEvent], returns=[T1, type(None)], num_workers=1,
                        script=[("send", T1, n, None), ("return", None)]),
        "b_ask": dict(accepts=[T1], returns=[IR], num_workers=rng.choice([1, 2]), script=[("gate", "w"), ("return", IR)]),
        "c_answer": dict(accepts=[HR], returns=[T2], num_workers=rng.choice([1, 2]), script=[("gate", "c"), ("return", T2)]),
        "d_gather": dict(accepts=[T2], returns=[StopEvent, type(None)], num_workers=1,
                         script=[("gate", "d"), ("collect", [T2] * n, None), ("return", StopEvent)]),
    })

    def mk(i):
        def f(handler, rec):
            rec.ev("external", ev="HR", k=i)
            handler.ctx.send_event(HR(k=i))
        f.label = "HR(k=%d)" % i
        return f
    return spec, [mk(i) for i in range(1, n + 1)], dict(policy=rng.choice(["random", "lifo", "fifo"]))


def retrywait(rng):
    """a delayed retry pending BEHIND an earlier wake-up: start sends one T1 to `b_work` (fails `f` times, retry delay 3-6 s)
    and one T3 to `w_wait`, which waits for an HR that may never come with a time-out shorter than the retry delay; the
    run ends when b_work succeeds (-> Stop).  While the retry waits out its delay the earliest scheduled wake-up is the
    waiter time-out (or, in the other variant, the workflow time-out)."""
    f = rng.choice([1, 2])
    delay = rng.choice([3.0, 6.0])
    wt = rng.choice([0.5, 1.0, 2.0])
    pol = rp.retry_policy(wait=rp.wait_fixed(delay), stop=rp.stop_after_attempt(4))
    spec = dict(steps={
        "a_start": dict(accepts=[StartEvent], returns=[T1, T3, type(None)], num_workers=1,
                        script=[("send", T1, 1, None), ("send", T3, 1, None), ("return", None)]),
        "b_work": dict(accepts=[T1], returns=[StopEvent], num_workers=1, policy=pol,
                       script=[("gate", "w"), ("fail_until", f, "value"), ("return", StopEvent)]),
        "w_wait": dict(accepts=[T3], returns=[StopEvent, type(None)], num_workers=1,
                       script=[("gate", "g"), ("wait", HR, {"k": 77}, wt, None, None, "none"), ("return", None)]),
    })
    spec["retry_delay"] = delay
    return spec, [], dict(policy=rng.choice(["random", "fifo", "lifo"]), time_bias=0.3)


def twowaits(rng):
    """a step with TWO sequential wait_for_event calls: start sends n T1 -> `b_two` waits for HR(k=i) (publishing an IR
    question), then for T3(k=i) (publishing a second IR), then returns T2 -> `c_gather` collects n T2 -> Stop.  The answers
    arrive in a random order (each exactly once, sometimes an HR duplicated)."""
    n = rng.choice([1, 2, 3])
    k = rng.choice([1, 2, 3])
    spec = dict(steps={
        "a_start": dict(accepts=[StartEvent], returns=[T1, type(None)], num_workers=1,
                        script=[("send", T1, n, None), ("return", None)]),
        "b_two": dict(accepts=[T1], returns=[T2], num_workers=k,
                      script=[("wait", HR, {"k": "$i"}, 500.0, None, IR, "none"),
                              ("wait", T3, {"k": "$i"}, 500.0, None, IR, "none"),
                              ("gate", "w"), ("return", T2)]),
        "c_gather": dict(accepts=[T2], returns=[StopEvent, type(None)], num_workers=1,
                         script=[("collect", [T2] * n, None), ("return", StopEvent)]),
    })
    sends = [("HR", i) for i in range(1, n + 1)] + [("T3", i) for i in range(1, n + 1)]
    # every T3 answer comes after the HR answer of the same invocation (the second wait does not exist before)
    rng.shuffle(sends)
    sends.sort(key=lambda s: 0)  # keep shuffle
    order, seen_hr = [], set()
    pending_t3 = []
    for kind, i in sends:
        if kind == "HR":
            order.append((kind, i))
            seen_hr.add(i)
            for p in [p for p in pending_t3 if p == i]:
                order.append(("T3", p))
                pending_t3.remove(p)
        elif i in seen_hr:
            order.append((kind, i))
        else:
            pending_t3.append(i)
    if rng.random() < 0.3 and n:
        order.insert(rng.randrange(len(order) + 1), ("HR", rng.randint(1, n)))

    def mk(kind, i):
        def f(handler, rec):
            rec.ev("external", ev=kind, k=i)
            handler.ctx.send_event((HR if kind == "HR" else T3)(k=i))
        f.label = "%s(k=%d)" % (kind, i)
        return f
    spec["two_waits"] = n
    return spec, [mk(kind, i) for kind, i in order], dict(policy=rng.choice(["random", "lifo", "fifo"]))


def queuewait(rng):
    """retry budgets of an event that first had to WAIT IN THE QUEUE: start sends n T1 to `b_work` (k < n workers); every
    invocation works for `w` s (virtual sleep), fails `f` times with a retry delay `d`, then returns T2; `c_gather` collects
    n T2 -> Stop.  Elapsed time of an event's retries is measured from the start of ITS first attempt, not from when it was
    queued."""
    n = rng.choice([2, 3, 4])
    k = rng.choice([1, 1, 2])
    w = rng.choice([0.5, 1.0, 2.0])
    f = rng.choice([1, 2])
    d = rng.choice([0.25, 0.5])
    pol = rp.retry_policy(wait=rp.wait_fixed(d), stop=rp.stop_after_delay(rng.choice([30.0, 60.0])))
    spec = dict(steps={
        "a_start": dict(accepts=[StartEvent], returns=[T1, type(None)], num_workers=1,
                        script=[("send", T1, n, None), ("return", None)]),
        "b_work": dict(accepts=[T1], returns=[T2], num_workers=k, policy=pol,
                       script=[("sleep", w), ("fail_until", f, "value"), ("return", T2)]),
        "c_gather": dict(accepts=[T2], returns=[StopEvent, type(None)], num_workers=1,
                         script=[("collect", [T2] * n, None), ("return", StopEvent)]),
    })
    return spec, [], dict(policy="random", time_bias=1.0)


def tworetries(rng):
    """two steps retrying at the same time with different delays: `b_quick` (T1) fails once, retry after 0.25-0.5 s, then
    returns None; `b_slow` (T3) fails once, retry after 3-6 s, then returns Stop.  After the quick retry has fired and
    finished, the only pending work is the slow retry."""
    dq, ds = rng.choice([0.25, 0.5]), rng.choice([3.0, 6.0])
    spec = dict(steps={
        "a_start": dict(accepts=[StartEvent], returns=[T1, T3, type(None)], num_workers=1,
                        script=[("send", T1, 1, None), ("send", T3, 1, None), ("return", None)]),
        "b_quick": dict(accepts=[T1], returns=[StopEvent, type(None)], num_workers=1,
                        policy=rp.retry_policy(wait=rp.wait_fixed(dq), stop=rp.stop_after_attempt(3)),
                        script=[("gate", "q"), ("fail_until", 1, "value"), ("return", None)]),
        "b_slow": dict(accepts=[T3], returns=[StopEvent], num_workers=1,
                       policy=rp.retry_policy(wait=rp.wait_fixed(ds), stop=rp.stop_after_attempt(3)),
                       script=[("gate", "s"), ("fail_until", 1, "value"), ("return", StopEvent)]),
    })
    spec["retry_delay"] = ds
    return spec, [], dict(policy=rng.choice(["random", "fifo", "lifo"]), time_bias=0.3)


def collectfail(rng):
    """a collecting step that FAILS after collect_events handed it a full set and is retried: start sends n T2 to
    `c_gather` (1-2 workers, zero-delay retries), which collects n T2, raises on its first attempt, and on the retry must
    get the same full set again (the buffer is deleted only when the step completes)."""
    n = rng.choice([1, 2, 3])
    spec = dict(steps={
        "a_start": dict(accepts=[StartEvent], returns=[T2, type(None)], num_workers=1,
                        script=[("send", T2, n, None), ("return", None)]),
        "c_gather": dict(accepts=[T2], returns=[StopEvent, type(None)], num_workers=rng.choice([1, 1, 2]),
                         policy=rp.retry_policy(wait=rp.wait_fixed(rng.choice([0, 0.25])), stop=rp.stop_after_attempt(3)),
                         script=[("gate", "c"), ("collect", [T2] * n, None), ("fail_until", 1, "value"), ("return", StopEvent)]),
    }, timeout=300.0)
    spec["collect_n"], spec["collect_rounds"], spec["collect_k"] = n, 1, 1
    spec["collect_then_fail"] = True
    return spec, [], dict(policy=rng.choice(["random", "fifo"]))
