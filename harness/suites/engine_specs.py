"""Workflow templates (spec generators) for the L2 engine suite. Each returns (spec, externals, opts)."""
from suites.wfevents import T1, T2, T3, T4, U6, HR, IR, MyStop, MyStart
from workflows.events import StartEvent, StopEvent
from workflows import retry_policy as rp


def fanout(rng):
    """start sends n T1 -> `work` (k workers, gated, may fail+retry) returns T2 -> `gather` collects n T2 -> Stop."""
    n = rng.choice([1, 2, 3, 4, 5])
    k = rng.choice([1, 2, 3, 4])
    kg = rng.choice([1, 1, 2, 3])
    fail = rng.choice([0, 0, 1, 2])
    pol = rp.retry_policy(wait=rp.wait_fixed(rng.choice([0, 0, 0.5])), stop=rp.stop_after_attempt(4)) if fail else None
    work = [("gate", "w")]
    if fail:
        work = [("fail_until", fail, "value"), ("gate", "w")]
    spec = dict(steps={
        "a_start": dict(accepts=[StartEvent], returns=[T1, type(None)], num_workers=1,
                        script=[("send", T1, n, None), ("return", None)]),
        "b_work": dict(accepts=[T1], returns=[T2], num_workers=k, policy=pol, script=work + [("return", T2)]),
        "c_gather": dict(accepts=[T2], returns=[StopEvent, type(None)], num_workers=kg,
                         script=[("gate", "c"), ("collect", [T2] * n, None), ("return", StopEvent)]),
    })
    return spec, [], dict(policy=rng.choice(["random", "random", "lifo", "fifo"]))
