"""L0 correspondence suite `validate`: the real workflows.representation.validate functions
(and whole generated Workflow classes) vs Model/Validate.v, plus the implementation-side monitor
(the statement of C23 written independently in Python: closure-based reachability, no DFS).

A generated graph is a list of step dicts
  {name:int, acc:[tid], ret:[tid], none:bool, handler:bool, fs:None|[int], mr:int|bool|float|str,
   sr:bool, sd:bool}
over the class pool TYPES; the same graph is (a) turned into real StepConfig objects keyed by step
name and fed to the real functions, (b) printed as a Gallina term for the model."""
import re
from typing import Optional, Union

import boot  # noqa: F401
from core import gz, glist, gopt, gbool
from workflows import Context, Workflow
from workflows.decorators import CatchErrorHandler, StepConfig, catch_error, step
from workflows.errors import WorkflowConfigurationError, WorkflowValidationError
from workflows.events import (
    Event, HumanResponseEvent, InputRequiredEvent, StartEvent, StepFailedEvent, StopEvent,
    WorkflowFailedEvent,
)
from workflows.representation import validate as V

HEADER = """From Coq Require Import List ZArith Bool.
Import ListNotations.
From WF Require Import Model.Validate Model.ValidateEnc.
Open Scope Z_scope.
"""


# ---- the class universe --------------------------------------------------------------------
class EvA(Event):
    pass


class EvB(Event):
    pass


class EvC(Event):
    pass


class EvD(Event):
    pass


class EvE(EvA):            # subclass of a plain event: a different type for every check
    pass


class MyStart(StartEvent):
    pass


class MyStart2(MyStart):
    pass


class MyStop(StopEvent):
    pass


class MyStop2(MyStop):
    pass


class MyIR(InputRequiredEvent):
    pass


class MyIR2(MyIR):
    pass


class MyHR(HumanResponseEvent):
    pass


class MyHR2(MyHR):
    pass


class MySF(StepFailedEvent):
    pass


class IRStop(InputRequiredEvent, StopEvent):     # multiple inheritance: two kinds at once
    pass


class HRStart(HumanResponseEvent, StartEvent):
    pass


TYPES = [StartEvent, StopEvent, InputRequiredEvent, HumanResponseEvent, StepFailedEvent,
         EvA, EvB, EvC, EvD, EvE, MyStart, MyStart2, MyStop, MyStop2, MyIR, MyIR2, MyHR, MyHR2,
         MySF, IRStop, HRStart, WorkflowFailedEvent, Event]
TID = {c: i for i, c in enumerate(TYPES)}
NAME2TID = {c.__name__: i for i, c in enumerate(TYPES)}
assert len(NAME2TID) == len(TYPES)
ROOTS = [StartEvent, StopEvent, InputRequiredEvent, HumanResponseEvent, StepFailedEvent]


def kind_mask(c):
    """Computed from the real classes with issubclass, not declared by hand."""
    return sum(1 << i for i, r in enumerate(ROOTS) if issubclass(c, r))


MASK = [kind_mask(c) for c in TYPES]
PLAIN = [TID[c] for c in (EvA, EvB, EvC, EvD, EvE, Event)]
STARTS = [i for i, m in enumerate(MASK) if m & 1]
STOPS = [i for i, m in enumerate(MASK) if m & 2]
IRS = [i for i, m in enumerate(MASK) if m & 4]
HRS = [i for i, m in enumerate(MASK) if m & 8]
SFS = [i for i, m in enumerate(MASK) if m & 16]
NONE = type(None)


def sname(n):
    return "s%02d" % n


# ---- generator -----------------------------------------------------------------------------
def mkstep(name, acc, ret, none=False, handler=False, fs=None, mr=1, sr=False, sd=False):
    return dict(name=name, acc=list(acc), ret=list(ret), none=none, handler=handler, fs=fs, mr=mr,
                sr=sr, sd=sd)


def gen_valid(rng):
    """A well-formed workflow: a chain/DAG from the start type to the stop type with optional
    fan-out, a human-in-the-loop leg, handlers; returns (graph, tags)."""
    tags = set()
    start = rng.choice([0, 0, TID[MyStart], TID[MyStart2], TID[HRStart]])
    stop = rng.choice([1, 1, TID[MyStop], TID[MyStop2], TID[WorkflowFailedEvent], TID[IRStop]])
    mids = rng.sample(PLAIN, rng.randint(0, 4))
    g = []
    n = 0
    chain = [start] + mids
    for i, t in enumerate(chain):
        nxt = chain[i + 1] if i + 1 < len(chain) else stop
        ret = [nxt]
        if rng.random() < 0.25:
            ret.append(stop)
        if rng.random() < 0.2 and i + 2 < len(chain):
            ret.append(chain[i + 2])
        acc = [t]
        if rng.random() < 0.2 and i >= 2:
            acc.append(chain[i - 1]) if chain[i - 1] != start else None
        g.append(mkstep(n, acc, ret, none=rng.random() < 0.3))
        n += 1
    if rng.random() < 0.45:
        # human-in-the-loop leg: someone returns an InputRequired (sub)class, someone consumes a
        # HumanResponse (sub)class
        tags.add("hitl")
        ir = rng.choice(IRS[:3] + [TID[IRStop]] if stop != TID[IRStop] else IRS[:3])
        hr = rng.choice([h for h in HRS if h != TID[HRStart]])
        which = rng.random()
        if which < 0.7:
            rng.choice(g)["ret"].append(ir)
        if which > 0.3 or which < 0.1:
            g.append(mkstep(n, [hr], [stop if rng.random() < 0.6 or not mids else rng.choice(mids)]))
            n += 1
        if ir not in (2,) or hr not in (3,):
            tags.add("hitl-subclass")
    if rng.random() < 0.45:
        tags.add("handlers")
        normal = [s["name"] for s in g]
        k = rng.random()
        if k < 0.5:
            targets = rng.sample(normal, rng.randint(1, min(2, len(normal))))
            g.append(mkstep(n, [4], [stop], handler=True, fs=targets, mr=rng.choice([1, 2, 3, True])))
            n += 1
            rest = [x for x in normal if x not in targets]
            if rest and rng.random() < 0.5:
                g.append(mkstep(n, [4], [rng.choice(mids)] if mids and rng.random() < 0.5 else [stop],
                                handler=True, fs=rng.sample(rest, 1), mr=rng.choice([1, 2])))
                n += 1
        if k > 0.3:
            g.append(mkstep(n, [4], [stop] if rng.random() < 0.7 or not mids else [rng.choice(mids)],
                            handler=True, fs=None, mr=rng.choice([1, 2, 5])))
            n += 1
    return g, tags


MUTATIONS = ["drop_step", "orphan_consumer", "extra_producer", "second_stop", "second_start",
             "accept_stop", "cover_handler", "dup_claim", "dup_claim_same", "unknown_target", "bad_maxrec",
             "second_wildcard", "island", "dead_cycle", "skip_flags", "hr_produced", "sf_consumer",
             "no_stop", "no_start", "empty", "self_loop", "dup_accept", "skipped_island"]


def mutate(rng, g, tags):
    """Apply 0-2 perturbations biased toward the branches of the property."""
    g = [dict(s, acc=list(s["acc"]), ret=list(s["ret"]), fs=None if s["fs"] is None else list(s["fs"]))
         for s in g]
    n = max([s["name"] for s in g] + [-1]) + 1
    stops = [t for s in g for t in s["ret"] if MASK[t] & 2] or [1]
    for _ in range(rng.choice([0, 1, 1, 1, 2])):
        m = rng.choice(MUTATIONS)
        tags.add(m)
        hs = [s for s in g if s["handler"]]
        normal = [s for s in g if not s["handler"]]
        if m == "drop_step" and len(g) > 1:
            g.pop(rng.randrange(len(g)))
        elif m == "orphan_consumer":
            g.append(mkstep(n, [rng.choice(PLAIN + HRS[:2] + IRS[:2] + SFS)], [stops[0]],
                            sr=rng.random() < 0.3))
            n += 1
        elif m == "extra_producer" and g:
            rng.choice(g)["ret"].append(rng.choice(PLAIN + HRS[:2] + IRS[:2] + SFS))
        elif m == "second_stop" and g:
            rng.choice(g)["ret"].append(rng.choice(STOPS))
        elif m == "second_start" and g:
            rng.choice(g)["acc"].append(rng.choice(STARTS))
        elif m == "accept_stop" and g:
            rng.choice(g)["acc"].append(rng.choice(STOPS))
        elif m == "cover_handler" and hs:
            h = rng.choice(hs)
            h["fs"] = (h["fs"] or []) + [rng.choice(hs)["name"]]
        elif m == "dup_claim" and hs and normal:
            t = rng.choice(normal)["name"]
            g.append(mkstep(n, [4], [stops[0]], handler=True, fs=[t], mr=1))
            n += 1
            g.append(mkstep(n, [4], [stops[0]], handler=True, fs=[t], mr=1))
            n += 1
        elif m == "dup_claim_same" and normal:
            t = rng.choice(normal)["name"]
            g.append(mkstep(n, [4], [stops[0]], handler=True, fs=[t, t], mr=1))
            n += 1
        elif m == "unknown_target" and hs:
            h = rng.choice(hs)
            h["fs"] = (h["fs"] or []) + [rng.choice([77, 78])] * rng.choice([1, 2])
        elif m == "bad_maxrec" and hs:
            rng.choice(hs)["mr"] = rng.choice([0, -1, False, 2.0, "2", None])
        elif m == "second_wildcard":
            g.append(mkstep(n, [4], [stops[0]], handler=True, fs=None, mr=1))
            n += 1
        elif m == "island":
            a, b = rng.sample(PLAIN, 2)
            g.append(mkstep(n, [a], [b], sr=rng.random() < 0.3, sd=rng.random() < 0.3))
            g.append(mkstep(n + 1, [b], [a, stops[0]] if rng.random() < 0.5 else [a],
                            sr=rng.random() < 0.3, sd=rng.random() < 0.3))
            n += 2
        elif m == "skipped_island":
            # a closed island that never reaches an output event; only the reachability check is waived for it (per step),
            # so it must still be rejected as a dead end
            a, b = rng.sample(PLAIN, 2)
            g.append(mkstep(n, [a], [b], sr=True, sd=False))
            g.append(mkstep(n + 1, [b], [a], sr=True, sd=False))
            n += 2
        elif m == "dead_cycle" and normal:
            a = rng.choice(PLAIN)
            rng.choice(normal)["ret"].append(a)
            g.append(mkstep(n, [a], [a] if rng.random() < 0.6 else [], none=True, sd=rng.random() < 0.3))
            n += 1
        elif m == "skip_flags" and g:
            s = rng.choice(g)
            s["sr"], s["sd"] = rng.random() < 0.6, rng.random() < 0.6
        elif m == "hr_produced" and g:
            rng.choice(g)["ret"].append(rng.choice(HRS[:3]))
        elif m == "sf_consumer":
            g.append(mkstep(n, [rng.choice(SFS)], [stops[0]], sr=rng.random() < 0.5))
            n += 1
        elif m == "no_stop":
            for s in g:
                s["ret"] = [t for t in s["ret"] if not MASK[t] & 2]
        elif m == "no_start":
            for s in g:
                s["acc"] = [t for t in s["acc"] if not MASK[t] & 1] or [rng.choice(PLAIN)]
        elif m == "empty":
            g = []
        elif m == "self_loop" and normal:
            s = rng.choice(normal)
            s["ret"].append(s["acc"][0]) if s["acc"] else None
        elif m == "dup_accept" and g:
            s = rng.choice(g)
            if s["acc"]:
                s["acc"].append(s["acc"][0])
    return g


def gen_random(rng):
    """Unstructured stream: small random graphs over few types (collisions, cycles, islands).
    Mostly anchored (some step accepts the start type, some step returns the stop type) so that the
    deeper checks are reached; 20% completely free."""
    pool = rng.sample(range(len(TYPES)), rng.randint(3, 7))
    anchored = rng.random() < 0.8
    start, stop = rng.choice(STARTS), rng.choice(STOPS)
    pool = [t for t in pool if not (anchored and MASK[t] & 3 and rng.random() < 0.8)] or [PLAIN[0]]
    k = rng.randint(1, 5)
    g = []
    for n in range(k):
        handler = rng.random() < 0.2
        fs = None
        if handler and rng.random() < 0.6:
            fs = [rng.randrange(k + 1) for _ in range(rng.randint(0, 2))]
        acc = [4] if handler and rng.random() < 0.9 else rng.sample(pool, rng.randint(1, min(2, len(pool))))
        ret = rng.sample(pool, rng.randint(0, min(2, len(pool))))
        if anchored and n == 0 and not handler:
            acc = [start] + acc[:rng.randint(0, 1)]
        if anchored and (n == k - 1 or rng.random() < 0.3):
            ret = ret[:1] + [stop]
        g.append(mkstep(n, acc, ret, none=rng.random() < 0.3, handler=handler,
                        fs=fs, mr=rng.choice([1, 1, 1, 2, 0]), sr=rng.random() < 0.15, sd=rng.random() < 0.15))
    return g


def gen_skips(rng):
    if rng.random() < 0.6:
        return (False, False, False)
    return (rng.random() < 0.5, rng.random() < 0.5, rng.random() < 0.5)


SKIP_NAMES = ("reachability", "terminal_event", "dead_end")


def skip_set(sk):
    return {nm for nm, b in zip(SKIP_NAMES, sk) if b}


# ---- graph -> real StepConfig dict ---------------------------------------------------------
def to_configs(g):
    steps = {}
    for s in g:
        ret = [TYPES[t] for t in s["ret"]] + ([NONE] if s["none"] else [])
        skips = (["reachability"] if s["sr"] else []) + (["dead_end"] if s["sd"] else [])
        steps[sname(s["name"])] = StepConfig(
            accepted_events=[TYPES[t] for t in s["acc"]], event_name="ev", return_types=ret,
            context_parameter=None, num_workers=1, retry_policy=None, resources=[],
            skip_graph_checks=skips, role="catch_error" if s["handler"] else "step",
            catch_error_for_steps=None if s["fs"] is None else [sname(t) for t in s["fs"]],
            catch_error_max_recoveries=s["mr"])
    return steps


def from_configs(steps):
    """Real StepConfig dict (of a generated Workflow class) -> graph."""
    g = []
    for name, cfg in steps.items():
        g.append(mkstep(
            int(name[1:]), [TID[t] for t in cfg.accepted_events],
            [TID[t] for t in cfg.return_types if t is not NONE], none=NONE in cfg.return_types,
            handler=cfg.role == "catch_error",
            fs=None if cfg.catch_error_for_steps is None else [int(t[1:]) for t in cfg.catch_error_for_steps],
            mr=cfg.catch_error_max_recoveries, sr="reachability" in cfg.skip_graph_checks,
            sd="dead_end" in cfg.skip_graph_checks))
    return g


# ---- graph -> Gallina ----------------------------------------------------------------------
def g_maxrec(mr):
    if isinstance(mr, int):          # bool is an int in Python, as in the code's isinstance test
        return "(Some %s)" % gz(int(mr))
    return "None"


def g_step(s):
    return "(St %d %s %s %s %s %s %s %s)" % (
        s["name"], glist(gz(t) for t in s["acc"]), glist(gz(t) for t in s["ret"]), gbool(s["handler"]),
        gopt(lambda l: glist(gz(t) for t in l), s["fs"]), g_maxrec(s["mr"]), gbool(s["sr"]), gbool(s["sd"]))


def g_graph(g):
    return glist(g_step(s) for s in g)


def g_universe(g, extra=()):
    used = sorted({t for s in g for t in s["acc"] + s["ret"]} | set(extra))
    return "(mkU %s)" % glist("(%d, %d)" % (t, MASK[t]) for t in used)


def g_skips(sk):
    return "(Sk %s %s %s)" % tuple(gbool(b) for b in sk)


def g_obs(o):
    if o[0] == "acc":
        _, s, e, h, hs, rt = o
        return "(PAcc %d %d %s %s %s)" % (s, e, gbool(h), glist(gz(x) for x in hs),
                                          glist("(%d, %d)" % p for p in rt))
    _, c, st, d1, d2, d3 = o
    return "(PRej %d %d %s %s %s)" % (c, st, glist(gz(x) for x in d1), glist(gz(x) for x in d2),
                                      glist(gz(x) for x in d3))


# ---- observing the real code ---------------------------------------------------------------
def _names(txt):
    return [int(x) for x in re.findall(r"s(\d\d)\b", txt)]


def _types(txt):
    out = []
    for w in re.findall(r"[A-Za-z_][A-Za-z_0-9]*", txt):
        if w not in NAME2TID:
            return None
        out.append(NAME2TID[w])
    return out


def classify_error(e):
    """(class, stage, d1, d2, d3); stage 0 = message not recognised (only the class is compared)."""
    cls = 1 if isinstance(e, WorkflowConfigurationError) else 2
    msg = str(e)
    if cls == 1:
        if "has no configured steps" in msg:
            return (1, 1, [], [], [])
        if "At least one Event of type StartEvent" in msg:
            return (1, 2, [], [], [])
        if "Only one type of StartEvent" in msg:
            return (1, 3, [], [], [])
        if "At least one Event of type StopEvent" in msg:
            return (1, 4, [], [], [])
        if "Only one type of StopEvent" in msg:
            return (1, 5, [], [], [])
        return (1, 0, [], [], [])
    if "cannot accept StopEvent" in msg:
        return (2, 6, _names(msg.split("cannot accept")[0]), [], [])
    m = re.search(r"consumed but never produced: (.*)$", msg)
    if m:
        t = _types(m.group(1))
        return (2, 7, t, [], []) if t is not None else (2, 0, [], [], [])
    m = re.search(r"produced but never consumed: (.*)$", msg)
    if m and not msg.startswith("Graph validation failed"):
        t = _types(m.group(1))
        return (2, 8, t, [], []) if t is not None else (2, 0, [], [], [])
    if "max_recoveries=" in msg:
        m = re.search(r"handler 's(\d\d)'", msg)
        return (2, 9, [int(m.group(1))], [], []) if m else (2, 0, [], [], [])
    if msg.startswith("Graph validation failed"):
        u = d = x = []
        ok = True
        for line in msg.split("\n"):
            if "[reachability]" in line:
                u = _names(line)
            elif "[terminal_event]" in line:
                t = _types(line.split(":", 1)[1]) if ":" in line else None
                ok = ok and t is not None
                d = t or []
            elif "[dead_end]" in line:
                x = _names(line)
        return (2, 11, u, d, x) if ok else (2, 0, [], [], [])
    kinds = handler_error_kinds(msg.split("\n"))
    if kinds is not None and kinds:
        return (2, 10, kinds, [], [])
    return (2, 0, [], [], [])


def handler_error_kinds(lines):
    out = []
    for ln in lines:
        if "Only one wildcard" in ln:
            out.append(1)
        elif "unknown step" in ln:
            out.append(2)
        elif "cannot cover another handler" in ln:
            out.append(3)
        elif "claimed by two" in ln:
            out.append(4)
        else:
            return None
    return out


def observe_result(r):
    rt = sorted((int(k[1:]), int(v[1:])) for k, v in r.handler_for_step.items())
    return ("acc", TID[r.start_event_class], TID[r.stop_event_class], bool(r.uses_hitl),
            sorted(int(k[1:]) for k in r.catch_error_handlers), rt)


def observe_validate(steps, sk):
    """Outcome of the real _validate_workflow."""
    try:
        r = V._validate_workflow(steps, "GenWf", skip_set(sk))
    except (WorkflowConfigurationError, WorkflowValidationError) as e:
        return ("rej",) + classify_error(e)
    return observe_result(r)


def enc_node(n):
    return 2 * int(n[1:]) if isinstance(n, str) else 2 * TID[n] + 1


def observe_parts(g, steps, sk, s0):
    """build_step_graph / validate_graph / validate_catch_error_handlers called directly."""
    hnames = [sname(s["name"]) for s in g if s["handler"]]
    sg = V.build_step_graph(steps, TYPES[s0], hnames)
    fwd = sorted(enc_node(n) for n in sg.forward_reachable)
    rv = sorted(enc_node(n) for n in sg.reverse_reachable)
    errs = V.validate_graph(steps, TYPES[s0], skip_set(sk), hnames)
    gu = gd = gx = []
    for e in errs:
        if e.check == "reachability":
            gu = [int(x[1:]) for x in e.step_names]
        elif e.check == "dead_end":
            gx = [int(x[1:]) for x in e.step_names]
        elif e.check == "terminal_event":
            gd = _types(e.message.split(":", 1)[1])
            if gd is None:
                gd = [-1]
    hs = [CatchErrorHandler(step_name=sname(s["name"]),
                            for_steps=None if s["fs"] is None else [sname(t) for t in s["fs"]],
                            max_recoveries=1) for s in g if s["handler"]]
    hk = handler_error_kinds(V.validate_catch_error_handlers(hs, set(steps)))
    return fwd, rv, gu, gd, gx, (hk if hk is not None else [-1])


def pick_s0(g):
    st = sorted({t for s in g for t in s["acc"] if MASK[t] & 1})
    return st[0] if len(st) >= 1 else 0


def case_expr(g, sk, obs, parts, s0):
    fwd, rv, gu, gd, gx, hk = parts
    return "vcase %s %s %s %s %d %s %s %s %s %s %s" % (
        g_universe(g, [s0]), g_graph(g), g_skips(sk), g_obs(obs), s0,
        glist(gz(x) for x in fwd), glist(gz(x) for x in rv), glist(gz(x) for x in gu),
        glist(gz(x) for x in gd), glist(gz(x) for x in gx), glist(gz(x) for x in hk))


# ---- whole generated Workflow classes ------------------------------------------------------
def class_ok(g):
    """Graphs expressible as a decorated Workflow class (decorators reject the rest up front)."""
    for s in g:
        if not s["acc"] or (not s["ret"] and not s["none"]):
            return False
        if len(set(s["acc"])) != len(s["acc"]) or len(set(s["ret"])) != len(s["ret"]):
            return False
        if s["handler"] and (s["acc"] != [4] or not isinstance(s["mr"], int) or isinstance(s["mr"], bool)
                             or s["mr"] < 1):
            return False
        if not s["handler"] and (s["fs"] is not None):
            return False
        if s["handler"] and (s["sr"] or s["sd"]):      # @catch_error has no skip_graph_checks
            return False
        if s["none"] and len(s["ret"]) == 0:
            pass
    return len(g) > 0


def _union(ts):
    if len(ts) == 1:
        return ts[0]
    return Union[tuple(ts)]


def build_class(g):
    ns = {}
    for s in g:
        async def fn(self, ctx, ev):
            return None
        name = sname(s["name"])
        fn.__name__ = name
        fn.__qualname__ = "GenWf." + name
        rets = [TYPES[t] for t in s["ret"]]
        if s["none"]:
            rann = Optional[_union(rets)] if rets else None
        else:
            rann = _union(rets)
        fn.__annotations__ = {"ctx": Context, "ev": _union([TYPES[t] for t in s["acc"]]), "return": rann}
        if s["handler"]:
            f = catch_error(for_steps=None if s["fs"] is None else [sname(t) for t in s["fs"]],
                            max_recoveries=s["mr"])(fn)
        else:
            skips = (["reachability"] if s["sr"] else []) + (["dead_end"] if s["sd"] else [])
            f = step(skip_graph_checks=skips)(fn)
        ns[name] = f
    return type("GenWf", (Workflow,), ns)


def observe_class(g, sk):
    """Construct the class, instantiate with skip_graph_checks, call the public validate().
    Returns (obs, graph as seen through the instance's own StepConfigs or None)."""
    cls = build_class(g)
    try:
        wf = cls(skip_graph_checks=skip_set(sk))
    except (WorkflowConfigurationError, WorkflowValidationError) as e:
        return ("rej",) + classify_error(e), None
    g2 = from_configs(wf._step_configs())
    try:
        h = wf.validate()
    except (WorkflowConfigurationError, WorkflowValidationError) as e:
        return ("rej",) + classify_error(e), g2
    rt = sorted((int(k[1:]), int(v[1:])) for k, v in wf._handler_for_step.items())
    return ("acc", TID[wf._start_event_class], TID[wf._stop_event_class], bool(h),
            sorted(int(k[1:]) for k in wf._catch_error_handlers), rt), g2


# ---- the property's statement, independently, on the implementation's outcome --------------
def spec(g, sk):
    """Returns (accepts, hitl, reasons) from the text of C23: exactly one start type and one stop
    type; no stop consumer; consumed => produced or boundary and vice versa; handlers consistent;
    every step reachable / co-reachable except where skipped.  Reachability is a closure
    computation over the edge relation (no stack, no visited set)."""
    why = []
    if not g:
        return False, False, ["no steps"]
    consumed = {t for s in g for t in s["acc"]}
    returned = {t for s in g for t in s["ret"]}
    starts = {t for t in consumed if MASK[t] & 1}
    stops = {t for t in returned if MASK[t] & 2}
    if len(starts) != 1:
        why.append("start types %d" % len(starts))
    if len(stops) != 1:
        why.append("stop types %d" % len(stops))
    if why:
        return False, False, why
    s0 = next(iter(starts))
    produced = returned | {s0}
    hitl = any(MASK[t] & 4 for t in produced) or any(MASK[t] & 8 for t in consumed)
    if any(MASK[t] & 2 for t in consumed):
        why.append("stop consumed")
    if any(t not in produced and not MASK[t] & (4 | 8 | 2 | 16) for t in consumed):
        why.append("consumed not produced")
    if any(t not in consumed and not MASK[t] & (4 | 8 | 2) for t in produced):
        why.append("produced not consumed")
    names = [s["name"] for s in g]
    hs = [s for s in g if s["handler"]]
    hnames = {s["name"] for s in hs}
    for h in hs:
        if not isinstance(h["mr"], int) or h["mr"] < 1:
            why.append("max_recoveries")
    if sum(1 for h in hs if h["fs"] is None) > 1:
        why.append("wildcards")
    claimed = [t for h in hs if h["fs"] is not None for t in h["fs"]]
    if any(t not in names for t in claimed):
        why.append("unknown target")
    if any(t in hnames for t in claimed):
        why.append("handler covered")
    if len(set(claimed)) != len(claimed):
        why.append("claimed twice")
    # graph
    edges = set()
    for s in g:
        for t in s["acc"]:
            edges.add((("e", t), ("s", s["name"])))
        for t in s["ret"]:
            edges.add((("s", s["name"]), ("e", t)))
    evs = consumed | returned

    def closure(seed, es):
        r = set(seed)
        while True:
            add = {b for (a, b) in es if a in r} - r
            if not add:
                return r
            r |= add
    fwd = closure({("e", s0)} | {("e", t) for t in evs if MASK[t] & 8} | {("s", n) for n in hnames}, edges)
    rev = closure({("e", t) for t in evs if MASK[t] & (2 | 4)}, {(b, a) for (a, b) in edges})
    if not sk[0] and any(not s["sr"] and ("s", s["name"]) not in fwd for s in g):
        why.append("unreachable")
    if not sk[1] and any(t not in consumed and not MASK[t] & (2 | 4) for t in evs):
        why.append("dangling")
    if not sk[2] and any(s["ret"] and not s["sd"] and ("s", s["name"]) not in rev for s in g):
        why.append("dead end")
    return not why, hitl, why


def monitor(g, sk, obs):
    """None when the implementation's outcome satisfies C23 on this graph, else (key, text)."""
    ok, hitl, why = spec(g, sk)
    if obs[0] == "acc" and not ok:
        return ("C23/accepts-ill-formed", "accepted although: %s" % ", ".join(why))
    if obs[0] == "rej" and ok:
        return ("C23/rejects-well-formed", "rejected (class %d stage %d) although the graph is well-formed"
                % (obs[1], obs[2]))
    if obs[0] == "acc" and bool(obs[3]) != hitl:
        sub = any(MASK[t] & 4 and t != 2 for s in g for t in s["ret"]) or \
            any(MASK[t] & 8 and t != 3 for s in g for t in s["acc"])
        key = "C23/hitl-flag-subclass" if (hitl and sub) else "C23/hitl-flag"
        return (key, "human-in-the-loop flag %s, expected %s" % (obs[3], hitl))
    return None


def skip_mattered(g, sk):
    """The graph is well-formed only thanks to a workflow-level or per-step skip."""
    if not spec(g, sk)[0]:
        return False
    bare = [dict(s, sr=False, sd=False) for s in g]
    return not spec(bare, (False, False, False))[0]


def structural_key(g, sk, obs):
    shape = tuple(sorted((len(s["acc"]), len(s["ret"]), s["handler"], s["fs"] is None, s["sr"], s["sd"])
                         for s in g))
    kinds = tuple(sorted({MASK[t] for s in g for t in s["acc"] + s["ret"]}))
    return (shape, kinds, sk, obs[0], obs[2] if obs[0] == "rej" else obs[3])
