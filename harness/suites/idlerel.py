"""L3 correspondence + monitors for the in-process idle-release stack (C36, C26, C14).

The real chain  ServerRuntimeDecorator(IdleReleaseDecorator(PersistenceDecorator(BasicRuntime(), store),
store, idle_timeout), store) + _WorkflowService  is assembled as WorkflowServer.__init__ does and
driven under the virtual-time loop by generated scenarios (external sends, step durations, self-sent
events, failing attempts with a retry delay, wait_for_event with and without timeout, crashes and
restarts, a store whose calls suspend).  Recording subclasses (legal extension points: store,
runtime decorators, KeyedLock) turn every run into

  * a trace of M-IdleRelease actions with the implementation's observation after each action
    (checked inside Coq by IdleRelease.conform: every real step is a step of the model with the
    same observable state) and
  * a log on which the properties' own statements are evaluated (monitors).

Times are multiples of 1/64 s so that float and datetime arithmetic is exact."""
import asyncio
import itertools
import random

import boot
import vloop

boot.enable_server()

import llama_agents.server._runtime.idle_release_runtime as _m1  # noqa: E402
import llama_agents.server._runtime.server_runtime as _m4  # noqa: E402
import llama_agents.server._store.abstract_workflow_store as _m2  # noqa: E402
import llama_agents.server._store.memory_workflow_store as _m3  # noqa: E402
from llama_agents.server._keyed_lock import KeyedLock  # noqa: E402
from llama_agents.server._runtime.idle_release_runtime import (  # noqa: E402
    IdleReleaseDecorator, IdleReleaseExternalRunAdapter)
from llama_agents.server._runtime.persistence_runtime import PersistenceDecorator  # noqa: E402
from llama_agents.server._runtime.server_runtime import ServerRuntimeDecorator  # noqa: E402
from llama_agents.server._service import _WorkflowService  # noqa: E402
from llama_agents.server._store.abstract_workflow_store import HandlerQuery  # noqa: E402
from llama_agents.server._store.memory_workflow_store import MemoryWorkflowStore  # noqa: E402
from workflows import Context, Workflow, step  # noqa: E402
from workflows.events import Event, StartEvent, StopEvent  # noqa: E402
from workflows.plugins.basic import BasicRuntime, ExternalAsyncioAdapter  # noqa: E402
from workflows.runtime.control_loop import _reduce_tick, rewind_in_progress  # noqa: E402
from workflows.runtime.types.commands import CommandQueueEvent, CommandScheduleWaiterTimeout  # noqa: E402
from workflows.runtime.types.internal_state import BrokerState  # noqa: E402
from workflows.runtime.types.results import StepWorkerFailed, StepWorkerResult  # noqa: E402
from workflows.runtime.types.ticks import (TickAddEvent, TickIdleCheck, TickStepResult,  # noqa: E402
                                           TickWaiterTimeout, WorkflowTickAdapter)

vloop.patch_datetime(_m1, _m2, _m3, _m4)

U = 64.0          # time units per second
HEADER = ("From Coq Require Import List ZArith Bool.\nImport ListNotations.\n"
          "From WF Require Import Model.IdleRelease.\nOpen Scope Z_scope.\n")


def units(seconds):
    u = seconds * U
    if abs(u - round(u)) > 1e-6:
        raise RuntimeError("time %r is not a multiple of 1/64 s" % (seconds,))
    return int(round(u))


# ------------------------------------------------------------------ workflow under test
class Ext(Event):
    """external event; payload drives the step body: i, dur, fin, sends, fail, wait, wdur"""


class Inn(Event):
    """event a step sends to its own run (ctx.send_event)"""


class Resp(Event):
    """answer to a wait_for_event"""


class Boom(ValueError):
    pass


class FixedPolicy:
    """retry once after `delay` seconds (set per case); depends on the attempt number only, so that
    replaying persisted ticks takes the same decision"""
    delay = 0.5

    def next(self, elapsed_time, attempts, error, **kw):
        return self.delay if attempts < 2 else None


POLICY = FixedPolicy()
CUR = {"rec": None}


class IRW(Workflow):
    @step
    async def start(self, ctx: Context, ev: StartEvent) -> None:
        CUR["rec"].body("start", 0, 0, "enter")
        CUR["rec"].body("start", 0, 0, "exit")
        return None

    @step(num_workers=4, retry_policy=POLICY)
    async def h(self, ctx: Context, ev: Ext) -> StopEvent | None:
        return await _body(ctx, ev, "h")

    @step(num_workers=4)
    async def inner(self, ctx: Context, ev: Inn) -> StopEvent | None:
        return await _body(ctx, ev, "inner")


async def _body(ctx, ev, name):
    rec = CUR["rec"]
    rn = ctx.retry_info().retry_number
    rec.body(name, ev.i, rn, "enter")
    try:
        wait = ev.get("wait", None)
        if wait is not None:
            try:
                kw = {} if wait < 0 else {"timeout": wait}
                await ctx.wait_for_event(Resp, waiter_id="w%d" % ev.i, requirements={"k": ev.i}, **kw)
                rec.body(name, ev.i, rn, "wait-result")
            except asyncio.TimeoutError:
                rec.body(name, ev.i, rn, "wait-timeout")
        await asyncio.sleep(ev.dur)
        if ev.get("fail", False) and rn == 0:
            rec.body(name, ev.i, rn, "raise")
            raise Boom("attempt 0 of %d" % ev.i)
        for k, d in ev.get("sends", []):
            rec.body(name, ev.i, rn, "send", k)
            ctx.send_event(Inn(i=k, dur=d, fin=False))
        rec.body(name, ev.i, rn, "exit")
        return StopEvent(result=ev.i) if ev.fin else None
    except asyncio.CancelledError:
        rec.body(name, ev.i, rn, "cancelled")
        raise
    except Boom:
        raise
    except BaseException:
        # wait_for_event leaves the first invocation with an internal control-flow exception
        rec.body(name, ev.i, rn, "suspend")
        raise


# ------------------------------------------------------------------ recording pieces
class RecStore(MemoryWorkflowStore):
    rec = None
    y = 0

    lat = 0      # latency of a read / append in time units (a networked store)

    async def _yield(self):
        for _ in range(self.y):
            await asyncio.sleep(0)
        if self.lat:
            await asyncio.sleep(self.lat / U)

    snap = False  # the releaser's read of the handler row answers with a row snapshot that takes `lat` to arrive

    async def query(self, q):
        await self._yield()
        r = await super().query(q)
        if self.snap and self.lat and asyncio.current_task() in self.rec.releasing:
            r = [h.model_copy() for h in r]
            await asyncio.sleep(self.lat / U)
        return r

    # `update` does not suspend: MemoryWorkflowStore.query hands out the stored handler objects, so
    # update_handler_status takes effect when it mutates the object -- the suspension point of a
    # read-modify-write is the read

    async def get_ticks(self, run_id):
        await self._yield()
        return await super().get_ticks(run_id)

    async def append_tick(self, run_id, tick_data):
        await self._yield()
        await super().append_tick(run_id, tick_data)
        self.rec.on_tick_persisted(tick_data)

    async def update_handler_status(self, run_id, *, status=None, result=None, error=None, **kw):
        if "idle_since" in kw and kw["idle_since"] is not None:
            self.rec.on_idle_write(begin=True)
        await super().update_handler_status(run_id, status=status, result=result, error=error, **kw)
        if "idle_since" in kw:
            if kw["idle_since"] is not None:
                self.rec.on_idle_write(begin=False)
            else:
                self.rec.on_idle_clear()
        elif status is not None and status != "running":
            self.rec.on_status(status)


class RecLock(KeyedLock):
    rec = None

    def __call__(self, key):
        outer = super().__call__(key)
        rec = self.rec

        class _Ctx:
            async def __aenter__(self_inner):
                rec.on_lock("want")
                r = await outer.__aenter__()
                rec.on_lock("got")
                return r

            async def __aexit__(self_inner, *a):
                rec.on_lock("rel")
                return await outer.__aexit__(*a)
        return _Ctx()


class RecExternalAsyncio(ExternalAsyncioAdapter):
    async def send_event(self, tick):
        await super().send_event(tick)
        self._outer.rec.on_put(tick)


class RecBasic(BasicRuntime):
    rec = None

    def get_external_adapter(self, run_id):
        if run_id not in self._queues:
            raise RuntimeError("No active workflow with run_id '%s'. " % run_id)
        return RecExternalAsyncio(self, self._queues[run_id])

    def run_workflow(self, run_id, *a, **k):
        r = super().run_workflow(run_id, *a, **k)
        t = self._queues[run_id].complete
        self.rec.loops.append(t)
        t.add_done_callback(self.rec.on_loop_done)
        return r


class RecPers(PersistenceDecorator):
    rec = None

    async def _on_server_start(self, registered):
        self.rec.on_server_start(begin=True)
        try:
            await super()._on_server_start(registered)
        finally:
            self.rec.on_server_start(begin=False)


class RecExt(IdleReleaseExternalRunAdapter):
    async def send_event(self, tick):
        rec = self._runtime.rec
        rec.on_sender_begin(tick)
        try:
            await super().send_event(tick)
        except BaseException as e:  # noqa: BLE001
            rec.on_sender_end(tick, e)
            raise
        rec.on_sender_end(tick, None)


class RecIdle(IdleReleaseDecorator):
    rec = None

    def get_external_adapter(self, run_id):
        return RecExt(self, run_id)

    def run_workflow(self, run_id, *a, **k):
        try:
            r = super().run_workflow(run_id, *a, **k)
        except Exception as e:  # noqa: BLE001
            self.rec.on_run_workflow(False, e)
            raise
        self.rec.on_run_workflow(True, None)
        return r

    def _spawn_task(self, coro):
        t = super()._spawn_task(coro)
        self.rec.on_spawn(t, getattr(coro, "__name__", ""))
        return t

    async def _release_idle_handler(self, run_id, *a, **k):
        self.rec.releasing.add(asyncio.current_task())
        self.rec.on_release(begin=True)
        try:
            await super()._release_idle_handler(run_id, *a, **k)
        finally:
            self.rec.releasing.discard(asyncio.current_task())
            self.rec.on_release(begin=False)

    def _abort_inner_run(self, run_id):
        self.rec.on_abort()
        super()._abort_inner_run(run_id)


# ------------------------------------------------------------------ the recorder / mapper
class Mismatch(Exception):
    pass


class Recorder:
    """Turns hook calls into (model action, observation) pairs and keeps the monitor log."""

    def __init__(self, tau_units):
        self.tau = tau_units
        self.trace = []          # (action string, obs list)
        self.log = []            # dicts for the monitors
        self.tasks = []          # model task list mirror: dicts {kind, task, pc, e}
        self.by_task = {}        # asyncio task -> index
        self.loops = []          # control loop tasks ever created (this process life)
        self.releasing = set()   # tasks currently inside _release_idle_handler
        self.release_hook = None
        self.dead = set()
        self.started = False
        self.chain = None
        self.last_t = None
        self.last_obs = [0] * 9
        self.state = None        # shadow BrokerState (real reducer on the persisted ticks)
        self.n_log = 0
        self.mail = []
        self.sched = 0
        self.retries = 0
        self.pending_sends = {}  # (step, i, attempt) -> [ids]
        self.skip = False        # crash teardown in progress
        self.finish_pending = None
        self.unsupported = None
        self.wf = None
        self.idle_marks = []     # (t_units, idle_since handler value)
        self.bodies = {}         # (name, i) -> running count
        self.releases = []
        self.finished = False

    # ---- time / observation
    def now(self):
        return units(vloop.CLOCK.loop._vt - 1000.0)

    def live_loops(self):
        return [t for t in self.loops if not t.done() and t.cancelling() == 0 and t not in self.dead]

    def handler(self):
        return self.chain.store.handlers.get("h1")

    def obs(self):
        h = self.handler()
        idl = self.chain.idle
        busy = 0
        if self.state is not None and not self.finished:
            busy = sum(len(w.queue) + len(w.in_progress) for w in self.state.workers.values())
        return [1 if (h is not None and h.run_id in idl._active_run_ids) else 0,
                len(self.live_loops()),
                1 if (h is not None and h.idle_since is not None) else 0,
                1 if (h is not None and h.status == "running") else 0,
                self.n_log, busy, len(self.mail), self.sched, self.retries]

    def emit(self, action):
        if self.skip:
            return
        t = self.now()
        if self.last_t is not None and t > self.last_t:
            # the passing of time alone changes nothing observable
            self.trace.append(("Advance %d" % (t - self.last_t), list(self.last_obs)))
        self.last_t = t
        self.last_obs = self.obs()
        self.trace.append((action, list(self.last_obs)))

    def ev(self, kind, **kw):
        kw["kind"] = kind
        kw["t"] = self.now()
        self.log.append(kw)

    # ---- task bookkeeping (mirrors the model's append-only task list)
    def new_task(self, kind, task, **kw):
        d = dict(kind=kind, task=task, pc="new", **kw)
        self.tasks.append(d)
        if task is not None:
            self.by_task[task] = len(self.tasks) - 1
        return len(self.tasks) - 1

    def cur(self):
        return self.by_task.get(asyncio.current_task())

    # ---- hooks: step bodies
    def body(self, name, i, rn, what, arg=None):
        if self.skip:
            return
        key = (name, i)
        if what == "enter":
            self.bodies[key] = self.bodies.get(key, 0) + 1
            self.pending_sends[(name, i, rn)] = []
        elif what in ("exit", "raise", "cancelled", "suspend"):
            self.bodies[key] = self.bodies.get(key, 0) - 1
        elif what == "send":
            self.pending_sends[(name, i, rn)].append(arg)
        h = self.handler()
        self.ev("body", step=name, i=i, retry=rn, what=what, arg=arg,
                concurrent=self.bodies.get(key, 0), loops=len(self.live_loops()),
                marked_idle=(h is not None and h.idle_since is not None))

    # ---- hooks: store
    def on_tick_persisted(self, tick_data):
        if self.skip:
            return
        tick = WorkflowTickAdapter.validate_python(tick_data)
        if self.state is None:
            self.state = BrokerState.from_workflow(self.wf)
        if isinstance(tick, TickStepResult) and any(
                isinstance(r, StepWorkerResult) and isinstance(r.result, StopEvent) for r in tick.result):
            self.finish_pending = tick
            self.ev("tick", type="step_result", stop=True, step=tick.step_name, i=tick.event.get("i", 0))
            return
        self.state, cmds = _reduce_tick(tick, self.state, 0.0)
        if isinstance(tick, TickAddEvent):
            e = tick.event
            if isinstance(e, StartEvent):
                self.started = True
                self.ev("tick", type="add", ev="Start")
                self.emit("Start")
            elif tick.attempts:
                self.retries -= 1
                self.ev("tick", type="add", ev=type(e).__name__, i=e.i, retry=tick.attempts)
                self.emit("EWake true")
            else:
                ident = e.get("i", None)
                if isinstance(e, Resp):
                    ident = 1000 + e.get("k", 0)
                # the model queues a self-sent event at the sending step's result tick (the real put
                # happens a moment earlier, inside _finalize_step), so only the multiset is mirrored
                if ident not in self.mail:
                    self.unsupported = "tick for event %r persisted but receive queue mirror is %r" % (ident, self.mail)
                else:
                    self.mail.remove(ident)
                self.n_log += 1
                self.ev("tick", type="add", ev=type(e).__name__, i=ident)
                self.emit("EPull")
        elif isinstance(tick, TickStepResult):
            retry = any(isinstance(c, CommandQueueEvent) and c.delay for c in cmds)
            if any(isinstance(c, CommandQueueEvent) and not c.delay for c in cmds):
                self.unsupported = "step returned an event / zero-delay retry (not generated by this suite)"
            wait = any(isinstance(c, CommandScheduleWaiterTimeout) for c in cmds)
            failed = any(isinstance(r, StepWorkerFailed) for r in tick.result)
            i = tick.event.get("i", 0)
            sends = []
            for k in [k for k in self.pending_sends if k[0] == tick.step_name and k[1] == i]:
                sends = self.pending_sends.pop(k) if not failed else (self.pending_sends.pop(k) and [])
            self.mail.extend(sends)
            self.retries += 1 if retry else 0
            self.sched += 1 if wait else 0
            self.ev("tick", type="step_result", step=tick.step_name, i=i, retry=retry, wait=wait, sends=sends)
            self.emit("EDone [%s] 0%%nat %s %s" % ("; ".join(str(x) for x in sends),
                                                  "true" if retry else "false", "true" if wait else "false"))
        elif isinstance(tick, TickWaiterTimeout):
            self.sched -= 1
            self.ev("tick", type="waiter_timeout", waiter=tick.waiter_id)
            self.emit("EWake false")
        elif isinstance(tick, TickIdleCheck):
            self.ev("tick", type="idle_check")
        else:
            self.unsupported = "tick type %s not generated by this suite" % type(tick).__name__

    def on_idle_write(self, begin):
        if self.skip:
            return
        if begin:
            self.emit("EIdleDecide")
        else:
            self.pending_idle = True   # the releaser is spawned right after; the model action is emitted at spawn
            # the mark itself is logged here, whether or not a releaser follows (the C36 monitor works from the marks)
            h = self.handler()
            self.idle_marks.append((self.now(), h.idle_since))
            self.ev("idle-mark", idle_since=units(h.idle_since.timestamp() - vloop.CLOCK.wall_offset - 1000.0),
                    busy=self.obs()[5], mail=list(self.mail), sched=self.sched, retries=self.retries,
                    bodies={("%s:%s" % k): v for k, v in self.bodies.items() if v})

    def on_spawn(self, task, name):
        if self.skip:
            return
        if getattr(self, "pending_idle", False):
            self.pending_idle = False
            self.new_task("releaser", task, due=self.now() + self.tau)
            self.emit("EIdleWrite")

    def on_idle_clear(self):
        if self.skip:
            return
        k = self.cur()
        if k is not None and self.tasks[k]["kind"] == "sender":
            self.tasks[k]["pc"] = "cleared"
            self.emit("Task %d" % k)
        else:
            # the clearing write of on_tick (control loop task): its own action, the tick follows
            self.emit("EClear")

    def on_status(self, status):
        if self.skip:
            return
        self.ev("status", status=status)

    # ---- hooks: lock, senders, releasers, startup
    def on_lock(self, what):
        if self.skip:
            return
        k = self.cur()
        if k is None:
            return
        d = self.tasks[k]
        if what == "got":
            d["pc"] = "hold"
            self.emit("Task %d" % k)
        elif what == "rel" and d["kind"] == "releaser":
            d["pc"] = "done"
            self.emit("Task %d" % k)

    def on_sender_begin(self, tick):
        if self.skip:
            return
        e = tick.event
        ident = 1000 + e.get("k", 0) if isinstance(e, Resp) else e.get("i", 0)
        self.new_task("sender", asyncio.current_task(), e=ident)
        self.ev("sender-begin", i=ident)
        self.emit("Send %d" % ident)

    def on_sender_end(self, tick, exc):
        if self.skip:
            return
        e = tick.event
        ident = 1000 + e.get("k", 0) if isinstance(e, Resp) else e.get("i", 0)
        self.ev("sender-end", i=ident, error=(repr(exc) if exc is not None else None))

    def on_put(self, tick):
        if self.skip:
            return
        k = self.cur()
        e = tick.event
        ident = 1000 + e.get("k", 0) if isinstance(e, Resp) else e.get("i", 0)
        if self.live_loops():
            self.mail.append(ident)
        self.ev("put", i=ident, loops=len(self.live_loops()))
        if k is not None:
            self.tasks[k]["pc"] = "done"
            self.emit("Task %d" % k)

    def on_run_workflow(self, ok, exc):
        if self.skip:
            return
        k = self.cur()
        if k is None:
            return          # the initial start_workflow (driver task): the model's Start
        self.ev("run-workflow", ok=ok, by=self.tasks[k]["kind"], error=(repr(exc) if exc else None))
        if ok:
            self.state, _ = rewind_in_progress(self.state, 0.0) if self.state is not None else (None, None)
            self.mail, self.sched, self.retries = [], 0, 0
        self.tasks[k]["pc"] = "ran"
        self.emit("Task %d" % k)

    def on_release(self, begin):
        if self.skip:
            return
        k = self.cur()
        if begin and k is not None:
            self.tasks[k]["pc"] = "want"
            self.emit("Task %d" % k)
        if begin and getattr(self, "release_hook", None):
            h = self.handler()
            if h is not None and h.idle_since is not None and \
                    self.now() - units(h.idle_since.timestamp() - vloop.CLOCK.wall_offset - 1000.0) >= self.tau:
                self.release_hook()      # (a releaser that is going to find the run idle for idle_timeout)

    def on_abort(self):
        if self.skip:
            return
        o = self.obs()
        self.ev("release", busy=o[5], mail=list(self.mail), sched=self.sched, retries=self.retries,
                bodies={("%s:%s" % k): v for k, v in self.bodies.items() if v},
                idle_since=units(self.handler().idle_since.timestamp() - vloop.CLOCK.wall_offset - 1000.0))
        self.releases.append(self.now())
        for t in self.live_loops():
            self.dead.add(t)
        self.mail, self.sched, self.retries = [], 0, 0

    def on_loop_done(self, task):
        if self.skip:
            return
        if self.finish_pending is not None and task in self.loops and task not in self.dead:
            self.finish_pending = None
            self.finished = True
            self.mail, self.sched, self.retries = [], 0, 0
            self.ev("finished", status=self.handler().status)
            self.emit("EFinish")

    def on_server_start(self, begin):
        if self.skip:
            return
        if begin:
            h = self.handler()
            will = (h is not None and h.status == "running" and h.idle_since is None
                    and h.run_id not in self.chain.idle._active_run_ids)
            if will:
                self.new_task("startup", asyncio.current_task())
            self.ev("server-start", resumes=will)
            self.emit("Restart")


class Chain:
    def __init__(self, store, rec, tau_seconds):
        self.store = store
        basic = RecBasic()
        basic.rec = rec
        pers = RecPers(basic, store=store)
        pers.rec = rec
        self.idle = RecIdle(pers, store=store, idle_timeout=tau_seconds)
        self.idle.rec = rec
        lock = RecLock()
        lock.rec = rec
        self.idle._reload_lock = lock
        self.rt = ServerRuntimeDecorator(self.idle, store=store)
        self.svc = _WorkflowService(self.rt, store)
        self.wf = IRW(timeout=None, disable_validation=True)
        self.wf._switch_workflow_name("irw")
        self.wf._switch_runtime(self.rt)


# ------------------------------------------------------------------ scenarios
MONITOR_ONLY = {"retrynudge", "idlenudge"}


def gen_case(rng, kind=None):
    """ops: list of (time_units, op, payload), sorted by time."""
    kinds = ["plain", "self", "retry", "retry2", "retrynudge", "waitretry", "waitfail", "wait", "waitresp", "crash", "boundary", "zero", "yield", "startup", "burst", "latency", "relrace", "idlenudge"]
    kind = kind or rng.choice(kinds)
    tau = rng.choice([8, 16, 32, 64, 96])
    y = 0
    lat = 0
    at_release = None
    ops = []
    t = rng.choice([4, 8, 16])
    nid = itertools.count(1)
    inner = itertools.count(100)

    def gap():
        return rng.choice([rng.randint(1, max(1, tau - 1)), tau, tau + rng.randint(1, 40), 2 * tau + 5])

    def plain_ev(fin=False, **kw):
        d = dict(i=next(nid), dur=rng.choice([0, 2, 8, 24, tau + 8, 2 * tau]) / U, fin=fin)
        d.update(kw)
        return d

    if kind == "zero":
        tau = 0
    if kind in ("plain", "zero"):
        n = rng.randint(1, 4)
        for j in range(n):
            ops.append((t, "send", plain_ev(fin=(j == n - 1 and rng.random() < 0.7))))
            t += gap() if tau else rng.choice([1, 4, 20])
    elif kind == "self":
        n = rng.randint(1, 3)
        for j in range(n):
            sends = [(next(inner), rng.choice([0, 4, tau + 16, 3 * tau]) / U) for _ in range(rng.randint(1, 2))]
            ops.append((t, "send", plain_ev(sends=sends, dur=rng.choice([0, 2, 8]) / U)))
            t += gap() + 3 * tau
        if rng.random() < 0.5:
            ops.append((t, "send", plain_ev(fin=True)))
    elif kind == "retry":
        POLICY_delay = rng.choice([tau // 2 or 1, tau, tau + 8, 3 * tau])
        ops.append((0, "policy", POLICY_delay / U))
        ops.append((t, "send", plain_ev(fail=True, dur=rng.choice([0, 4]) / U)))
        t += POLICY_delay + gap() + 2 * tau
        if rng.random() < 0.5:       # (otherwise the run is left alone after its retry: it must go idle and be released)
            ops.append((t, "send", plain_ev(fin=True)))
    elif kind == "retry2":
        # two failing inputs whose retries are pending at the same time with different remaining delays: when the
        # first retry has fired and finished, the second one is still waiting for longer than the idle timeout
        POLICY_delay = rng.choice([3 * tau, 4 * tau + 8])
        ops.append((0, "policy", POLICY_delay / U))
        ops.append((t, "send", plain_ev(fail=True, dur=0.0)))
        ops.append((t + POLICY_delay // 2, "send", plain_ev(fail=True, dur=0.0)))
        t += 3 * POLICY_delay + 4 * tau + 40
        ops.append((t, "send", plain_ev(fin=True)))
    elif kind == "waitretry":
        # a wait_for_event timeout fires first (one scheduled wake-up that is not a retry comes and goes), later a
        # failing input whose retry waits for longer than the idle timeout
        T = rng.choice([tau // 2 or 1, tau])
        POLICY_delay = rng.choice([2 * tau + 8, 3 * tau])
        ops.append((0, "policy", POLICY_delay / U))
        ops.append((t, "send", plain_ev(wait=T / U, dur=0.0)))
        t += T + rng.choice([2, tau // 2 + 1, 2 * tau + 5])
        ops.append((t, "send", plain_ev(fail=True, dur=0.0)))
        t += 3 * POLICY_delay + 4 * tau + 40
        ops.append((t, "send", plain_ev(fin=True)))
    elif kind == "retrynudge":
        # while a retry waits out a delay longer than the idle timeout, an event that nobody accepts arrives (a response
        # for a wait that does not exist): it is reported as unhandled, and the run must neither be marked idle nor released
        POLICY_delay = rng.choice([2 * tau + 8, 3 * tau])
        ops.append((0, "policy", POLICY_delay / U))
        ops.append((t, "send", plain_ev(fail=True, dur=0.0)))
        ops.append((t + rng.choice([1, 2, max(1, tau // 4)]), "resp", 900 + rng.randint(1, 9)))
        t += 3 * POLICY_delay + 4 * tau + 40
        ops.append((t, "send", plain_ev(fin=True)))
    elif kind == "idlenudge":
        # an event that nobody accepts reaches an IDLE run that is still in memory (between its idle announcement and its
        # release): it is reported as unhandled - and the run, idle again, must be marked idle again and released
        ops.append((t, "send", plain_ev(dur=0.0)))
        ops.append((t + rng.choice([2, max(3, tau // 2), max(4, tau - 2)]), "resp", 900 + rng.randint(1, 9)))
    elif kind == "waitfail":
        # the run announces idle while a step waits with a timeout SHORTER than the idle timeout; the timeout wakes the
        # run by itself, the step then fails and its retry waits out a delay that ends after the first idle period
        # would have run out
        T = rng.choice([max(1, tau // 4), max(1, tau // 2)])
        POLICY_delay = rng.choice([tau, tau + 8, 2 * tau])
        ops.append((0, "policy", POLICY_delay / U))
        ops.append((t, "send", plain_ev(wait=T / U, fail=True, dur=0.0)))
        t += T + POLICY_delay + 4 * tau + 40
        ops.append((t, "send", plain_ev(fin=True)))
    elif kind == "wait":
        T = rng.choice([tau // 2 or 1, tau, tau + 8, 3 * tau])
        ops.append((t, "send", plain_ev(wait=T / U, dur=rng.choice([0, 4, tau + 16]) / U)))
        t += T + 4 * tau + 40
        ops.append((t, "send", plain_ev(fin=True)))
    elif kind == "waitresp":
        e = plain_ev(wait=-1.0, dur=rng.choice([0, 4]) / U, fin=rng.random() < 0.5)
        ops.append((t, "send", e))
        t += gap()
        ops.append((t, "resp", e["i"]))
        t += gap()
        ops.append((t, "send", plain_ev(fin=True)))
    elif kind == "burst":
        # several senders reach a released run at the same instant (one must reload, the others must not)
        y = rng.choice([0, 0, 1, 2])
        ops.append((t, "send", plain_ev(dur=0.0)))
        t += tau + rng.choice([1, 5, tau])
        for _ in range(rng.randint(2, 3)):
            ops.append((t, "send", plain_ev(dur=rng.choice([0, 4]) / U)))
        t += 3 * tau + 20
        ops.append((t, "send", plain_ev(fin=True)))
    elif kind == "latency":
        # a store with latency: senders arrive while the releaser (due at t + tau) is inside its query
        lat = rng.choice([1, 2, 3])
        ops.append((t, "send", plain_ev(dur=0.0)))
        # idle mark is written `lat`-ish after the step result; try arrival times around the due time
        # (the work these events start takes a random time: it may still be running when the releaser's query answers)
        for dtt in sorted(set(rng.sample(range(0, 4 * lat + 3), 2))):
            ops.append((t + tau + dtt, "send", plain_ev()))
        ops.append((t + 6 * tau + 80, "send", plain_ev(fin=True)))
    elif kind == "relrace":
        # a store with latency, and an event sent INSIDE the release: `delay` time units after the releaser of the first
        # idle period has started (it then sits in its query of the handler row for `lat` units); the work the event
        # starts outlasts that query
        lat = rng.choice([1, 2, 3])
        ops.append((t, "send", plain_ev(dur=0.0)))
        at_release = dict(delay=rng.choice([0, lat, 2 * lat - 1]),
                          payload=plain_ev(dur=rng.choice([0, 8, 24, tau + 8]) / U))
        ops.append((t + 8 * tau + 160, "send", plain_ev(fin=True)))
    elif kind == "boundary":
        y = rng.choice([0, 0, 1, 2, 3])
        # a send exactly when the releaser of the first idle mark fires, and one just before / after
        e = plain_ev(dur=0.0)
        ops.append((t, "send", e))
        ops.append((t + tau + rng.choice([-1, 0, 0, 1]), "send", plain_ev(dur=rng.choice([0, 4]) / U)))
        ops.append((t + 2 * tau + rng.choice([-1, 0, 1]), "send", plain_ev(dur=0.0)))
        ops.append((t + 6 * tau + 50, "send", plain_ev(fin=True)))
    elif kind in ("crash", "startup"):
        sub = rng.choice(["plain", "retry", "wait"])
        if sub == "retry":
            d = rng.choice([tau, 2 * tau, 3 * tau])
            ops.append((0, "policy", d / U))
            ops.append((t, "send", plain_ev(fail=True, dur=0.0)))
            tc = t + rng.randint(1, d + 4)
        elif sub == "wait":
            T = rng.choice([tau, 3 * tau])
            ops.append((t, "send", plain_ev(wait=T / U, dur=0.0)))
            tc = t + rng.randint(1, T + 4)
        else:
            ops.append((t, "send", plain_ev(dur=rng.choice([8, tau + 8, 3 * tau]) / U)))
            tc = t + rng.randint(1, 3 * tau)
        ops.append((tc, "crash", None))
        tr = tc + rng.choice([1, tau, 2 * tau + 3])
        ops.append((tr, "restart", None))
        if kind == "startup":
            y = rng.choice([1, 2, 3])
            ops.append((tr, "send", plain_ev(dur=0.0)))
        t = tr + 4 * tau + 100
        ops.append((t, "send", plain_ev(fin=True)))
    elif kind == "yield":
        y = rng.choice([1, 2, 3])
        n = rng.randint(2, 4)
        for j in range(n):
            sends = [(next(inner), rng.choice([0, 4]) / U)] if rng.random() < 0.4 else []
            ops.append((t, "send", plain_ev(sends=sends, fin=(j == n - 1))))
            t += rng.choice([0, 1, tau - 1 if tau > 1 else 1, tau, tau + 1, 2 * tau])
    ops.sort(key=lambda o: (o[0], 0 if o[1] == "policy" else 1))
    horizon = max(o[0] for o in ops) + 6 * max(tau, 16) + 400
    case = dict(kind=kind, tau=tau, y=y, lat=lat, ops=ops, horizon=horizon)
    if at_release:
        case["at_release"] = at_release
        case["snap"] = True
    return case


def run_case(case, reference=False):
    """Execute one scenario on the real stack. reference=True: same scenario, never released
    (idle_timeout far beyond the horizon), store not suspending."""
    tau_units = case["tau"] if not reference else case["horizon"] * 10
    rec = Recorder(tau_units)
    CUR["rec"] = rec
    POLICY.delay = 0.5
    res = dict(sent=[], rejected=[], errors=[])

    async def main():
        store = RecStore()
        store.rec = rec
        store.y = 0 if reference else case["y"]
        store.lat = 0 if reference else case.get("lat", 0)
        store.snap = bool(case.get("snap")) and not reference
        chain = Chain(store, rec, tau_units / U)
        rec.chain, rec.wf = chain, chain.wf
        await chain.svc.start()
        await vloop.settle()
        await chain.svc.start_workflow(chain.wf, "h1", start_event=StartEvent())
        t0 = 0

        async def do_send(payload):
            try:
                await rec.chain.svc.send_event("h1", Ext(**payload))
                res["sent"].append((payload["i"], rec.now()))
                rec.ev("driver-send", i=payload["i"], fin=payload["fin"])
            except Exception as e:  # noqa: BLE001
                res["rejected"].append((payload["i"], type(e).__name__))
                rec.ev("driver-send-rejected", i=payload["i"], error=type(e).__name__)

        if case.get("at_release") and not reference:
            ar = case["at_release"]

            def hook():
                rec.release_hook = None

                async def late():
                    if ar["delay"]:
                        await asyncio.sleep(ar["delay"] / U)
                    await do_send(ar["payload"])
                res["at_release_fired"] = rec.now()
                asyncio.ensure_future(late())
            rec.release_hook = hook
        for (t, op, payload) in case["ops"]:
            if t > t0:
                await asyncio.sleep((t - t0) / U)
                t0 = t
            if op == "policy":
                POLICY.delay = payload
            elif op == "send":
                await do_send(payload)
            elif op == "resp":
                try:
                    await rec.chain.svc.send_event("h1", Resp(k=payload))
                    rec.ev("driver-resp", i=payload)
                except Exception as e:  # noqa: BLE001
                    rec.ev("driver-send-rejected", i=1000 + payload, error=type(e).__name__)
            elif op == "crash":
                if reference:
                    continue
                rec.skip = True
                me = asyncio.current_task()
                for tk in asyncio.all_tasks():
                    if tk is not me:
                        tk.cancel()
                for _ in range(20):
                    await asyncio.sleep(0)
                rec.skip = False
                for tk in rec.loops:
                    rec.dead.add(tk)
                rec.mail, rec.sched, rec.retries = [], 0, 0
                rec.bodies = {}
                rec.pending_sends = {}
                new = Chain(store, rec, tau_units / U)
                rec.chain, rec.wf = new, new.wf
                rec.ev("crash")
                rec.emit("Crash")
            elif op == "restart":
                if reference:
                    continue
                await rec.chain.svc.start()
        await asyncio.sleep((case["horizon"] - t0) / U)
        h = rec.handler()
        res["status"] = h.status
        res["result"] = (h.result.result if h.result is not None else None)
        res["idle"] = h.idle_since is not None
        res["active"] = h.run_id in rec.chain.idle._active_run_ids
        res["loops"] = len(rec.live_loops())
        rec.skip = True
        for tk in asyncio.all_tasks():
            if tk is not asyncio.current_task():
                tk.cancel()
        for _ in range(5):
            await asyncio.sleep(0)

    vloop.run(main())
    return rec, res


# ------------------------------------------------------------------ model side
def conform_expr(case, rec):
    tr = "; ".join("(%s, [%s])" % (a, "; ".join(str(x) for x in o)) for a, o in rec.trace)
    return "conform %d init [%s] 1" % (case["tau"], tr)


# ------------------------------------------------------------------ monitors
def analyze(case, rec, res, ref=None):
    """Evaluate the statements of C36 / C26 / C14 on one real run.
    Returns (issues, facts): issues = list of dict(prop, key, what) -- key None means the clause must
    hold on the unchanged tree (a plain violation); a key names the mechanism of a recorded finding."""
    log, tau = rec.log, case["tau"]
    issues, facts = [], {}

    def issue(prop, key, what, **kw):
        issues.append(dict(prop=prop, key=key, what=what, **kw))

    def count(k, n=1):
        facts[k] = facts.get(k, 0) + n

    crashes = [e["t"] for e in log if e["kind"] == "crash"]
    releases = [e for e in log if e["kind"] == "release"]
    finished = [e["t"] for e in log if e["kind"] == "finished"]
    t_fin = finished[0] if finished else None
    count("releases", len(releases))
    count("crashes", len(crashes))
    count("yielding_store", 1 if case["y"] else 0)
    count("sent_inside_a_release", 1 if res.get("at_release_fired") is not None else 0)

    # ---- C26: never two live loops; no step input executed twice at the same time
    for a, o in rec.trace:
        if o[1] > 1:
            issue("C26", None, "two live control loops for one run after action %s" % a)
            break
    for e in log:
        if e["kind"] == "body" and e["what"] == "enter" and e["concurrent"] > 1:
            issue("C26", None, "step %s is executing input %s twice at the same time" % (e["step"], e["i"]))
            break

    # ---- C26: at most one resumer takes ownership
    owners = []
    race_errors = set()
    for e in log:
        if e["kind"] in ("release", "crash"):
            owners = []
        elif e["kind"] == "run-workflow":
            if e["ok"]:
                owners.append(e["by"])
                count("reloads_by_" + e["by"])
                if len(owners) > 1:
                    issue("C26", None, "two resumers (%s) started the run after one release" % ", ".join(owners))
            elif "startup" in owners + [e["by"]] and "already exists" in (e["error"] or ""):
                # the known mechanism: server-start resumption (no reload lock) against a sender's reload
                count("startup_races")
                race_errors.add(e["error"])
                issue("C26", "C26/startup-resume-races-sender-reload",
                      "server start resumed the run while a sender was reloading it: the second workflow.run "
                      "raised '%s' (by %s after %s)" % ((e["error"] or "")[:60], e["by"], owners))
            else:
                issue("C26", None, "a second resumer (%s after %s) called workflow.run for a run that is in memory: %s"
                      % (e["by"], owners, (e["error"] or "")[:80]))

    def on_time(rel):
        """the release follows an idle mark by at least idle_timeout with nothing happening in between (the only way the
        unchanged code releases a run); anything else is a release of a run that was not idle for idle_timeout"""
        k = log.index(rel)
        for j in range(k - 1, -1, -1):
            x = log[j]
            if x["kind"] == "idle-mark":
                return rel["t"] >= x["idle_since"] + tau
            if x["kind"] in ("sender-begin", "body") or (x["kind"] == "tick" and x.get("type") != "idle_check"):
                return False
        return False

    # ---- C26 / C14: what a release drops
    for e in releases:
        if e["busy"] or e["bodies"] or e["retries"]:
            issue("C26", "C26/release-mid-step-after-self-resume",
                  "run released at t=%d while busy=%d running bodies=%s pending retries=%d"
                  % (e["t"], e["busy"], e["bodies"], e["retries"]))
            if e["retries"]:
                issue("C14", None, "idle release at t=%d dropped %d pending retries" % (e["t"], e["retries"]))
        if e["mail"]:
            count("release_with_mail")
            issue("C26", "C26/release-drops-undelivered-event",
                  "run released at t=%d with %r still in its receive queue" % (e["t"], e["mail"]))
        if e["sched"] and not on_time(e):
            issue("C26", None, "run released at t=%d, before it had been idle for idle_timeout=%d, while %d waiter timeouts "
                  "were scheduled" % (e["t"], tau, e["sched"]))
        elif e["sched"]:
            count("release_with_waiter_timeout")
            issue("C26", "C26/release-drops-pending-waiter-timeout",
                  "run released at t=%d while %d waiter timeouts were scheduled" % (e["t"], e["sched"]))

    # ---- C26: every accepted event is eventually processed
    entered = {(e["step"], e["i"]) for e in log if e["kind"] == "body" and e["what"] == "enter"}
    exited = {(e["step"], e["i"]) for e in log if e["kind"] == "body" and e["what"] == "exit"}
    sender_err = {e["i"]: e["error"] for e in log if e["kind"] == "sender-end" and e["error"]}
    persisted = {e["i"] for e in log if e["kind"] == "tick" and e.get("type") == "add" and "i" in e}
    for e in log:
        if e["kind"] == "body" and e["what"] == "send":
            count("self_sent")
            k = e["arg"]
            if ("inner", k) in entered or t_fin is not None:
                continue
            if any(k in r["mail"] for r in releases):
                continue      # reported above (release-drops-undelivered-event)
            if crashes and k not in persisted:
                continue
            issue("C26", None, "event %d sent by a step to its own run was never processed" % k)
    for e in log:
        if e["kind"] != "driver-send":
            continue
        i = e["i"]
        count("sent")
        if ("h", i) in exited:
            count("processed")
            continue
        if t_fin is not None and i not in sender_err and not (("h", i) in entered and res["status"] == "running"):
            count("sent_but_run_finished_first")
            continue
        if i in sender_err and sender_err[i] in race_errors:
            issue("C26", "C26/startup-resume-races-sender-reload",
                  "event %d was accepted but its sender task died: %s" % (i, sender_err[i][:80]))
        elif i in sender_err:
            issue("C26", None, "event %d was accepted but its sender task died: %s" % (i, sender_err[i][:100]))
            if not crashes and releases:
                # reload on demand is transparent: whether the event arrives before, during or after a release, it is
                # delivered (to the live run, or to the reloaded one)
                issue("C36", None, "event %d, sent at t=%d around the release at t=%s, was not delivered to the live run nor "
                      "to a reloaded one: its send failed with %s" % (i, e["t"], [r["t"] for r in releases], sender_err[i][:100]))
        elif any(i in r["mail"] for r in releases):
            pass    # reported above (release-drops-undelivered-event)
        elif crashes and i not in persisted:
            count("accepted_event_lost_by_crash")      # crash before the tick was persisted: C13's subject
        elif any(x["kind"] == "tick" and x.get("type") == "step_result" and x.get("i") == i and x.get("retry")
                 for x in log) and crashes:
            pass    # its retry was lost at a restart: reported under C14
        elif any(x["kind"] == "tick" and x.get("type") == "step_result" and x.get("i") == i and x.get("wait")
                 for x in log):
            pass    # it is waiting; a lost timeout is reported under C14
        else:
            issue("C26", None, "event %d was accepted but never processed (final status %s)" % (i, res["status"]))

    # ---- C36: marked idle, released after the timeout
    for k, (a, o) in enumerate(rec.trace):
        if a == "EIdleWrite" and o[2] != 1:
            issue("C36", None, "WorkflowIdleEvent published but the handler is not marked idle")
    for e in log:
        if e["kind"] == "body" and e["what"] == "enter" and e["step"] != "start" and e["marked_idle"]:
            issue("C36", None, "step %s starts working on input %s at t=%d while the handler is marked idle"
                  % (e["step"], e["i"], e["t"]))
            break
    marks = [e for e in log if e["kind"] == "idle-mark"]
    count("idle_marks", len(marks))
    slack = 4 * case.get("lat", 0)        # a store with latency delays the mark, the timer and the releaser's query
    for m in marks:
        due = m["idle_since"] + tau
        disturbed = False
        for e in log[log.index(m) + 1:]:      # only what happens AFTER the mark (log order, not just time)
            if e["t"] > due + slack:
                break
            if e["kind"] in ("sender-begin", "crash", "idle-mark", "finished") or (
                    e["kind"] == "tick" and e.get("type") != "idle_check"):
                disturbed = True
                break
        if disturbed or due + slack > case["horizon"] - 2:
            continue
        count("undisturbed_idle_periods")
        if not any(due <= r["t"] <= due + slack for r in releases):
            issue("C36", None, "run idle since t=%d, idle_timeout=%d: not released at t=%d" % (m["idle_since"], tau, due))
        else:
            count("released_on_time")
    for k, (a, o) in enumerate(rec.trace):
        if a.startswith("Task") and k > 0 and rec.trace[k - 1][1][0] == 1 and o[0] == 0:
            # a release: not in memory any more, still marked idle
            if not (o[1] == 0 and o[2] == 1):
                issue("C36", None, "after the release the run has %d live loops / idle mark %d" % (o[1], o[2]))
            if len(o) > 8 and o[8] > 0:
                issue("C14", None, "the run was released from memory (action %d of the recorded trace) while %d retries were "
                      "waiting out their delay" % (k, o[8]))

    # ---- C36: at the end of the scenario (a long quiet stretch) a live run with nothing to do must have been marked idle
    # (and hence released): in memory + not marked idle + nothing busy / queued / scheduled is a run that is never released
    if rec.trace and not rec.unsupported:
        last = rec.trace[-1][1]
        if len(last) >= 9 and last[0] == 1 and last[2] == 0 and last[3] == 1 and all(last[k] == 0 for k in (5, 6, 7, 8)):
            issue("C36", None, "at the end of the scenario (t=%d, idle_timeout=%d) the run is still in memory, has nothing busy, queued "
                  "or scheduled, and was never marked idle after its last activity: it will never be released" % (case["horizon"], tau))
        if len(last) >= 9 and last[0] == 0 and last[3] == 1 and last[2] == 0 and not crashes:
            issue("C36", None, "at the end of the scenario the run is not in memory although its handler says 'running' and is not "
                  "marked idle: it was dropped without being released (the work it had in flight is gone)")
        count("final_states_checked")

    # ---- C36: reload is transparent (same outcome as the never-released reference run)
    if ref is not None and not crashes:
        rrec, rres = ref
        r_exit = {(e["step"], e["i"]) for e in rrec.log if e["kind"] == "body" and e["what"] == "exit"}
        r_to = {e["i"] for e in rrec.log if e["kind"] == "body" and e["what"] == "wait-timeout"}
        to = {e["i"] for e in log if e["kind"] == "body" and e["what"] == "wait-timeout"}
        count("compared_with_reference")
        if (rres["status"], rres["result"]) != (res["status"], res["result"]) or r_exit != exited or r_to != to:
            lost_to = r_to - to
            explained = bool(lost_to) and any(r["sched"] for r in releases)
            explained = explained or any(i["key"] in ("C26/release-drops-undelivered-event",
                                                      "C26/startup-resume-races-sender-reload") for i in issues)
            if not explained:
                issue("C36", None, "outcome differs from the never-released run: %r/%r completed %r vs %r timeouts %r vs %r"
                      % ((res["status"], res["result"]), (rres["status"], rres["result"]),
                         sorted(exited ^ r_exit), [], sorted(to), sorted(r_to)))
            else:
                count("difference_explained_by_finding")

    # ---- C14: scheduled retries and waiter timeouts take effect
    pol = [units(p) for (_, op, p) in case["ops"] if op == "policy"]
    retry_delay = pol[0] if pol else units(0.5)
    # wait < 0: wait_for_event is called without a timeout argument, i.e. with its default of 2000 s
    wait_of = {p["i"]: (units(p["wait"]) if p["wait"] >= 0 else units(2000.0)) for (_, op, p) in case["ops"]
               if op == "send" and p.get("wait") is not None}
    for k, e in enumerate(log):
        if e["kind"] != "tick" or e.get("type") != "step_result":
            continue
        later = log[k + 1:]
        if e.get("retry"):
            due = e["t"] + retry_delay
            between = [x for x in later if x["t"] <= due]
            count("retries_scheduled")
            done = [x for x in later if x["kind"] == "body" and x["what"] == "enter" and x["i"] == e["i"]
                    and x["retry"] >= 1]
            if done:
                count("retries_executed")
                if done[0]["t"] != due and not any(x["kind"] in ("crash", "release") for x in between):
                    issue("C14", None, "retry of input %d due at t=%d ran at t=%d" % (e["i"], due, done[0]["t"]))
            elif t_fin is not None and t_fin <= due:
                count("retry_but_run_finished_first")
            elif any(x["kind"] == "crash" for x in between):
                count("retry_lost_at_restart")
                issue("C14", "C14/retry-lost-at-restart",
                      "retry of input %d scheduled at t=%d (delay %d); the process restarted while it waited out its "
                      "delay; never retried" % (e["i"], e["t"], retry_delay))
            else:
                issue("C14", None, "retry of input %d scheduled at t=%d never happened" % (e["i"], e["t"]))
        if e.get("wait"):
            due = e["t"] + wait_of.get(e["i"], 0)
            between = [x for x in later if x["t"] <= due]
            count("waiter_timeouts_scheduled")
            hit = [x for x in later if x["kind"] == "body" and x["i"] == e["i"] and x["what"] == "wait-timeout"]
            if any(x["kind"] == "body" and x["i"] == e["i"] and x["what"] == "wait-result" for x in later):
                count("waits_resolved_by_event")
            elif hit:
                count("waiter_timeouts_fired")
                if hit[0]["t"] != due:
                    issue("C14", None, "waiter timeout of input %d due at t=%d fired at t=%d" % (e["i"], due, hit[0]["t"]))
            elif t_fin is not None and t_fin <= due:
                count("wait_but_run_finished_first")
            elif any(x["kind"] == "release" and not on_time(x) for x in between):
                rel = next(x for x in between if x["kind"] == "release" and not on_time(x))
                issue("C14", None, "wait_for_event(timeout=%d) of input %d registered at t=%d: the run was released at t=%d although "
                      "it had not been idle for idle_timeout=%d; TimeoutError never delivered"
                      % (wait_of.get(e["i"], 0), e["i"], e["t"], rel["t"], tau))
            elif any(x["kind"] == "release" for x in between):
                count("waiter_timeout_lost_on_release")
                issue("C14", "C14/waiter-timeout-lost-on-release",
                      "wait_for_event(timeout=%d) of input %d registered at t=%d; the run was released for idleness "
                      "before the timeout; TimeoutError never delivered" % (wait_of.get(e["i"], 0), e["i"], e["t"]))
            elif any(x["kind"] == "crash" for x in between):
                count("waiter_timeout_lost_on_restart")
                issue("C14", "C14/waiter-timeout-lost-on-restart",
                      "wait_for_event(timeout=%d) of input %d registered at t=%d; the process restarted before the "
                      "timeout; TimeoutError never delivered" % (wait_of.get(e["i"], 0), e["i"], e["t"]))
            else:
                issue("C14", None, "waiter timeout of input %d registered at t=%d never fired" % (e["i"], e["t"]))
    if rec.unsupported:
        facts["unsupported"] = rec.unsupported
    return issues, facts


def run_suite(ctx, n, props, with_reference=0.35):
    """Run n generated scenarios; returns (results, facts_total).  results: list of dicts with case,
    conform value, issues (restricted to `props`)."""
    import core
    rng = random.Random(ctx.seed * 7919 + 11)
    kinds = ["plain", "self", "retry", "retry2", "retrynudge", "waitretry", "waitfail", "wait", "waitresp", "crash", "boundary", "zero", "yield", "startup", "burst", "latency", "relrace", "idlenudge"]
    out, exprs, total = [], [], {}
    corpus = corpus_cases()
    for k in range(len(corpus) + n):
        case = corpus[k] if k < len(corpus) else gen_case(rng, kinds[k % len(kinds)])
        rec, res = run_case(case)
        ref = None
        if any(op == "crash" for (_, op, _p) in case["ops"]) or case.get("at_release"):
            pass      # (no never-released counterpart: the event is sent when a release begins)
        elif k < len(corpus) or rng.random() < with_reference:
            ref = run_case(case, reference=True)
        issues, facts = analyze(case, rec, res, ref)
        if rec.unsupported:
            raise core.CheckError("idlerel suite: scenario outside the supported shapes: %s (%r)"
                                  % (rec.unsupported, case))
        for f, v in facts.items():
            if isinstance(v, int):
                total[f] = total.get(f, 0) + v
        total["cases_" + case["kind"]] = total.get("cases_" + case["kind"], 0) + 1
        total["actions"] = total.get("actions", 0) + len(rec.trace)
        # (an event nobody accepts is outside M-IdleRelease: those scenarios are evaluated by the monitors only)
        exprs.append("0" if case["kind"] in MONITOR_ONLY else conform_expr(case, rec))
        out.append(dict(case=case, res=res, issues=[i for i in issues if i["prop"] in props], facts=facts,
                        ntrace=len(rec.trace), trace=rec.trace))
    vals = ctx.run_cases("idlerel", HEADER, exprs, shard=40)
    for r, v in zip(out, vals):
        r["conform"] = v
    total["disagreements"] = sum(1 for v in vals if v != 0)
    return out, total


# ------------------------------------------------------------------ fixed witness scenarios (run first, every time)
def corpus_cases():
    S = lambda **kw: dict(dict(dur=0.0, fin=False), **kw)   # noqa: E731
    return [
        # DESIGN C26 witness: a step sends an event to its own run and returns None; the event starts a 5 s step;
        # idle_timeout 1 s (repaired by 256c25e: must be quiet)
        dict(kind="corpus-selfsend", tau=64, y=0, horizon=1200,
             ops=[(8, "send", S(i=1, sends=[(100, 5.0)])), (700, "send", S(i=2, fin=True))]),
        # a waiter timeout (1 s) wakes an idle-marked run that then works for 2 s; idle_timeout 1.5 s (repaired)
        dict(kind="corpus-waiterwake", tau=96, y=0, horizon=1200,
             ops=[(8, "send", S(i=1, wait=1.0, dur=2.0)), (700, "send", S(i=2, fin=True))]),
        # retry delay 0.5 s, idle_timeout 0.1 s (DESIGN C14a; repaired in the engine by 758c77d)
        dict(kind="corpus-retry", tau=6, y=0, horizon=900,
             ops=[(0, "policy", 0.5), (8, "send", S(i=1, fail=True)), (400, "send", S(i=2, fin=True))]),
        # wait_for_event(timeout=1 s), idle_timeout 0.125 s: the timeout is dropped by the release
        dict(kind="corpus-waitlost", tau=8, y=0, horizon=900,
             ops=[(8, "send", S(i=1, wait=1.0)), (400, "send", S(i=2, fin=True))]),
        # idle_timeout 0: the release overtakes an event the step sent to its own run
        dict(kind="corpus-zeroself", tau=0, y=0, horizon=800,
             ops=[(8, "send", S(i=1, sends=[(100, 0.25)])), (200, "send", S(i=2, fin=True))]),
        # crash during a 4 s step, restart on a store whose reads suspend, an event sent at once
        dict(kind="corpus-startup", tau=64, y=1, horizon=1500,
             ops=[(8, "send", S(i=1, dur=4.0)), (40, "crash", None), (72, "restart", None), (72, "send", S(i=2)),
                  (900, "send", S(i=3, fin=True))]),
        # crash while a retry waits out its delay (2 s)
        dict(kind="corpus-retrycrash", tau=64, y=0, horizon=1500,
             ops=[(0, "policy", 2.0), (8, "send", S(i=1, fail=True)), (40, "crash", None), (72, "restart", None),
                  (900, "send", S(i=2, fin=True))]),
        # crash while wait_for_event(timeout=2 s) is pending
        dict(kind="corpus-waitcrash", tau=640, y=0, horizon=2500,
             ops=[(8, "send", S(i=1, wait=2.0)), (40, "crash", None), (72, "restart", None),
                  (1500, "send", S(i=2, fin=True))]),
    ]
