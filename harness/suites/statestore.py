"""Correspondence suite `statestore`: the real InMemoryStateStore and SqliteStateStore vs
Model/StateStore.v (memory model with explicit object identity, SQLite model with load/save around
every operation, and the nested-dict specification).

Every case is an operation sequence executed on both real stores (fresh store per case); the
canonicalised outputs are compared *inside Coq* with the outputs of the models (`check_case`).  The
same outputs are also compared, in Python, with `Oracle` — a direct nested-dict implementation of the
property's reference semantics — which turns any deviation into a concrete failing op sequence."""
import asyncio
import copy
import json
import os
import sqlite3
from typing import Any

import boot

boot.enable_server()

from pydantic import BaseModel  # noqa: E402

import core  # noqa: E402
import vloop  # noqa: E402
from core import gz, glist, gzlist, gopt, gbool  # noqa: E402
from workflows.context.state_store import DictState, InMemoryStateStore  # noqa: E402
from llama_agents.server._store.sqlite.sqlite_workflow_store import SqliteWorkflowStore  # noqa: E402

HEADER_IMPORTS = """From Coq Require Import List ZArith Bool.
Import ListNotations.
From WF Require Import Generated Model.StateStore.
Open Scope Z_scope.
"""


# ---- typed state universe (single inheritance) ---------------------------------------------
class G(BaseModel):
    g1: Any = None
    cnt: int = 0


class P(G):
    p1: dict[str, Any] = {}
    p2: Any = 5


class C(P):
    c1: Any = "c"
    c2: list[Any] = []


class U(BaseModel):
    u1: Any = 1


CHAIN = {DictState: [0], G: [1], P: [1, 2], C: [1, 2, 3], U: [9]}
BY_CHAIN = {tuple(v): k for k, v in CHAIN.items()}
TYPED = [G, P, C, U]


def field_kind(cls, name):
    a = cls.model_fields[name].annotation
    if a is int:
        return "int"
    if a is Any:
        return "any"
    s = str(a)
    if s.startswith("dict"):
        return "dict"
    if s.startswith("list"):
        return "list"
    raise core.CheckError("statestore: unexpected field annotation %r" % (a,))


def own_fields(cls):
    parent = [b for b in cls.__mro__[1:] if b in CHAIN]
    inherited = set(parent[0].model_fields) if parent else set()
    return [(n, cls.model_fields[n].default) for n in cls.model_fields if n not in inherited]


# ---- pools -----------------------------------------------------------------------------------
KEYS = ["a", "b", "c", "k", "x1", "0", "1", "2", "-1", "+1", "01", "1_0", " 1", "", "10", "zz"]
VKEYS = ["a", "b", "k", "0", "1", "a.b", "zz"]          # keys inside generated dict values
STRS = ["", "s", "xyz", "a.b", "0", "he"]
FIELDS = sorted({n for c in TYPED for n in c.model_fields})


def check_pools():
    """Modelling restriction, fail closed: no pool name may be an attribute of a builtin value or of
    a state object (getattr would then return a non-JSON object instead of raising)."""
    for n in KEYS + VKEYS + FIELDS:
        for t in ({}, [], "x", 1, 1.5, True, None):
            if hasattr(t, n):
                raise core.CheckError("statestore: pool name %r is an attribute of %r" % (n, type(t)))
    for n in KEYS:
        for c in [DictState] + TYPED:
            if n not in c.model_fields and n in dir(c):
                raise core.CheckError("statestore: pool name %r is an attribute of %s" % (n, c.__name__))
        if not all(ord(ch) < 128 for ch in n):
            raise core.CheckError("statestore: non-ASCII pool name")


# ---- Coq printers ----------------------------------------------------------------------------
POOL = {}      # string -> Coq constant name; the definitions are emitted by header()


def gs(s):
    """Strings are named constants (parsing long numeric literals dominates coqc's time)."""
    if len(s) <= 1:
        return gzlist([ord(c) for c in s])
    n = POOL.get(s)
    if n is None:
        n = POOL[s] = "s%d" % len(POOL)
    return n


def gval(v):
    if v is None:
        return "VNull"
    if isinstance(v, bool):
        return "(VBool %s)" % gbool(v)
    if isinstance(v, int):
        return "(VInt %s)" % gz(v)
    if isinstance(v, float):
        t = v * 2
        if t != int(t):
            raise core.CheckError("statestore: non-dyadic float %r" % v)
        return "(VFlt %s)" % gz(int(t))
    if isinstance(v, str):
        return "(VStr %s)" % gs(v)
    if isinstance(v, list):
        return "(VList %s)" % glist(gval(x) for x in v)
    if isinstance(v, dict):
        return "(VDict %s)" % gitems(v)
    if isinstance(v, Marker):
        return "(VStr [%s])" % gz(v.code)
    raise core.CheckError("statestore: cannot encode %r" % (v,))


class Marker:
    """Something the model cannot produce (non-JSON object, non-string key): encoded so that the
    comparison inside Coq reports a difference."""

    def __init__(self, code, what):
        self.code, self.what = code, what

    def __eq__(self, o):
        return isinstance(o, Marker) and (self.code, self.what) == (o.code, o.what)

    def __hash__(self):
        return hash((self.code, self.what))

    def __repr__(self):
        return "<%s>" % self.what


def gitems(d):
    out = []
    for k, v in d.items():
        if isinstance(k, str):
            out.append("(%s, %s)" % (gs(k), gval(v)))
        else:
            out.append("([-1], %s)" % gval(v))
    return glist(out)


def gsobj(o):
    return "{| o_cls := %s; o_items := %s |}" % (gzlist(o[0]), gitems(o[1]))


def gedit(e):
    return "(EPut %s %s)" % (gs(e[1]), gval(e[2])) if e[0] == "put" else "(EAdd %s %s)" % (gs(e[1]), gz(e[2]))


def gop(o):
    k = o[0]
    if k == "get":
        return "(OGet %s %s)" % (gs(o[1]), "(Some %s)" % gval(o[2][0]) if o[2] else "None")
    if k == "set":
        return "(OSet %s %s)" % (gs(o[1]), gval(o[2]))
    if k == "set_state":
        return "(OSetState %s)" % gsobj((o[1], o[2]))
    if k == "clear":
        return "OClear"
    if k == "edit":
        return "(OEdit %s)" % glist(gedit(e) for e in o[1])
    if k == "get_state":
        return "OGetState"
    if k == "snap_edit":
        return "(OSnapEdit %s)" % glist(gedit(e) for e in o[1])
    if k == "snap_write":
        return "OSnapWrite"
    raise core.CheckError("statestore: unknown op %r" % (o,))


def gout(r):
    k = r[0]
    if k == "val":
        return "(RVal %s)" % gval(r[1])
    if k == "root":
        return "(RRoot %s)" % gsobj(r[1])
    if k == "state":
        return "(RState %s)" % gsobj(r[1])
    if k == "ok":
        return "ROk"
    if k == "nosnap":
        return "RNoSnap"
    if k == "err":
        if r[1] == "ValueError":
            return "(RErr EValue)"
        if r[1] == "AttributeError":
            return "(RErr EAttr)"
        return "(RVal (VStr [-3]))"      # an exception class the model never produces
    raise core.CheckError("statestore: unknown output %r" % (r,))


def header():
    ct = glist("(%d, %s)" % (CHAIN[c][-1], gitems(dict(own_fields(c)))) for c in TYPED)
    defs = "".join("Definition %s : str := %s.\n" % (n, gzlist([ord(c) for c in t])) for t, n in POOL.items())
    return HEADER_IMPORTS + defs + "Definition CT : ctable := %s.\n" % ct


def fast_scratch(ctx):
    """Directory for the SQLite files of a run: tmpfs when there is one (every operation of the real
    store commits, i.e. fsyncs), else the check's scratch directory. Removed by the caller."""
    d = "/dev/shm"
    if os.path.isdir(d) and os.access(d, os.W_OK):
        return os.path.join(d, "verif-%s-%d" % (ctx.pid, os.getpid()))
    return os.path.join(ctx.scratch, "db")


def source_flags():
    """The statestore_* shape flags of the source tree under check (the same extraction that writes
    Generated.v), as Coq literals.  The case files get them as literals rather than through the shared
    Generated.vo, which a concurrently running check of another tree may have rewritten."""
    import re
    import translate
    import translate_statestore as TS
    try:
        txt = TS.extract(translate.src)
    except (TS.Err, translate.TranslateError, SyntaxError):
        return {}           # unknown shape: prove() reports it; the suite runs the repaired-behaviour model
    return dict(re.findall(r"Definition (\w+) : bool := (true|false)\.", txt))


def case_expr(ty, ops, obs_mem, obs_sql, fin_mem, fin_sql, copy_flag="true"):
    return "check_case %s CT %s %s %s %s %s %s" % (
        copy_flag, gzlist(ty), glist(gop(o) for o in ops), glist(gout(r) for r in obs_mem),
        glist(gout(r) for r in obs_sql), gsobj(fin_mem), gsobj(fin_sql))


# ---- canonical reading of real objects ---------------------------------------------------------
def canon(v, depth=0):
    if v is None or isinstance(v, (bool, int, float, str)):
        return v
    if isinstance(v, list):
        return [canon(x, depth + 1) for x in v]
    if isinstance(v, dict):
        out = {}
        for k, x in v.items():
            out[k if isinstance(k, str) else Marker(-1, "key %r" % (k,))] = canon(x, depth + 1)
        return out
    return Marker(-2, "object %s" % type(v).__name__)


def has_marker(v):
    if isinstance(v, Marker):
        return True
    if isinstance(v, list):
        return any(has_marker(x) for x in v)
    if isinstance(v, dict):
        return any(isinstance(k, Marker) or has_marker(x) for k, x in v.items())
    return False


def dump_state(st):
    """(class chain, top-level dict) of a real state object."""
    t = type(st)
    if t not in CHAIN:
        raise core.CheckError("statestore: unexpected state class %r" % t)
    if isinstance(st, DictState):
        return (CHAIN[t], canon(dict(st._data)))
    return (CHAIN[t], canon({n: getattr(st, n) for n in t.model_fields}))


def classify_exc(e):
    if isinstance(e, ValueError):
        return "ValueError"
    if isinstance(e, AttributeError):
        return "AttributeError"
    return type(e).__name__


def build_obj(chain, items):
    cls = BY_CHAIN[tuple(chain)]
    return cls(**copy.deepcopy(items))


def apply_edits_real(st, edits):
    for e in edits:
        k = e[1]
        dl = isinstance(st, DictState)
        if e[0] == "put":
            v = copy.deepcopy(e[2])
        else:
            cur = st.get(k) if dl else getattr(st, k, None)
            v = cur + e[2] if isinstance(cur, int) and not isinstance(cur, bool) else e[2]
        if dl:
            st[k] = v
        elif k in type(st).model_fields:
            setattr(st, k, v)


class RealRun:
    """Drives one real store through an op list; `peek` reads the stored state without going through
    the store's own read path (no side effects)."""

    def __init__(self, store, peek):
        self.store, self.peek, self.snap = store, peek, None
        self.isolation_breaks = []

    async def step(self, i, o):
        st, k = self.store, o[0]
        try:
            if k == "get":
                r = await (st.get(o[1], copy.deepcopy(o[2][0])) if o[2] else st.get(o[1]))
                if isinstance(r, BaseModel):
                    return ("root", dump_state(r))
                return ("val", canon(r))
            if k == "set":
                await st.set(o[1], copy.deepcopy(o[2]))
                return ("ok",)
            if k == "set_state":
                await st.set_state(build_obj(o[1], o[2]))
                return ("ok",)
            if k == "clear":
                await st.clear()
                return ("ok",)
            if k == "edit":
                async with st.edit_state() as s:
                    apply_edits_real(s, o[1])
                return ("ok",)
            if k == "get_state":
                self.snap = await st.get_state()
                return ("state", dump_state(self.snap))
            if k == "snap_edit":
                if self.snap is None:
                    return ("nosnap",)
                before = self.peek()
                apply_edits_real(self.snap, o[1])
                after = self.peek()
                if before != after:
                    self.isolation_breaks.append(dict(op_index=i, before=repr(before), after=repr(after)))
                return ("ok",)
            if k == "snap_write":
                if self.snap is None:
                    return ("nosnap",)
                sn, self.snap = self.snap, None
                await st.set_state(sn)
                return ("ok",)
        except Exception as e:  # noqa: BLE001 - classified, compared with the model
            return ("err", classify_exc(e))
        raise core.CheckError("statestore: unknown op %r" % (o,))


class Env:
    """One SQLite database per suite run (in the check's scratch dir); one run_id per case."""

    def __init__(self, scratch, single_connection=False):
        os.makedirs(scratch, exist_ok=True)
        self.path = os.path.join(scratch, "statestore-%d-%d.db" % (os.getpid(), id(self) % 100000))
        self.ws = SqliteWorkflowStore(self.path, single_connection=single_connection)
        self.n = 0

    def fresh_sql(self, cls):
        self.n += 1
        rid = "run%d" % self.n
        return self.ws.create_state_store(rid, state_type=cls), rid

    def peek_sql(self, rid):
        if self.ws._persistent_conn is not None:
            conn, close = self.ws._persistent_conn, False
        else:
            conn, close = sqlite3.connect(self.path), True
        try:
            row = conn.execute("SELECT state_json, state_type FROM workflow_state WHERE run_id = ?", (rid,)).fetchone()
        finally:
            if close:
                conn.close()
        return None if row is None else (row[0], row[1])

    def close(self):
        if self.ws._persistent_conn is not None:
            try:
                self.ws._persistent_conn.close()
            except Exception:  # noqa: BLE001
                pass


def run_both(env, chain, ops):
    """Execute ops on a fresh memory store and a fresh SQLite store. Returns per-store
    (outputs, final state dump, isolation breaks)."""
    cls = BY_CHAIN[tuple(chain)]

    async def go():
        mem = InMemoryStateStore(cls())
        rm = RealRun(mem, lambda: dump_state(copy.deepcopy(mem._state)))
        sq, rid = env.fresh_sql(cls)
        rs = RealRun(sq, lambda: env.peek_sql(rid))
        om, osq = [], []
        for i, o in enumerate(ops):
            om.append(await rm.step(i, o))
            osq.append(await rs.step(i, o))
        fm = dump_state(mem._state)
        try:
            fs = dump_state(await sq.get_state())
        except Exception as e:  # noqa: BLE001
            fs = ([-1], {"error": classify_exc(e)})
        return (om, fm, rm.isolation_breaks), (osq, fs, rs.isolation_breaks)

    return vloop.run(go())


# ---- the reference semantics in Python ("plain nested dict") ------------------------------------
class NotFound(Exception):
    pass


class Oracle:
    """State = (class chain, plain dict); snapshot = an independent deep copy held by the caller."""

    def __init__(self, chain):
        self.cls = list(chain)
        self.d = self.defaults(chain)
        self.snap = None

    @staticmethod
    def defaults(chain):
        cls = BY_CHAIN[tuple(chain)]
        if cls is DictState:
            return {}
        return {n: copy.deepcopy(f.default) for n, f in cls.model_fields.items()}

    @staticmethod
    def index(seg, n):
        try:
            i = int(seg)
        except ValueError:
            return None
        if 0 <= i < n:
            return i
        if -n <= i < 0:
            return i + n
        return None

    @classmethod
    def child(cls, v, seg):
        if isinstance(v, dict):
            if seg in v:
                return v[seg]
            raise NotFound()
        if isinstance(v, (list, str)):
            i = cls.index(seg, len(v))
            if i is None:
                raise NotFound()
            return v[i]
        raise NotFound()

    @classmethod
    def put(cls, v, seg, x):
        if isinstance(v, dict):
            v[seg] = x
            return
        if isinstance(v, list):
            i = cls.index(seg, len(v))
            if i is not None:
                v[i] = x
                return
        raise AttributeError()

    def closed(self):
        return self.cls != [0]

    def get(self, path, dflt):
        segs = path.split(".") if path else []
        if len(segs) > 1000:
            return ("err", "ValueError")
        if not segs:
            return ("root", (list(self.cls), copy.deepcopy(self.d)))
        try:
            v = self.d
            for s in segs:
                v = self.child(v, s)
            return ("val", copy.deepcopy(v))
        except NotFound:
            return ("val", dflt[0]) if dflt else ("err", "ValueError")

    def set(self, path, x):
        if not path:
            return ("err", "ValueError")
        segs = path.split(".")
        if len(segs) > 1000:
            return ("err", "ValueError")
        cur, top = self.d, True
        for i, s in enumerate(segs[:-1]):
            try:
                cur = self.child(cur, s)
            except NotFound:
                if top and self.closed():
                    return ("err", "ValueError")
                nested = x
                for t in reversed(segs[i + 1:]):
                    nested = {t: nested}
                try:
                    self.put(cur, s, nested)
                except AttributeError:
                    return ("err", "AttributeError")
                return ("ok",)
            top = False
        if top and self.closed() and segs[-1] not in self.d:
            return ("err", "ValueError")
        try:
            self.put(cur, segs[-1], x)
        except AttributeError:
            return ("err", "AttributeError")
        return ("ok",)

    def merge(self, inc_cls, inc_d):
        cur = self.cls
        if inc_cls[:len(cur)] == cur:
            self.cls, self.d = list(inc_cls), copy.deepcopy(inc_d)
            return ("ok",)
        if cur[:len(inc_cls)] == inc_cls:
            for k in self.d:
                if k in inc_d:
                    self.d[k] = copy.deepcopy(inc_d[k])
            return ("ok",)
        return ("err", "ValueError")

    @staticmethod
    def edits(cls, d, es):
        for e in es:
            k = e[1]
            if e[0] == "put":
                v = copy.deepcopy(e[2])
            else:
                c = d.get(k)
                v = c + e[2] if isinstance(c, int) and not isinstance(c, bool) else e[2]
            if cls == [0] or k in d:
                d[k] = v

    def step(self, o):
        k = o[0]
        if k == "get":
            return self.get(o[1], o[2])
        if k == "set":
            return self.set(o[1], copy.deepcopy(o[2]))
        if k == "set_state":
            return self.merge(o[1], o[2])
        if k == "clear":
            self.d = self.defaults(self.cls)
            return ("ok",)
        if k == "edit":
            self.edits(self.cls, self.d, o[1])
            return ("ok",)
        if k == "get_state":
            self.snap = (list(self.cls), copy.deepcopy(self.d))
            return ("state", (list(self.cls), copy.deepcopy(self.d)))
        if k == "snap_edit":
            if self.snap is None:
                return ("nosnap",)
            self.edits(self.snap[0], self.snap[1], o[1])
            return ("ok",)
        if k == "snap_write":
            if self.snap is None:
                return ("nosnap",)
            sn, self.snap = self.snap, None
            return self.merge(sn[0], sn[1])
        raise core.CheckError("statestore: unknown op %r" % (o,))


# ---- generators ------------------------------------------------------------------------------------
def gen_value(rng, depth=0, kind="any"):
    if kind == "int":
        return rng.choice([0, 1, -3, 7, 12, 100])
    if kind == "dict":
        return {rng.choice(VKEYS): gen_value(rng, depth + 1) for _ in range(rng.randint(0, 3))}
    if kind == "list":
        return [gen_value(rng, depth + 1) for _ in range(rng.randint(0, 3))]
    x = rng.random()
    if depth > 2 or x < 0.45:
        return rng.choice([None, True, False, 0, 1, -5, 42, 2.5, -0.5, rng.choice(STRS), rng.choice(STRS), [], {}])
    if x < 0.7:
        return [gen_value(rng, depth + 1) for _ in range(rng.randint(0, 3))]
    return {rng.choice(VKEYS): gen_value(rng, depth + 1) for _ in range(rng.randint(0, 3))}


def gen_path(rng, oracle):
    """Mostly follows what exists in the oracle's current state (keys, valid and out-of-range
    indices), then optionally extends into the unknown."""
    segs, v = [], oracle.d
    n = rng.choice([1, 1, 2, 2, 3, 4])
    for _ in range(n):
        pick = None
        if isinstance(v, dict) and v and rng.random() < 0.7:
            pick = rng.choice(list(v.keys()))
            nxt = v[pick]
        elif isinstance(v, (list, str)) and rng.random() < 0.8:
            ln = len(v)
            pick = str(rng.choice([0, ln - 1, -1, -ln, ln, -ln - 1, 1])) if ln else rng.choice(["0", "-1"])
            if rng.random() < 0.15:
                pick = rng.choice([" " + pick, "0" + pick.lstrip("-"), "+" + pick.lstrip("-"), pick + "_0"])
            i = Oracle.index(pick, ln)
            nxt = v[i] if i is not None else None
        if pick is None or not isinstance(pick, str):
            pick = rng.choice(FIELDS if (not segs and oracle.closed() and rng.random() < 0.5) else KEYS)
            nxt = v.get(pick) if isinstance(v, dict) else None
        segs.append(pick)
        v = nxt
    return ".".join(segs)


def gen_edits(rng, chain, d):
    out = []
    for _ in range(rng.randint(1, 3)):
        if chain == [0]:
            k = rng.choice(list(d.keys()) + KEYS[:6]) if d and rng.random() < 0.6 else rng.choice(KEYS)
            if not isinstance(k, str):
                k = "a"
            out.append(("add", k, rng.choice([1, -1, 5])) if rng.random() < 0.35 else ("put", k, gen_value(rng, 1)))
        else:
            cls = BY_CHAIN[tuple(chain)]
            k = rng.choice(list(cls.model_fields))
            kind = field_kind(cls, k)
            if kind in ("int", "any") and rng.random() < 0.4:
                out.append(("add", k, rng.choice([1, -1, 5])))
            else:
                out.append(("put", k, gen_value(rng, 1, kind)))
    return out


def gen_incoming(rng, store_chain, cur_chain, force=None):
    """An object for set_state: same class, a parent, a subclass or an unrelated class
    (force="sub"/"parent": a strict subclass / strict parent of the current class when there is one)."""
    family = [[1], [1, 2], [1, 2, 3]]
    forced = None
    if force == "sub":
        forced = [c for c in family if len(c) > len(cur_chain) and c[:len(cur_chain)] == cur_chain]
    elif force == "parent":
        forced = [c for c in family if len(c) < len(cur_chain) and cur_chain[:len(c)] == c]
    if forced:
        ch = rng.choice(forced)
    elif store_chain == [0]:
        ch = [0] if rng.random() < 0.9 else rng.choice([[1], [9]])
    else:
        x = rng.random()
        related = [c for c in ([1], [1, 2], [1, 2, 3])]
        if x < 0.4:
            ch = list(cur_chain)
        elif x < 0.9:
            ch = rng.choice(related)
        else:
            ch = rng.choice([[9], [0]])
    cls = BY_CHAIN[tuple(ch)]
    if cls is DictState:
        return ch, {rng.choice(KEYS[:6]): gen_value(rng, 1) for _ in range(rng.randint(0, 3))}
    items = {}
    for n in cls.model_fields:
        if rng.random() < 0.6:
            items[n] = gen_value(rng, 1, field_kind(cls, n))
        else:
            items[n] = copy.deepcopy(cls.model_fields[n].default)
    return ch, items


OPK = ["set"] * 30 + ["get"] * 26 + ["set_state"] * 8 + ["clear"] * 5 + ["edit"] * 8 + ["get_state"] * 8 + \
      ["snap_edit"] * 9 + ["snap_write"] * 6


def gen_case(rng, i):
    """Returns (store class chain, ops). The generator follows the oracle so that paths point into
    existing structure; `i` selects biased openings."""
    x = rng.random()
    chain = [0] if x < 0.5 else ([1, 2] if x < 0.75 else ([1, 2, 3] if x < 0.92 else [1]))
    orc = Oracle(chain)
    ops = []
    n = rng.randint(1, 12)
    opening = i % 8
    script = []
    if opening == 0:                               # snapshot, change it, read the store
        script = ["set", "get_state", "snap_edit", "get", "get_state", "snap_write", "get"]
    elif opening == 1 and chain != [0]:            # set_state (a parent class) as the very first operation
        script = ["set_parent", "get_state", "clear", "get_state"]
    elif opening == 2 and chain == [0]:            # numeric first segment
        script = ["numset", "numget", "get_state"]
    elif opening == 3 and chain != [0]:            # subclass replacement, then clear
        script = ["get", "set_sub", "clear", "get_state"]
    elif opening == 4:                             # list and string indexing, negative indices
        script = ["listset", "listassign", "listget", "strset", "strget"]
    lkey = "a" if chain == [0] else "g1"
    tainted = False    # a nested in-place set happened since the snapshot was taken (see Model/StateStore.v wb_clean)
    while len(ops) < max(n, len(script)):
        k = script[len(ops)] if len(ops) < len(script) else rng.choice(OPK)
        if k == "snap_write" and tainted:
            k = "get_state"
        if k == "listset":
            o = ("set", lkey, [gen_value(rng, 2) for _ in range(rng.randint(2, 4))])
        elif k == "listassign":
            ln = len(orc.d[lkey])
            o = ("set", "%s.%s" % (lkey, rng.choice(["-1", str(-ln), str(ln - 1), "-2"])), gen_value(rng, 1))
        elif k == "listget":
            o = ("get", "%s.%s" % (lkey, rng.choice(["-1", "-2", str(-len(orc.d[lkey]))])), rng.choice([None, (0,)]))
        elif k == "strset":
            o = ("set", lkey + ".0", rng.choice(["xyz", "he"]))
        elif k == "strget":
            o = ("get", lkey + ".0." + rng.choice(["-1", "0", "1"]), None)
        elif k == "numset":
            p = rng.choice(["0", "1", "-1", "01", "10"]) + rng.choice(["", ".a", ".0", ".a.b"])
            o = ("set", p, gen_value(rng, 1))
        elif k == "numget":
            o = ("get", ops[-1][1].split(".")[0], rng.choice([None, (7,)]))
        elif k == "set":
            p = gen_path(rng, orc)
            kind = "any"
            if orc.closed() and p in BY_CHAIN[tuple(orc.cls)].model_fields:
                kind = field_kind(BY_CHAIN[tuple(orc.cls)], p)
            if rng.random() < 0.03:
                p = ""
            o = ("set", p, gen_value(rng, 0, kind))
        elif k == "get":
            p = gen_path(rng, orc) if rng.random() > 0.04 else ""
            o = ("get", p, rng.choice([None, None, (None,), (gen_value(rng, 2),)]))
        elif k in ("set_state", "set_sub", "set_parent"):
            ch, items = gen_incoming(rng, chain, orc.cls, force={"set_sub": "sub", "set_parent": "parent"}.get(k))
            o = ("set_state", ch, items)
        elif k == "clear":
            o = ("clear",)
        elif k == "edit":
            o = ("edit", gen_edits(rng, orc.cls, orc.d))
        elif k == "get_state":
            o = ("get_state",)
        elif k == "snap_edit":
            if orc.snap is None and rng.random() < 0.85:
                o = ("get_state",)
            else:
                o = ("snap_edit", gen_edits(rng, orc.snap[0], orc.snap[1]) if orc.snap else [("put", "a", 1)])
        else:
            o = ("snap_write",)
        if o[0] == "get_state":
            tainted = False
        elif o[0] == "set" and "." in o[1]:
            tainted = True
        orc.step(o)
        ops.append(o)
    return chain, ops


def long_path_cases():
    """Depth guard: 1000 segments are allowed, 1001 are not (get raises even with a default)."""
    p1000 = ".".join(["a"] * 1000)
    p1001 = p1000 + ".a"
    return [
        ([0], [("get", p1000, (3,)), ("get", p1001, (3,)), ("get", p1001, None), ("set", p1001, 1), ("get_state",)]),
        ([1, 2], [("get", "p1." + p1000[2:], (4,)), ("set", "p1." + p1000, 1), ("get", "p1.a", None)]),
    ]


def replay_case(scratch, chain, ops):
    """Re-run one stored case on the real stores and the oracle; returns a printable comparison."""
    env = Env(scratch)
    try:
        (om, fm, im), (osq, fs, isq) = run_both(env, chain, ops)
    finally:
        env.close()
    orc = Oracle(chain)
    oo = [orc.step(o) for o in ops]
    return dict(ops=ops, memory=om, sqlite=osq, reference=oo, memory_final=fm, sqlite_final=fs,
                reference_final=(orc.cls, orc.d), isolation_breaks=dict(memory=im, sqlite=isq))


def jsonable(x):
    if isinstance(x, dict):
        return {(k if isinstance(k, str) else repr(k)): jsonable(v) for k, v in x.items()}
    if isinstance(x, (list, tuple)):
        return [jsonable(v) for v in x]
    if x is None or isinstance(x, (bool, int, float, str)):
        return x
    return repr(x)
