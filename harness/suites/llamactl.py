"""L0 correspondence suite `llamactl`: the real ConfigManager / EnvService / AuthService of
packages/llamactl (run on a private LLAMACTL_CONFIG_DIR) vs Model/Llamactl.v.

How the real code is run: `boot.enable_cli()` registers `llama_agents.cli` as a bare package
(its __init__ imports dulwich); `_config.py`, `_migrations.py` (+ the packaged .sql files),
`schema.py`, `env_service.py`, `auth_service.py`, `utils/redact.py`, `paths.py` are the
repository's own modules, imported unchanged.  Only the two HTTP client modules that
`auth_service.py` imports at module level (`llama_agents.cli.auth.client` needs `jwt`,
`llama_agents.core.client.manage_client` needs `truststore`) are replaced by stubs: a
`PlatformAuthClient` whose `delete_api_key` records the call (and can be told to raise),
`RefreshMiddleware`/`ControlPlaneClient` names only.  No network is involved in any
operation of the property.

Operations are the service-level calls the CLI commands make (commands/env.py, commands/auth.py),
always through a fresh `EnvService.current_auth_service()` as each CLI command does.

Encoding.  Strings are taken from small sorted universes (so that SQLite's `ORDER BY name`
agrees with the order of the codes): environments URLS[0..NE), URLS[0] is the built-in
default; profile names NAMES[0..NN).  Profile ids (uuid4 in the code) are replaced by the
index of the successful creation (1, 2, ...), the same counter the model uses."""
import os
import shutil
import sys
import types

import boot  # noqa: F401
from core import CheckError, gz, glist, gbool

boot.enable_cli()

# ---- stubs for the two HTTP client modules ------------------------------------------------
CLIENT_LOG = []
CLIENT_FAIL = [False]


class _StubPlatformAuthClient:
    def __init__(self, api_url, api_key=None, auth=None):
        self.api_url, self.api_key = api_url, api_key

    async def __aenter__(self):
        return self

    async def __aexit__(self, *a):
        return False

    async def delete_api_key(self, key_id):
        CLIENT_LOG.append(("delete_api_key", self.api_url, key_id))
        if CLIENT_FAIL[0]:
            raise RuntimeError("control plane unreachable")


def _install_stubs():
    if "llama_agents.cli.auth.client" in sys.modules:
        return
    import httpx
    boot.bare("llama_agents.cli.auth", "/nonexistent")
    st = types.ModuleType("llama_agents.cli.auth.client")
    st.PlatformAuthClient = _StubPlatformAuthClient
    st.RefreshMiddleware = type("RefreshMiddleware", (), {"__init__": lambda self, *a, **k: None})
    sys.modules["llama_agents.cli.auth.client"] = st
    import llama_agents.core  # noqa: F401  (real package; its schema modules are used unchanged)
    boot.bare("llama_agents.core.client", "/nonexistent")
    mc = types.ModuleType("llama_agents.core.client.manage_client")
    mc.ControlPlaneClient = type("ControlPlaneClient", (), {})
    mc.httpx = httpx
    sys.modules["llama_agents.core.client.manage_client"] = mc


_install_stubs()

from llama_agents.cli.config import _config as CFG  # noqa: E402
from llama_agents.cli.config.auth_service import AuthService  # noqa: E402,F401
from llama_agents.cli.config.env_service import EnvService  # noqa: E402
from llama_agents.cli.config.schema import DEFAULT_ENVIRONMENT, Auth, DeviceOIDC, Environment  # noqa: E402
from llama_agents.cli.utils.redact import redact_api_key  # noqa: E402

# ---- universes ----------------------------------------------------------------------------
URLS = [DEFAULT_ENVIRONMENT.api_url, "https://b.example", "https://c.example", "https://d.example"]
# api keys: KEYS[0] = None (-> profile name "default"); the others redact to the names below.
KEYS = [None, "llx-AAzzzzzz0001", "llx-AAyyyyyyyy0001", "llx-BBzzzzzz0002", "sk-9"]
NAMES = sorted({"default", "a@x.io", "A@x.io", "b@x.io"} | {redact_api_key(k) for k in KEYS[1:]})
PROJ = ["  ", "proj-1", "proj-2", "proj-3"]          # PROJ[0] is blank: rejected by create_profile
UIDS = [None, "user-1", "user-2", "user-3"]
NE, NN = len(URLS), len(NAMES)
KEYNAME = [NAMES.index("default")] + [NAMES.index(redact_api_key(k)) for k in KEYS[1:]]
KEYIDS = [None, "kid-1", "kid-2"]

if URLS != sorted(URLS) or len(set(NAMES)) != NN or any(not n for n in NAMES):
    raise CheckError("llamactl suite: universes must be sorted/distinct/non-empty")
if redact_api_key(KEYS[1]) != redact_api_key(KEYS[2]):
    raise CheckError("llamactl suite: KEYS[1], KEYS[2] are meant to collide after redaction")

RC_NONE, RC_TRUE, RC_FALSE, RC_VALUEERROR, RC_AUTH, RC_INTEGRITY = 0, 1, 2, 3, 4, 5


def _run_coro(c):
    """Drive a coroutine that never really suspends (the stub client has no awaits that block)."""
    try:
        c.send(None)
    except StopIteration as e:
        return e.value
    c.close()
    raise CheckError("llamactl suite: coroutine suspended unexpectedly")


class World:
    """One real llamactl configuration database in its own directory."""

    def __init__(self, path):
        self.path = path
        shutil.rmtree(path, ignore_errors=True)
        os.makedirs(path)
        os.environ["LLAMACTL_CONFIG_DIR"] = path
        self.cm = CFG.ConfigManager()
        if str(self.cm.db_path) != os.path.join(path, "profiles.db"):
            raise CheckError("llamactl suite: ConfigManager ignored LLAMACTL_CONFIG_DIR")
        self.svc = EnvService(lambda: self.cm)
        self.ids = {}          # uuid -> creation index (1-based)
        self.created = 0

    # -- snapshots (used by the exhaustive exploration) --
    def snapshot(self):
        return open(self.cm.db_path, "rb").read()

    def restore(self, blob):
        for ext in ("-journal", "-wal", "-shm"):
            p = str(self.cm.db_path) + ext
            if os.path.exists(p):
                os.unlink(p)
        with open(self.cm.db_path, "wb") as f:
            f.write(blob)

    def close(self):
        shutil.rmtree(self.path, ignore_errors=True)

    def _auth(self):
        return self.svc.current_auth_service()

    def _new(self, auth):
        if auth.id not in self.ids:
            self.created += 1
            self.ids[auth.id] = self.created
        return self.ids[auth.id]

    def pid(self, uuid):
        if uuid not in self.ids:
            raise CheckError("llamactl suite: profile id %r was never returned by a create" % uuid)
        return self.ids[uuid]

    def uuid_of(self, idx):
        for u, i in self.ids.items():
            if i == idx:
                return u
        return "00000000-0000-4000-8000-%012d" % idx

    # -- operations: exactly the calls the CLI commands make --
    def apply(self, op):
        """Returns (rc, auth_index_or_0)."""
        k = op[0]
        svc = self.svc
        if k == "envadd":        # `llamactl auth env add` -> EnvService.create_or_update_environment
            svc.create_or_update_environment(Environment(api_url=URLS[op[1]], requires_auth=bool(op[2])))
            return RC_NONE, 0
        if k == "envupsert":     # EnvService.auto_update_env -> ConfigManager.create_or_update_environment
            self.cm.create_or_update_environment(URLS[op[1]], bool(op[2]), None)
            return RC_NONE, 0
        if k == "switch":
            try:
                svc.switch_environment(URLS[op[1]])
            except ValueError:
                return RC_VALUEERROR, 0
            return RC_NONE, 0
        if k == "envdel":
            return (RC_TRUE if svc.delete_environment(URLS[op[1]]) else RC_FALSE), 0
        if k == "create":        # (key, proj)
            try:
                a = self._auth().create_profile_from_token(PROJ[op[2]], KEYS[op[1]])
            except ValueError:
                return RC_VALUEERROR, 0
            return RC_AUTH, self._new(a)
        if k == "oidc":          # (uid, mail, proj)
            d = DeviceOIDC(device_name="dev", user_id=UIDS[op[1]], email=NAMES[op[2]], client_id="cid",
                           discovery_url="https://idp.example/.well-known", device_access_token="tok")
            try:
                a = self._auth().create_or_update_profile_from_oidc(PROJ[op[3]], d)
            except ValueError:
                return RC_VALUEERROR, 0
            return RC_AUTH, self._new(a)
        if k == "select":
            self._auth().set_current_profile(NAMES[op[1]])
            return RC_NONE, 0
        if k == "selany":
            self._auth().select_any_profile()
            return RC_NONE, 0
        if k == "update":        # (name, proj, key, keyid): fetch, change credentials, update_profile
            a = self._auth()
            p = a.get_profile(NAMES[op[1]])
            if p is None:
                return RC_FALSE, 0
            p.project_id = PROJ[op[2]]
            p.api_key = KEYS[op[3]]
            p.api_key_id = KEYIDS[op[4]]
            a.update_profile(p)
            return RC_TRUE, 0
        if k == "rawupdate":     # (id, name, url): AuthService.update_profile with a changed key
            a = self._auth()
            old = a.get_profile_by_id(self.uuid_of(op[1]))
            p = Auth(id=self.uuid_of(op[1]), name=NAMES[op[2]], api_url=URLS[op[3]],
                     project_id=old.project_id if old else PROJ[1],
                     api_key=old.api_key if old else None,
                     api_key_id=old.api_key_id if old else None,
                     device_oidc=old.device_oidc if old else None)
            try:
                a.update_profile(p)
            except CFG.sqlite3.IntegrityError:
                return RC_INTEGRITY, 0
            return RC_NONE, 0
        if k == "setproj":
            self._auth().set_project(NAMES[op[1]], PROJ[op[2]])
            return RC_NONE, 0
        if k == "delete":        # `llamactl auth logout`
            CLIENT_FAIL[0] = bool(op[2]) if len(op) > 2 else False
            r = _run_coro(self._auth().delete_profile(NAMES[op[1]]))
            CLIENT_FAIL[0] = False
            return (RC_TRUE if r else RC_FALSE), 0
        if k == "destroy":       # `llamactl auth destroy`
            CFG.ConfigManager(init_database=False).destroy_database()
            return RC_NONE, 0
        raise CheckError("llamactl suite: unknown op %r" % (op,))

    # -- observation through the public API --
    def current_env(self):
        return self.svc.get_current_environment().api_url

    def active(self):
        return self.svc.current_auth_service().get_current_profile()

    def env_known(self, url):
        return self.cm.get_environment(url) is not None

    def state(self):
        """Structured view of the configuration through the public API (ids = creation indices)."""
        env = self.current_env()
        nm = self.cm.get_settings_current_profile_name()
        act = self.active()
        envs = []
        for u in URLS:
            e = self.cm.get_environment(u)
            envs.append(0 if e is None else (2 if e.requires_auth else 1))
        profs = []
        for ui, u in enumerate(URLS):
            for p in self.cm.list_profiles(u):          # ORDER BY name
                if p.api_url != u or p.name not in NAMES:
                    raise CheckError("llamactl suite: unexpected profile row %r" % (p,))
                profs.append((self.pid(p.id), NAMES.index(p.name), ui, PROJ.index(p.project_id),
                              KEYS.index(p.api_key), KEYIDS.index(p.api_key_id),
                              0 if p.device_oidc is None else UIDS.index(p.device_oidc.user_id),
                              0 if p.device_oidc is None else NAMES.index(p.device_oidc.email) + 1))
        return dict(env=URLS.index(env) if env in URLS else 99,
                    cur=None if nm is None else (NAMES.index(nm) if nm in NAMES else 98),
                    active=0 if act is None else self.pid(act.id), envs=envs, profs=profs)

    def observe(self, st=None):
        """Canonical observation: list of ints, same layout as Model/Llamactl.v `obs`."""
        st = st or self.state()
        out = [st["env"], 0 if st["cur"] is None else st["cur"] + 1, st["active"]] + list(st["envs"])
        for p in st["profs"]:
            out += list(p)
        out.append(-1)
        return out


# ---- Gallina printers ---------------------------------------------------------------------
def g_op(op):
    k = op[0]
    if k == "envadd":
        return "(OEnvAdd %s %s)" % (gz(op[1]), gbool(op[2]))
    if k == "envupsert":
        return "(OEnvUpsert %s %s)" % (gz(op[1]), gbool(op[2]))
    if k == "switch":
        return "(OEnvSwitch %s)" % gz(op[1])
    if k == "envdel":
        return "(OEnvDelete %s)" % gz(op[1])
    if k == "create":
        return "(OCreateTok %s %s %s)" % (gz(KEYNAME[op[1]]), gz(op[1]), gz(op[2]))
    if k == "oidc":
        return "(OOidc %s %s %s)" % (gz(op[1]), gz(op[2]), gz(op[3]))
    if k == "select":
        return "(OSelect %s)" % gz(op[1])
    if k == "selany":
        return "OSelectAny"
    if k == "update":
        return "(OUpdate %s %s %s %s)" % (gz(op[1]), gz(op[2]), gz(op[3]), gz(op[4]))
    if k == "rawupdate":
        return "(OUpdateRaw %s %s %s)" % (gz(op[1]), gz(op[2]), gz(op[3]))
    if k == "setproj":
        return "(OSetProject %s %s)" % (gz(op[1]), gz(op[2]))
    if k == "delete":
        return "(ODelete %s)" % gz(op[1])
    if k == "destroy":
        return "ODestroy"
    raise CheckError("g_op: %r" % (op,))


HEADER = """From Coq Require Import List ZArith Bool.
Import ListNotations.
From WF Require Import Model.Llamactl.
Open Scope Z_scope.
Definition NE := %d. Definition NN := %d.
""" % (NE, NN)


HMOD = 2147483629


def zhash(full, acc=7):
    for x in full:
        acc = (acc * 1000003 + x + 17) % HMOD
    return acc


def compact(full):
    """What is sent to Coq per operation: result code, created id, current env, pointer, active id
    exactly + a 31-bit hash of the complete encoding (Model/Llamactl.v `compact`)."""
    return list(full[:5]) + [zhash(full)]


def case_expr(ops, outs):
    """Z-valued Coq term: 0 when the model's run of `ops` agrees with `outs` (one complete encoding
    per op: result code, created id, observation), else the 1-based index of the first differing op."""
    return "run_check NE NN %s %s" % (glist(g_op(o) for o in ops),
                                      glist(glist(gz(z) for z in compact(o)) for o in outs))


def trace_term(ops):
    return "run_trace NE NN init %s" % glist(g_op(o) for o in ops)


def split_trace(zs):
    out, cur = [], []
    for z in zs:
        if z == -7:
            out.append(cur)
            cur = []
        else:
            cur.append(z)
    return out


# ---- generator ----------------------------------------------------------------------------
def gen_ops(rng, n, ne=None, nn=None, raw=False):
    """A mostly-valid CLI history biased toward the property's branches: same-named profiles in
    several environments, deleting the current environment, selecting then leaving."""
    ne = ne or rng.choice([2, 2, 3, 4])
    keys = [0, 0, 1, 2, 3, 4]
    names = list(range(NN))
    hot = [KEYNAME[0], KEYNAME[1]]
    ops = []
    for _ in range(n):
        r = rng.random()
        if raw and rng.random() < 0.12:
            # AuthService.update_profile with another name / URL for an existing id (a rename, possibly to a name that
            # is the active profile's name in another environment)
            ops.append(("rawupdate", rng.randrange(1, 5), rng.choice(names), rng.randrange(ne)))
            continue
        if r < 0.12:
            ops.append(("envadd", rng.randrange(ne), rng.random() < 0.5))
        elif r < 0.22:
            ops.append(("switch", rng.randrange(ne)))
        elif r < 0.34:
            ops.append(("envdel", rng.randrange(ne)))
        elif r < 0.56:
            ops.append(("create", rng.choice(keys), rng.choice([1, 1, 1, 2, 3, 0])))
        elif r < 0.64:
            ops.append(("oidc", rng.randrange(1, len(UIDS)), rng.choice(names), rng.choice([1, 1, 2, 0])))
        elif r < 0.74:
            ops.append(("select", rng.choice(hot + names)))
        elif r < 0.79:
            ops.append(("selany",))
        elif r < 0.85:
            ops.append(("update", rng.choice(hot + names), rng.randrange(1, 4), rng.randrange(len(KEYS)),
                        rng.randrange(len(KEYIDS))))
        elif r < 0.88:
            ops.append(("setproj", rng.choice(hot + names), rng.randrange(1, 4)))
        elif r < 0.96:
            ops.append(("delete", rng.choice(hot + names), rng.random() < 0.3))
        elif r < 0.98:
            ops.append(("envupsert", rng.randrange(ne), rng.random() < 0.5))
        elif r < 0.99 or not raw:
            ops.append(("destroy",))
        else:
            ops.append(("rawupdate", rng.randrange(1, 5), rng.choice(names), rng.randrange(ne)))
    return ops


def gen_scenario(rng, n):
    """Histories built around the situations the property is about: the same profile name in two
    environments, the pointer set in one of them, then an environment operation (delete the current
    one / switch / add) that makes the other one current — embedded in random noise."""
    ne = rng.choice([2, 3, 4])
    a, b = rng.sample(range(ne), 2)
    if rng.random() < 0.6:
        a = 0                                      # the default environment is where deletes land
        b = rng.randrange(1, ne)
    key = rng.choice([0, 0, 1, 3])
    name = KEYNAME[key]
    mk = lambda: rng.choice([("create", key, 1), ("oidc", rng.randrange(1, 4), name, 1)])  # noqa: E731
    enter = lambda e: rng.choice([("envadd", e, rng.random() < 0.5), ("envadd", e, False), ("switch", e)])  # noqa: E731
    core_ops = [("envadd", a, True), mk(), ("envadd", b, False), mk()]
    if rng.random() < 0.4:
        core_ops.append(rng.choice([("select", name), ("selany",), ("update", name, 2, key, 1)]))
    core_ops.append(rng.choice([("envdel", b), ("envdel", b), enter(a), ("switch", a)]))
    if rng.random() < 0.5:
        core_ops += [rng.choice([("selany",), ("select", name), ("delete", name, False), mk()]), enter(b)]
    noise = gen_ops(rng, max(0, n - len(core_ops)), ne=ne)
    out = []
    for op in core_ops:                             # keep the core in order, sprinkle noise between
        while noise and rng.random() < 0.25:
            out.append(noise.pop())
        out.append(op)
    return out + noise


def gen_rename_scenario(rng, n):
    """The same profile name in two environments, another name beside it in the first one, the first one's profile
    selected - then the OTHER environment's same-named profile is renamed (AuthService.update_profile) to that other
    name.  The active profile of the current environment must not move.  No noise before the core (creation indices)."""
    ne = rng.choice([2, 3, 4])
    a, b = rng.sample(range(ne), 2)
    k1, k2 = rng.sample([0, 1, 3], 2)
    core_ops = [("envadd", a, True), ("create", k2, 1), ("create", k1, 1), ("envadd", b, True), ("create", k1, 1),
                ("switch", a), ("select", KEYNAME[k1]), ("rawupdate", 3, KEYNAME[k2], b)]
    return core_ops + gen_ops(rng, max(0, n - len(core_ops)), ne=ne)


# ---- the property, evaluated on the real code ---------------------------------------------
class Monitor:
    """C37 as stated: after every operation the current environment is a known environment or
    the built-in default, and the active profile is none or a profile of the current environment
    that was selected or created while that environment was (continuously) current.

    Everything it looks at is read through the public API (`World.state()`: EnvService.
    get_current_environment, ConfigManager.get_environment / list_profiles, AuthService.
    get_current_profile / get_profile / list_profiles; create_* return values)."""

    def __init__(self, world, st=None):
        self.w = world
        self.env = (st or world.state())["env"]
        self.picked = set()        # creation indices selected/created since self.env became current

    def before(self, op):
        """What the user picks with this operation, determined before it runs (selection ops)."""
        w = self.w
        self._pre = None
        if op[0] == "select":
            # the profile of the current environment with EXACTLY that name (read from the listing, not through the
            # lookup whose result is the thing under test)
            a_ = w.svc.current_auth_service()
            try:
                p = next((q for q in a_.list_profiles() if q.name == NAMES[op[1]]), None)
            except Exception:  # noqa: BLE001
                p = a_.get_profile(NAMES[op[1]])
            self._pre = w.pid(p.id) if p else None
        elif op[0] == "selany":
            # "select any profile": the user names no profile; whichever profile of the current
            # environment the operation activates is the selection (decided in `after`)
            self._pre = None

    def after(self, op, rc, created_idx, st):
        """Returns None or (key, description)."""
        env = st["env"]
        if env != self.env:
            self.env = env
            self.picked = set()
        if op[0] == "select" and self._pre is not None:
            self.picked.add(self._pre)
        if op[0] == "selany" and st["active"]:
            self.picked.add(st["active"])
        if created_idx:
            self.picked.add(created_idx)
        known = env < NE and st["envs"][env] != 0
        if not (known or env == 0):
            return ("C37/current-env-unknown",
                    "the current environment (%s) is neither a known environment nor the default"
                    % (URLS[env] if env < NE else "<outside the universe>"))
        if st["active"]:
            row = [p for p in st["profs"] if p[0] == st["active"]]
            if not row or row[0][2] != env:
                return ("C37/active-profile-of-other-env",
                        "the active profile (id %d) is not a profile of the current environment %s"
                        % (st["active"], URLS[env]))
            if op[0] == "select" and row[0][1] != op[1]:
                return ("C37/selected-name-activates-another-profile",
                        "the user selected profile %r of %s; the active profile is %r - one the user did not pick"
                        % (NAMES[op[1]], URLS[env], NAMES[row[0][1]]))
            if st["active"] not in self.picked:
                how = {"envdel": "after-env-delete", "switch": "after-env-switch",
                       "envadd": "after-env-add"}.get(op[0], "after-" + op[0])
                return ("C37/unpicked-profile-active-" + how,
                        "profile %r of %s is active but was neither selected nor created since that "
                        "environment became current" % (NAMES[row[0][1]], URLS[env]))
        return None


def clear_matters(world, op):
    """Is this an environment operation at which the stale NAME in `current_profile` would resolve
    to a profile of the environment that becomes current (the situations the three clearing
    statements exist for)?  Returns a coverage label or None.  Evaluated before the op runs."""
    k = op[0]
    if k not in ("envdel", "switch", "envadd"):
        return None
    nm = world.cm.get_settings_current_profile_name()
    if nm is None:
        return None
    cur = world.current_env()
    if k == "envdel":
        if URLS[op[1]] != cur or not world.env_known(cur) or cur == DEFAULT_ENVIRONMENT.api_url:
            return None
        target = DEFAULT_ENVIRONMENT.api_url
    else:
        target = URLS[op[1]]
        if k == "switch" and not world.env_known(target):
            return None
        if target == cur:
            return None
    return ("stale_name_at_" + k) if world.cm.get_profile(nm, target) is not None else None


def run_history(world, ops, monitor=True):
    """Apply ops to a fresh world; returns (outs, failure, cov) where failure = (index, key, text)."""
    mon = Monitor(world) if monitor else None
    outs, fail, cov = [], None, {}

    def hit(k):
        cov[k] = cov.get(k, 0) + 1
    for i, op in enumerate(ops):
        lab = clear_matters(world, op)
        if lab:
            hit(lab)
        if mon:
            mon.before(op)
        if op[0] == "switch" and not world.env_known(URLS[op[1]]):
            hit("switch_to_unknown_env")
        if op[0] == "create" and (op[2] == 0 or world.cm.get_profile(NAMES[KEYNAME[op[1]]], world.current_env())):
            hit("create_duplicate_or_blank")
        if op[0] == "select" and not world.cm.get_profile(NAMES[op[1]], world.current_env()):
            hit("select_missing_name")
        rc, aid = world.apply(op)
        st = world.state()
        outs.append([rc, aid] + world.observe(st))
        hit("op_" + op[0])
        if st["active"]:
            hit("active_some")
        if st["cur"] is not None and not st["active"]:
            hit("dangling_pointer")
        names = {}
        for p in st["profs"]:
            names.setdefault(p[1], set()).add(p[2])
        if any(len(v) > 1 for v in names.values()):
            hit("same_name_in_two_envs")
        if mon and fail is None:
            f = mon.after(op, rc, aid, st)
            if f:
                fail = (i, f[0], f[1])
    return outs, fail, cov


# ---- parallel execution of histories (each worker process owns one directory) ---------------
def _work(args):
    base, chunk = args
    path = os.path.join(base, "w%d" % os.getpid())
    res = []
    for ops in chunk:
        w = World(path)
        try:
            res.append(run_history(w, ops))
        finally:
            w.close()
    return res


def run_histories(base, histories, procs=8):
    """Run the real code on every history; returns the list of (outs, fail, cov) in order."""
    import multiprocessing as mp
    from concurrent.futures import ProcessPoolExecutor
    if not histories:
        return []
    n = max(1, min(procs, len(histories) // 8 or 1))
    size = (len(histories) + n * 4 - 1) // (n * 4)
    chunks = [histories[i:i + size] for i in range(0, len(histories), size)]
    if n == 1:
        parts = [_work((base, c)) for c in chunks]
    else:
        with ProcessPoolExecutor(max_workers=n, mp_context=mp.get_context("fork")) as ex:
            parts = list(ex.map(_work, [(base, c) for c in chunks]))
    return [r for p in parts for r in p]


# ---- exhaustive exploration of a small scope ------------------------------------------------
def small_alphabet():
    """2 environments x 2 names: every CLI operation over them."""
    n0, n1 = KEYNAME[0], KEYNAME[1]
    return [("envadd", 0, True), ("envadd", 1, False), ("switch", 0), ("switch", 1),
            ("envdel", 0), ("envdel", 1),
            ("create", 0, 1), ("create", 1, 1), ("oidc", 1, n0, 1),
            ("select", n0), ("select", n1), ("selany",),
            ("update", n0, 2, 0, 1), ("delete", n0), ("delete", n1), ("destroy",)]


def g_state(st, nxt):
    """Gallina literal of a model state equal to the structured implementation state."""
    envs = glist("(%s, %s)" % (gz(u), gbool(f == 2)) for u, f in enumerate(st["envs"]) if f)
    profs = glist("(mkP %s)" % " ".join(gz(x if i != 7 else max(x - 1, 0)) for i, x in enumerate(p))
                  for p in st["profs"])
    cur = "None" if st["cur"] is None else "(Some %s)" % gz(st["cur"])
    return "(mkS %s %s %s %s %s)" % (envs, profs, gz(st["env"]), cur, gz(nxt))


def explore(base, depth, alphabet=None):
    """Breadth-first over ALL histories of at most `depth` operations from the alphabet, on the real
    code, sharing equal states (two histories that lead to the same database contents up to the
    renaming of profile ids, with the same set of picked profiles, have the same futures).
    Returns (edges, failures, stats); an edge is (state_literal, op, expected_out)."""
    alphabet = alphabet or small_alphabet()
    w = World(os.path.join(base, "explore"))
    mon = Monitor(w)          # mon.picked holds LOCAL profile indices of the node being expanded

    def canon(st, picked_idx):
        order = sorted(p[0] for p in st["profs"])
        ren = {old: i + 1 for i, old in enumerate(order)}
        profs = tuple(sorted((ren[p[0]],) + tuple(p[1:]) for p in st["profs"]))
        key = (st["env"], st["cur"], ren.get(st["active"], 0), tuple(st["envs"]), profs,
               frozenset(ren[i] for i in picked_idx if i in ren))
        return key, ren

    st0 = w.state()
    key0, _ = canon(st0, set())
    # node: (snapshot, {uuid: idx}, picked indices, monitor env, structured state, path)
    frontier = [(w.snapshot(), {}, set(), st0["env"], st0, [])]
    seen = {key0}
    edges, failures = [], []
    stats = dict(nodes=1, transitions=0, per_depth=[])
    for d in range(depth):
        nxt_frontier = []
        for snap, ids, picked, menv, st, path in frontier:
            k = len(ids)
            lit = g_state(st, k + 1)
            for op in alphabet:
                w.restore(snap)
                w.ids = dict(ids)
                w.created = k
                mon.env, mon.picked = menv, set(picked)
                mon.before(op)
                rc, aid = w.apply(op)
                st2 = w.state()
                out = [rc, aid] + w.observe(st2)
                f = mon.after(op, rc, aid, st2)
                stats["transitions"] += 1
                edges.append((lit, op, out))
                if f:
                    failures.append((path + [op], f[0], f[1]))
                    continue
                key, ren = canon(st2, mon.picked)
                if key in seen:
                    continue
                seen.add(key)
                # renumber ids compactly for the successor node
                live = {u: ren[i] for u, i in w.ids.items() if i in ren}
                st3 = dict(st2, active=ren.get(st2["active"], 0),
                           profs=sorted((ren[p[0]],) + tuple(p[1:]) for p in st2["profs"]))
                st3["profs"].sort(key=lambda p: (p[2], p[1]))
                nxt_frontier.append((w.snapshot(), live, {ren[i] for i in mon.picked if i in ren}, mon.env,
                                     st3, path + [op]))
        stats["per_depth"].append(len(nxt_frontier))
        stats["nodes"] += len(nxt_frontier)
        frontier = nxt_frontier
        if not frontier:
            break
    stats["closed"] = not frontier
    w.close()
    return edges, failures, stats


def edge_expr(lit, op, out):
    return "edge_check NE NN %s %s %s" % (lit, g_op(op), glist(gz(z) for z in compact(out)))


def edge_trace_term(lit, op):
    return "edge_trace NE NN %s %s" % (lit, g_op(op))
