"""Correspondence suite `runlimit` (C30): Model/RunLimit.v vs the real code.

Part A  `sem`  — the trusted primitive: the real `asyncio.Semaphore` (CPython, unmodified object) is
  driven by worker tasks under the virtual loop with generated start / cancel / release / yield
  scripts (including cancellation of a waiter that already owns the hand-off, releases while nobody is
  scheduled yet, permits released before the waiter queued).  Every atomic segment is logged in the
  order the event loop really ran it; that order *is* the schedule the model is folded over, and
  after each segment `_value` and the `_waiters` deque (owner, future state) are compared inside Coq.

Part B  `runs` — real `Workflow` instances (`num_concurrent_runs` 1..4 or None) on one real
  `BasicRuntime`; many overlapping `run()` calls on two/three instances (two of the same class);
  step bodies block on gates the driver opens; runs end by result, step failure, graceful cancel,
  hard cancel (task.cancel) and workflow timeout.  `asyncio.Semaphore` is replaced *in the asyncio
  namespace only* by a subclass that adds logging around the inherited acquire()/release() — the
  semaphore the runtime creates is otherwise the real one.  The merged log (driver actions, semaphore
  segments, step entry/exit) is the model schedule; compared after every segment: the instance's
  semaphore; at quiescent points: the weak dictionary entry; at the end: every run's state.
  The C30 monitors are evaluated on the step entry/exit log alone (independent of the model)."""
import asyncio
import gc
import random
import warnings

import boot  # noqa: F401
import vloop
from core import gz, glist, gzlist

HEADER = """From Coq Require Import List ZArith Bool.
Import ListNotations.
From WF Require Import Base.SchedRes Model.RunLimit.
Open Scope Z_scope.
"""


# ---------------------------------------------------------------------------------------------
# Coq printers

def g_act(a):
    k = a[0]
    if k == "nop":
        return "ANop"
    names = dict(start="AStart", run="ARun", enter="AEnter", exit="AExit", finish="AFinish",
                 cancel="ACancel", gc="AGc")
    return "(%s %s)" % (names[k], " ".join(gz(x) for x in a[1:]))


def g_expect(e):
    if e is None:
        return "XNone"
    kind, w, l = e
    return "(%s %s %s)" % ("XSem" if kind == "sem" else "XDict", gz(w), gzlist(l))


def g_case(lims, trace, final):
    gl = glist("(%s, %s)" % (gz(w), "None" if n is None else "Some %s" % gz(n)) for w, n in lims)
    gt = glist("(%s, %s)" % (g_act(a), g_expect(e)) for a, e in trace)
    gf = glist("(%s, %s)" % (gz(r), gzlist(l)) for r, l in final)
    return "check_case %s %s %s" % (gl, gt, gf)


def g_dump(lims, trace, ws, rs):
    gl = glist("(%s, %s)" % (gz(w), "None" if n is None else "Some %s" % gz(n)) for w, n in lims)
    gt = glist("(%s, %s)" % (g_act(a), g_expect(e)) for a, e in trace)
    return "dump_case %s %s %s %s" % (gl, gt, gzlist(ws), gzlist(rs))


def fut_code(f):
    return 2 if f.cancelled() else (1 if f.done() else 0)


def snap_sem(sem, owner_of):
    """[_value, len(_waiters), owner0, state0, owner1, state1, ...]"""
    ws = list(sem._waiters or ())
    out = [sem._value, len(ws)]
    for f in ws:
        out += [owner_of(f), fut_code(f)]
    return out


# ---------------------------------------------------------------------------------------------
# Part A: asyncio.Semaphore itself

def run_sem_script(sc=None, rng=None):
    """Execute a script on a real asyncio.Semaphore (sc given: replay; else generate it online,
    choosing each next op from the *observed* state so that the interesting windows are reached).
    Returns (script, trace, final, stats)."""
    log = []           # (kind, i, snapshot|None)
    tasks, gates, status = {}, {}, {}
    box = {}
    if sc is None:
        n = rng.choice([0, 1, 1, 2, 2, 2, 3, 3])
        sc = dict(n=n, ops=[])
        online = True
        kmax = rng.randint(2, 8)
        nops = rng.randint(6, 30)
    else:
        online = False

    def owner_of(f):
        for i, t in tasks.items():
            if getattr(t, "_fut_waiter", None) is f:
                return i
        return -99

    def snap():
        return snap_sem(box["sem"], owner_of)

    async def worker(i):
        sem = box["sem"]
        status[i] = "running"
        if sem._value > 0 and sem.locked():
            box["queued_with_free_permit"] = box.get("queued_with_free_permit", 0) + 1
        log.append(("run", i, None))
        try:
            await sem.acquire()
        except asyncio.CancelledError:
            status[i] = "done"
            log.append(("acq-cancelled", i, snap()))
            raise
        status[i] = "holding"
        log.append(("got", i, snap()))
        try:
            await gates[i].wait()
        finally:
            sem.release()
            status[i] = "done"
            log.append(("rel", i, snap()))

    def choose():
        """next op(s) given what can be seen now"""
        sem = box["sem"]
        holders = [i for i, s_ in status.items() if s_ == "holding"]
        ws = [(owner_of(f), fut_code(f)) for f in (sem._waiters or ())]
        pend = [i for i, c in ws if c == 0]
        woken = [i for i, c in ws if c == 1]
        x = rng.random()
        nstarted = len(tasks)
        if nstarted == 0 or (x < 0.22 and nstarted < kmax) or (x < 0.6 and nstarted < min(kmax, sc["n"] + 2)):
            return [("start", nstarted)] + ([("tick",)] if rng.random() < 0.7 else [])
        if x < 0.30 and holders and pend:
            # hand-off then cancel the waiter that owns the permit but has not resumed yet
            return [("open", rng.choice(holders)), ("tick",), ("cancel", pend[0])]
        if x < 0.42 and len(holders) >= 2 and pend and nstarted < kmax + 2:
            # two releases and a newcomer in one loop iteration: free permit + pending waiter
            h1, h2 = rng.sample(holders, 2)
            return [("open", h1), ("open", h2), ("start", nstarted), ("tick",)]
        if x < 0.44 and woken:
            return [("cancel", rng.choice(woken))]
        if x < 0.58 and holders:
            return [("open", rng.choice(holders))]
        if x < 0.66 and pend:
            return [("cancel", rng.choice(pend))]
        if x < 0.72 and nstarted:
            return [(rng.choice(["open", "cancel"]), rng.randrange(nstarted))]
        if x < 0.88:
            return [("tick",)]
        return [("settle",)]

    async def do(op):
        if op[0] == "start":
            i = op[1]
            gates[i] = asyncio.Event()
            status[i] = "created"
            tasks[i] = asyncio.ensure_future(worker(i))
            log.append(("start", i, snap()))
        elif op[0] == "open":
            if op[1] in gates:
                gates[op[1]].set()
        elif op[0] == "cancel":
            t = tasks.get(op[1])
            if t is not None and not t.done():
                t.cancel()
                log.append(("cancel", op[1], snap()))
        elif op[0] == "tick":
            await asyncio.sleep(0)
        else:
            await vloop.settle()

    async def main():
        box["sem"] = asyncio.Semaphore(sc["n"])
        if online:
            while len(sc["ops"]) < nops:
                for op in choose():
                    sc["ops"].append(op)
                    await do(op)
        else:
            for op in sc["ops"]:
                await do(tuple(op))
        await vloop.settle()
        log.append(("end", -1, snap()))
        box["n_end"] = len(log)
        final = {}
        for i in tasks:
            st = status[i]
            if st == "created" and tasks[i].done():
                st = "never-ran"
            final[i] = st
        return final

    final = vloop.run(main())
    del log[box["n_end"]:]        # segments run by the loop teardown are not part of the case
    trace = []
    stats = dict(fast=0, blocked=0, woken_cancelled=0, pending_cancelled=0, barging_window=0,
                 never_ran=0, chain_wake=0, queued_with_free_permit=box.get("queued_with_free_permit", 0))
    j = 0
    while j < len(log):
        kind, i, sn = log[j]
        if kind == "start":
            trace.append((("start", i, 0), ("sem", 0, sn)))
        elif kind == "cancel":
            trace.append((("cancel", i), ("sem", 0, sn)))
        elif kind == "run":
            if j + 1 < len(log) and log[j + 1][0] == "got" and log[j + 1][1] == i:
                trace.append((("run", i), ("sem", 0, log[j + 1][2])))
                stats["fast"] += 1
                j += 1
                if j + 1 < len(log) and log[j + 1][0] == "rel" and log[j + 1][1] == i:
                    pass
            else:
                trace.append((("run", i), None))
                stats["blocked"] += 1
        elif kind == "got":
            trace.append((("run", i), ("sem", 0, sn)))
        elif kind == "acq-cancelled":
            trace.append((("run", i), ("sem", 0, sn)))
        elif kind == "rel":
            trace.append((("finish", i), ("sem", 0, sn)))
        elif kind == "end":
            trace.append((("nop",), ("sem", 0, sn)))
        j += 1
    fin = []
    for i, stt in sorted(final.items()):
        if stt == "never-ran":
            trace.append((("run", i), None))
            stats["never_ran"] += 1
            fin.append((i, [0, 3, 0]))
        else:
            fin.append((i, [0] + {"created": [0, 0], "running": [1, 0], "holding": [2, 0], "done": [3, 0]}[stt]))
    # coverage facts read off the observed log
    for kind, i, sn in log:
        if sn is None:
            continue
        states = sn[3::2]
        if kind == "cancel" and 1 in states:
            pass
        if sn[0] > 0 and 0 in states:
            stats["barging_window"] += 1      # a free permit while a waiter is still pending
    for a, (kind, i, sn) in enumerate(log):
        if kind == "acq-cancelled":
            # was its future woken (hand-off then cancel) or cancelled while pending?
            prev = [l for l in log[:a] if l[0] == "cancel" and l[1] == i]
            if prev and prev[-1][2] is not None:
                s2 = prev[-1][2]
                owners, sts = s2[2::2], s2[3::2]
                if i in owners and sts[owners.index(i)] == 1:
                    stats["woken_cancelled"] += 1
                else:
                    stats["pending_cancelled"] += 1
        if kind == "got" and a > 0 and log[a - 1][0] != "run" and sn is not None and 1 in sn[3::2]:
            stats["chain_wake"] += 1
    return sc, trace, fin, stats


def sem_case(rng, sc=None):
    sc, trace, fin, stats = run_sem_script(sc, rng)
    lims = [(0, sc["n"])]
    expr = g_case(lims, trace, fin)
    key = ("sem", sc["n"], tuple(a[0][0] + str(a[0][1] if len(a[0]) > 1 else "") for a in trace))
    return expr, dict(kind="sem", script=sc, lims=lims, trace=trace, final=fin), key, stats


# ---------------------------------------------------------------------------------------------
# Part B: real workflows on a real BasicRuntime

class Rec:
    def __init__(self):
        self.log = []        # merged log, real order
        self.tasks = {}      # rid(int) -> run task
        self.wf_of = {}      # rid -> w
        self.gates = {}      # (rid, step, k) -> Event
        self.waiting = []    # gate keys
        self.instances = {}  # w -> workflow object
        self.rt = None
        self.active = {}     # rid -> number of step bodies executing

    def rid(self):
        from workflows.plugins.basic import get_current_run_id
        s = get_current_run_id()
        return int(s[1:]) if s and s.startswith("r") else -1

    def owner_of(self, f):
        for r, t in self.tasks.items():
            if getattr(t, "_fut_waiter", None) is f:
                return r
        return -99

    def w_of_sem(self, sem):
        for w, wf in self.instances.items():
            if self.rt._max_concurrent_runs.get(id(wf)) is sem:
                return w
        return -1


def make_logsem(rec):
    class LogSemaphore(asyncio.Semaphore):
        """asyncio.Semaphore with logging around the inherited methods (no behaviour of its own)."""

        async def acquire(self):
            r = rec.rid()
            rec.log.append(("acq", r, rec.w_of_sem(self), None))
            try:
                res = await super().acquire()
            except asyncio.CancelledError:
                rec.log.append(("acq-cancelled", r, rec.w_of_sem(self), snap_sem(self, rec.owner_of)))
                raise
            rec.log.append(("got", r, rec.w_of_sem(self), snap_sem(self, rec.owner_of)))
            return res

        def release(self):
            r = rec.rid()
            super().release()
            rec.log.append(("rel", r, rec.w_of_sem(self), snap_sem(self, rec.owner_of)))

    return LogSemaphore


TEMPLATES = ["one", "seq", "fan"]


def build_instances(spec, rec):
    """spec['instances']: list of dict(w, cls, limit, timeout, template)."""
    import typing
    from workflows import Context, Workflow, step
    from workflows.events import Event, StartEvent, StopEvent
    from workflows.plugins.basic import BasicRuntime

    class Mid(Event):
        pass

    class Fan(Event):
        pass

    rec.rt = BasicRuntime()
    rec.slow_unwind = spec.get("slow_unwind", 0)

    def body_factory(stepname):
        async def body(self, ctx: Context, ev):
            r = rec.rid()
            rec.active[r] = rec.active.get(r, 0) + 1
            rec.log.append(("enter", r, rec.wf_of.get(r, -1), stepname))
            try:
                mode = ev.get("mode", "ok") if isinstance(ev, StartEvent) else getattr(ev, "mode", "ok")
                key = (r, stepname, ev.get("k", 0) if not isinstance(ev, StartEvent) else 0)
                g = asyncio.Event()
                rec.gates[key] = g
                rec.waiting.append(key)
                try:
                    await g.wait()
                except asyncio.CancelledError:
                    # a body that is slow to unwind: it keeps executing (clean-up awaits) for a while after it was cancelled
                    for _ in range(getattr(rec, "slow_unwind", 0)):
                        await asyncio.sleep(0)
                    raise
                finally:
                    if key in rec.waiting:
                        rec.waiting.remove(key)
                if mode == "fail" and stepname in ("s1", "only", "b"):
                    raise ValueError("boom")
                return stepname
            finally:
                rec.active[r] -= 1
                rec.log.append(("exit", r, rec.wf_of.get(r, -1), stepname))
        return body

    classes = {}

    def cls_one():
        b = body_factory("only")

        class One(Workflow):
            @step
            async def only(self, ctx: Context, ev: StartEvent) -> StopEvent:
                await b(self, ctx, ev)
                return StopEvent(result="one")
        return One

    def cls_seq():
        b1, b2 = body_factory("s1"), body_factory("s2")

        class Seq(Workflow):
            @step
            async def s1(self, ctx: Context, ev: StartEvent) -> Mid:
                await b1(self, ctx, ev)
                return Mid(mode=ev.get("mode", "ok"))

            @step
            async def s2(self, ctx: Context, ev: Mid) -> StopEvent:
                await b2(self, ctx, ev)
                return StopEvent(result="seq")
        return Seq

    def cls_fan():
        bb = body_factory("b")

        class FanWF(Workflow):
            @step
            async def a(self, ctx: Context, ev: StartEvent) -> typing.Optional[Fan]:
                ctx.send_event(Fan(k=1, mode=ev.get("mode", "ok")))
                ctx.send_event(Fan(k=2, mode="ok"))
                return None

            @step(num_workers=2)
            async def b(self, ctx: Context, ev: Fan) -> StopEvent:
                await bb(self, ctx, ev)
                return StopEvent(result="fan")
        return FanWF

    makers = dict(one=cls_one, seq=cls_seq, fan=cls_fan)
    for ins in spec["instances"]:
        ck = (ins["template"], ins["cls"])
        if ck not in classes:
            classes[ck] = makers[ins["template"]]()
        wf = classes[ck](timeout=ins.get("timeout"), num_concurrent_runs=ins["limit"], runtime=rec.rt)
        rec.instances[ins["w"]] = wf


def gen_run_spec(rng, big=False):
    ninst = rng.choice([1, 2, 2, 2, 3])
    insts = []
    same_cls = rng.random() < 0.6
    tpl0 = rng.choice(TEMPLATES)
    for w in range(ninst):
        tpl = tpl0 if (same_cls and w < 2) else rng.choice(TEMPLATES)
        cls = 0 if (same_cls and w < 2) else w + 1
        limit = rng.choice([1, 1, 2, 2, 3, 4]) if (w < 2 or rng.random() < 0.5) else None
        timeout = 50.0 if rng.random() < 0.25 else None
        insts.append(dict(w=w, cls=cls, limit=limit, timeout=timeout, template=tpl))
    nruns = rng.randint(3, 14 if big else 9)
    ops = []
    started = []
    nops = rng.randint(8, 40 if big else 24)
    for _ in range(nops):
        x = rng.random()
        if (x < 0.38 and len(started) < nruns) or not started:
            r = len(started) + 1
            w = rng.randrange(ninst)
            burst = 1 if rng.random() < 0.6 else rng.randint(2, 4)
            for _b in range(burst):
                if len(started) >= nruns:
                    break
                r = len(started) + 1
                started.append(r)
                ops.append(("start", r, w, rng.choice(["ok", "ok", "ok", "fail"])))
                if rng.random() < 0.3:
                    w = rng.randrange(ninst)
        elif x < 0.66:
            ops.append(("open", rng.random()))         # open one of the currently awaited gates
        elif x < 0.74:
            ops.append(("hard-cancel", rng.choice(started)))
        elif x < 0.80:
            ops.append(("soft-cancel", rng.choice(started)))
        elif x < 0.84:
            ops.append(("advance", 100.0))
        elif x < 0.92:
            ops.append(("tick",))
        else:
            ops.append(("settle",))
        if rng.random() < 0.55:
            ops.append(("settle",))
    out = dict(instances=insts, ops=ops)
    if rng.random() < 0.4:
        out["slow_unwind"] = rng.choice([3, 10, 25])     # cancelled step bodies keep running for that many loop turns
    return out


def run_spec(spec, only_w=None):
    """Execute on the real engine. Returns dict(log, trace, final, lims, stats, drained...)."""
    rec = Rec()
    orig = asyncio.Semaphore
    handlers = {}
    cancelled_by_driver = set()
    quiescent = []       # indices into rec.log after which the system was quiescent
    opened = []          # the gate key each 'open' op really opened (None: nothing was awaited)
    box = {}

    def dict_snap(w):
        wf = rec.instances[w]
        sem = rec.rt._max_concurrent_runs.get(id(wf))
        if sem is None:
            return [-1]
        return snap_sem(sem, rec.owner_of)

    def mark_quiescent():
        pass
        for w in rec.instances:
            rec.log.append(("dict", -1, w, dict_snap(w)))
        quiescent.append(len(rec.log))

    async def main():
        build_instances(spec, rec)
        asyncio.Semaphore = make_logsem(rec)
        loop = asyncio.get_running_loop()
        for op in spec["ops"]:
            k = op[0]
            if k == "start":
                _, r, w, mode = op
                if only_w is not None and w != only_w:
                    continue
                wf = rec.instances[w]
                rec.wf_of[r] = w
                h = wf.run(run_id="r%d" % r, mode=mode)
                handlers[r] = h
                rec.tasks[r] = rec.rt._queues["r%d" % r].complete
                rec.log.append(("start", r, w, None))
            elif k == "open":
                if rec.waiting:
                    key = rec.waiting[int(op[1] * len(rec.waiting)) % len(rec.waiting)]
                    opened.append(key)
                    rec.gates[key].set()
                    rec.log.append(("open", key[0], rec.wf_of.get(key[0], -1), key[1]))
                else:
                    opened.append(None)
            elif k == "open-key":
                key = tuple(op[1])
                if key in rec.gates and key in rec.waiting:
                    rec.gates[key].set()
                    rec.log.append(("open", key[0], rec.wf_of.get(key[0], -1), key[1]))
            elif k == "hard-cancel":
                r = op[1]
                t = rec.tasks.get(r)
                if t is not None and not t.done():
                    cancelled_by_driver.add(r)
                    with warnings.catch_warnings():
                        warnings.simplefilter("ignore")
                        handlers[r].cancel()
                    rec.log.append(("cancel", r, rec.wf_of[r], dict_snap(rec.wf_of[r])))
            elif k == "soft-cancel":
                r = op[1]
                t = rec.tasks.get(r)
                if t is not None and not t.done():
                    cancelled_by_driver.add(r)
                    asyncio.ensure_future(handlers[r].cancel_run())
                    rec.log.append(("soft-cancel", r, rec.wf_of[r], None))
            elif k == "advance":
                loop.advance(op[1])
                await vloop.settle()
                mark_quiescent()
            elif k == "tick":
                await asyncio.sleep(0)
            else:
                await vloop.settle()
                mark_quiescent()
        await vloop.settle()
        mark_quiescent()
        body_end = len(rec.log)
        # drain: keep opening gates until nothing is awaited any more
        for _ in range(400):
            if not rec.waiting:
                break
            key = rec.waiting[0]
            rec.gates[key].set()
            await vloop.settle()
        await vloop.settle()
        mark_quiescent()
        res = {}
        for r, h in handlers.items():
            t = rec.tasks[r]
            if not t.done():
                res[r] = "pending"
            elif t.cancelled():
                res[r] = "cancelled"
            elif t.exception() is not None:
                res[r] = type(t.exception()).__name__
            else:
                res[r] = "ok"
        box["n_end"] = len(rec.log)
        return body_end, res

    try:
        with warnings.catch_warnings():
            warnings.simplefilter("ignore")
            body_end, res = vloop.run(main(), auto=False)
    finally:
        asyncio.Semaphore = orig
    return dict(rec=rec, log=list(rec.log[:box["n_end"]]), body_end=body_end, results=res, quiescent=quiescent,
                cancelled=cancelled_by_driver, opened=opened, wf_of=dict(rec.wf_of),
                lims=[(i["w"], i["limit"]) for i in spec["instances"]])


def trace_of(obs):
    """Translate the merged implementation log into the model schedule + expectations."""
    log = list(obs["log"])
    lims = dict(obs["lims"])
    # A waiting run can also be hard-cancelled from inside the loop (handler.cancel_run() gives up
    # after its timeout and cancels the result task, which cancels the run task).  That Task.cancel()
    # is not a driver action; place it where the log first shows its effect.
    j = 0
    last_acq, cancel_seen = {}, set()
    while j < len(log):
        kind, r, w, x = log[j]
        if kind == "acq":
            last_acq[r] = j
        elif kind == "cancel":
            cancel_seen.add(r)
        elif kind == "acq-cancelled" and r not in cancel_seen:
            at = j
            for i in range(last_acq.get(r, j) + 1, j):
                sn = log[i][3]
                if isinstance(sn, list) and log[i][2] == w and len(sn) >= 2:
                    owners, sts = sn[2::2], sn[3::2]
                    if r in owners and sts[owners.index(r)] == 2:
                        at = i
                        break
            log.insert(at, ("cancel", r, w, None))
            cancel_seen.add(r)
            j += 1
        j += 1
    trace = []
    state = {}           # rid -> created|waiting|holding|done (harness-side bookkeeping of what was SEEN)
    stats = dict(fast=0, blocked=0, acq_cancelled=0, releases=0, gc_absent=0, gc_present=0,
                 unlimited_runs=0, handoff=0)
    wf_of = {}
    j = 0
    while j < len(log):
        kind, r, w, x = log[j]
        if kind == "start":
            wf_of[r] = w
            state[r] = "created"
            trace.append((("start", r, w), None))
        elif kind == "cancel":
            trace.append((("cancel", r), ("sem", w, x) if (x is not None and x != [-1] and lims.get(w) is not None)
                          else None))
        elif kind == "acq":
            if j + 1 < len(log) and log[j + 1][0] == "got" and log[j + 1][1] == r:
                trace.append((("run", r), ("sem", log[j + 1][2], log[j + 1][3])))
                state[r] = "holding"
                stats["fast"] += 1
                j += 1
            else:
                trace.append((("run", r), None))
                state[r] = "waiting"
                stats["blocked"] += 1
        elif kind == "got":
            trace.append((("run", r), ("sem", w, x)))
            state[r] = "holding"
            stats["handoff"] += 1
        elif kind == "acq-cancelled":
            trace.append((("run", r), ("sem", w, x)))
            state[r] = "done"
            stats["acq_cancelled"] += 1
        elif kind == "rel":
            trace.append((("finish", r), ("sem", w, x)))
            state[r] = "done"
            stats["releases"] += 1
        elif kind == "enter":
            if state.get(r) == "created" and lims.get(wf_of.get(r)) is None:
                trace.append((("run", r), None))      # unlimited instance: no semaphore segment exists
                state[r] = "holding"
                stats["unlimited_runs"] += 1
            trace.append((("enter", r), None))
        elif kind == "exit":
            trace.append((("exit", r), None))
        elif kind == "dict":
            if lims.get(w) is None:
                pass
            elif x == [-1]:
                trace.append((("gc", w), ("dict", w, x)))
                stats["gc_absent"] += 1
            else:
                trace.append((("nop",), ("dict", w, x)))
                stats["gc_present"] += 1
        j += 1
    # runs of unlimited instances finish without a semaphore segment; runs cancelled before their
    # first step never produce one either: settle them from the final task states
    final = []
    for r in sorted(wf_of):
        w = wf_of[r]
        res = obs["results"].get(r)
        st = state[r]
        if res != "pending":
            if st == "created":
                trace.append((("run", r), None))
                if lims.get(w) is None and r not in obs["cancelled"]:
                    pass
                st = "done-or-holding"
            if lims.get(w) is None:
                trace.append((("run", r), None))
                trace.append((("finish", r), None))
                st = "done"
        if res == "pending":
            code = {"created": [0, 0], "waiting": [1, 0], "holding": None}[st]
            final.append((r, None if code is None else [w] + code))
        else:
            final.append((r, [w, 3, 0]))
    return trace, [(r, l) for r, l in final if l is not None], stats


# ---- monitors on the implementation log (the property itself) ---------------------------------

def monitor(obs, spec):
    """Returns list of (key, message, detail)."""
    out = []
    lims = dict(obs["lims"])
    log = obs["log"]
    active = {}
    wf_of = {}
    started, entered = [], set()
    seen_n = set()
    for idx, (kind, r, w, x) in enumerate(log):
        if kind == "start":
            wf_of[r] = w
            started.append(r)
        elif kind == "enter":
            entered.add(r)
            active[r] = active.get(r, 0) + 1
            ww = wf_of.get(r, w)
            n = lims.get(ww)
            if n is not None:
                execu = sorted(q for q, a in active.items() if a > 0 and wf_of.get(q) == ww)
                if len(execu) == n:
                    seen_n.add(ww)
                if len(execu) > n:
                    out.append(("C30/limit-exceeded",
                                "instance %d (num_concurrent_runs=%d) has %d runs executing steps: %s"
                                % (ww, n, len(execu), execu), dict(log_index=idx)))
        elif kind == "exit":
            active[r] = active.get(r, 0) - 1
        elif kind == "rel":
            if active.get(r, 0) > 0:
                out.append(("C30/permit-released-while-steps-run",
                            "run %d of instance %d released its permit while %d of its steps were still executing"
                            % (r, wf_of.get(r, w), active[r]), dict(log_index=idx, run=r)))
    # work conservation at quiescent points: a run waits only while its own instance is full
    # (every admitted unfinished run sits in a gated step at a quiescent point)
    act2, wf2, alive, cancelled_now = {}, {}, {}, set()
    qset = set(obs["quiescent"])
    soft = set()
    for idx, (kind, r, w, x) in enumerate(log):
        if kind == "start":
            wf2[r] = w
            alive[r] = "started"
        elif kind == "enter":
            act2[r] = act2.get(r, 0) + 1
            alive[r] = "executing"
        elif kind == "exit":
            act2[r] = act2.get(r, 0) - 1
        elif kind == "cancel":
            alive[r] = "gone"
        elif kind == "soft-cancel":
            soft.add(r)
        elif kind in ("rel", "acq-cancelled"):
            alive[r] = "gone"
        if (idx + 1) in qset:
            for ww, n in lims.items():
                if n is None:
                    continue
                waiting = [q for q, a in alive.items() if a == "started" and wf2[q] == ww]
                execu = [q for q, a in act2.items() if a > 0 and wf2.get(q) == ww]
                if waiting and len(execu) < n:
                    out.append(("C30/run-waits-below-limit",
                                "instance %d (limit %d): runs %s wait although only %d run(s) execute"
                                % (ww, n, waiting, len(execu)), dict(log_index=idx)))
            for ww, n in lims.items():
                if n is None:
                    # (a run cancelled by cancel_run() before its first step ends without executing one, and an
                    # unlimited instance has no semaphore segment that would show its end)
                    waiting = [q for q, a in alive.items() if a == "started" and wf2[q] == ww and q not in soft]
                    if waiting:
                        out.append(("C30/unlimited-instance-waits",
                                    "instance %d (no limit): runs %s have not started executing"
                                    % (ww, waiting), dict(log_index=idx)))
    # every started run eventually executes (after the drain), unless the driver cancelled it
    for r in started:
        if r in obs["cancelled"]:
            continue
        if r not in entered and obs["results"].get(r) == "WorkflowTimeoutError":
            continue      # the driver let the instance's timeout elapse (advance) before the run's first step was scheduled
        if r not in entered:
            out.append(("C30/run-never-executes", "run %d of instance %d never executed a step (result %s)"
                        % (r, wf_of[r], obs["results"].get(r)), dict(run=r)))
        elif obs["results"].get(r) == "pending":
            out.append(("C30/run-never-finishes", "run %d is still pending after the drain" % r, dict(run=r)))
    return out, seen_n


def projection(obs, w):
    """What instance w looks like at every quiescent point of the driver script: its semaphore
    (counter, queue in order) and which of its runs execute how many steps.  (The order in which
    simultaneously ready tasks of different runs are resumed inside one settle is not compared:
    it depends on timer-heap and done-set order, not on the limit.)"""
    out, active = [], {}
    for k, r, ww, x in obs["log"][:obs["body_end"]]:
        if k == "enter" and obs["wf_of"].get(r) == w:
            active[r] = active.get(r, 0) + 1
        elif k == "exit" and obs["wf_of"].get(r) == w:
            active[r] = active.get(r, 0) - 1
        elif k == "dict" and ww == w:
            out.append((tuple(x), tuple(sorted((q, a) for q, a in active.items() if a > 0))))
    return out


def alone_spec(spec, obs, w):
    """The same driver script restricted to instance w (gates addressed by the keys really opened)."""
    ops, it = [], iter(obs["opened"])
    for op in spec["ops"]:
        if op[0] == "open":
            key = next(it)
            if key is not None and obs["wf_of"].get(key[0]) == w:
                ops.append(("open-key", key))
        elif op[0] == "start":
            if op[2] == w:
                ops.append(op)
        elif op[0] in ("hard-cancel", "soft-cancel"):
            if obs["wf_of"].get(op[1]) == w:
                ops.append(op)
        else:
            ops.append(op)
    return dict(instances=spec["instances"], ops=ops, slow_unwind=spec.get("slow_unwind", 0))


def independence_monitor(spec, obs):
    """Instance w behaves exactly as it does when the other instances are never started."""
    out = []
    for ins in spec["instances"]:
        w = ins["w"]
        if not any(ww == w for ww in obs["wf_of"].values()):
            continue
        alone = run_spec(alone_spec(spec, obs, w))
        a, b = projection(obs, w), projection(alone, w)
        if a != b:
            k = next((i for i, (x, y) in enumerate(zip(a, b)) if x != y), min(len(a), len(b)))
            out.append(("C30/instances-interfere",
                        "instance %d behaves differently when the other instances run: event %d is %s, alone %s"
                        % (w, k, a[k] if k < len(a) else None, b[k] if k < len(b) else None),
                        dict(instance=w, index=k)))
    return out


def run_case(rng, big=False, spec=None):
    spec = spec or gen_run_spec(rng, big)
    obs = run_spec(spec)
    trace, fin, stats = trace_of(obs)
    expr = g_case(obs["lims"], trace, fin)
    mon, seen_n = monitor(obs, spec)
    key = ("runs", tuple((i["limit"], i["template"], i["cls"]) for i in spec["instances"]),
           tuple(a[0][0] for a in trace))
    stats["at_limit"] = len(seen_n)
    return expr, dict(kind="runs", spec=spec, lims=obs["lims"], trace=trace, final=fin,
                      results=obs["results"]), key, stats, mon, obs


# ---- part C: an instance allocated at the address of a dropped one -------------------------------

def replacement_case(rng):
    """Instances with limit L_old run to completion on one runtime and are dropped (garbage collected); a NEW instance
    with another limit L_new is then allocated until CPython hands it the address - hence the id() the runtime keys its
    semaphores by - of a dropped one, and gets more than L_new overlapping runs.  The statement is evaluated on the step
    entry/exit of the new instance alone: never more than L_new of its runs execute, none waits while fewer execute,
    every run finishes.  Returns (failures [(key, message, detail)], facts)."""
    from workflows import Workflow, step
    from workflows.events import StartEvent, StopEvent
    from workflows.plugins.basic import BasicRuntime
    old_limit = rng.choice([1, 2, 3, 4])
    new_limit = rng.choice([x for x in (1, 2, 3, 4) if x != old_limit])
    nold = rng.randint(8, 16)
    nruns = max(old_limit, new_limit) + rng.randint(1, 2)
    spec = dict(old_limit=old_limit, new_limit=new_limit, old_instances=nold, runs=nruns)
    gates = []

    class Repl(Workflow):
        @step
        async def only(self, ev: StartEvent) -> StopEvent:
            st = self._st
            st["active"] += 1
            st["peak"] = max(st["peak"], st["active"])
            g = asyncio.Event()
            gates.append(g)
            try:
                await g.wait()
            finally:
                st["active"] -= 1
                st["finished"] += 1
            return StopEvent(result="x")

    box = {}

    async def drain(st, n):
        for _ in range(4 * n + 8):
            await vloop.settle()
            if st["finished"] >= n and not gates:
                break
            while gates:
                gates.pop(0).set()
        await vloop.settle()

    async def main():
        rt = BasicRuntime()
        ids = set()
        for _ in range(nold):
            wf = Repl(num_concurrent_runs=old_limit, runtime=rt)
            wf._st = dict(active=0, peak=0, finished=0)
            hs = [wf.run() for _ in range(old_limit + 1)]
            await drain(wf._st, old_limit + 1)
            box.setdefault("old_peak", []).append(wf._st["peak"])
            ids.add(id(wf))
            del wf, hs
        for _ in range(3):
            gc.collect()
            await vloop.settle()
        keep, new = [], None
        for _ in range(3000):
            c = Repl(num_concurrent_runs=new_limit, runtime=rt)
            if id(c) in ids:
                new = c
                break
            keep.append(c)
        box["reused"] = new is not None
        if new is None:
            new = keep[0]
        del keep
        st = new._st = dict(active=0, peak=0, finished=0)
        hs = [new.run() for _ in range(nruns)]
        await vloop.settle()
        box["at_quiescence"] = st["active"]
        await drain(st, nruns)
        box["st"] = dict(st)
        box["pending"] = sum(1 for h in hs if not h.done())

    with warnings.catch_warnings():
        warnings.simplefilter("ignore")
        vloop.run(main(), auto=False)
    st, out = box["st"], []
    if st["peak"] > new_limit:
        out.append(("C30/limit-exceeded",
                    "a new instance with num_concurrent_runs=%d allocated at the address of a dropped instance "
                    "(num_concurrent_runs=%d) had %d runs executing steps at once" % (new_limit, old_limit, st["peak"]),
                    dict(spec)))
    if box["at_quiescence"] < min(nruns, new_limit):
        out.append(("C30/run-waits-below-limit",
                    "a new instance with num_concurrent_runs=%d allocated at the address of a dropped instance "
                    "(num_concurrent_runs=%d): %d runs started, only %d execute"
                    % (new_limit, old_limit, nruns, box["at_quiescence"]), dict(spec)))
    if box["pending"] or st["finished"] != nruns:
        out.append(("C30/run-never-finishes", "%d of %d runs of the new instance never finished" % (box["pending"], nruns),
                    dict(spec)))
    return out, dict(reused=box["reused"], spec=spec, peak=st["peak"], old_peak=box.get("old_peak"))


def resume_case(rng):
    """A run of an instance with limit L is snapshotted (ctx.to_dict through JSON) while its step is executing and then
    cancelled; L fresh runs of the same instance then occupy every slot; the snapshot is resumed with
    run(ctx=Context.from_dict(...)).  The resumed run is a run of the instance like any other: never more than L of its
    runs execute steps at once, and once a slot is freed every run finishes.  Returns (failures, facts)."""
    import json
    from workflows import Context, Workflow, step
    from workflows.events import StartEvent, StopEvent
    limit = rng.choice([1, 1, 2, 3])
    extra = rng.choice([0, 1])
    st = dict(active=0, peak=0, finished=0, peak_after_resume=0, resumed=False)
    gates = []

    class Res(Workflow):
        @step
        async def only(self, ev: StartEvent) -> StopEvent:
            st["active"] += 1
            st["peak"] = max(st["peak"], st["active"])
            if st["resumed"]:
                st["peak_after_resume"] = max(st["peak_after_resume"], st["active"])
            g = asyncio.Event()
            gates.append(g)
            try:
                await g.wait()
            finally:
                st["active"] -= 1
            st["finished"] += 1
            return StopEvent(result="x")

    out = []

    async def main():
        wf = Res(num_concurrent_runs=limit, timeout=None)
        h0 = wf.run()
        await vloop.settle()
        data = json.loads(json.dumps(h0.ctx.to_dict()))
        await h0.cancel_run()
        await vloop.settle()
        try:
            await h0
        except BaseException:  # noqa: BLE001
            pass
        gates.clear()
        fresh = [wf.run() for _ in range(limit + extra)]
        await vloop.settle()
        st["resumed"] = True
        hr = wf.run(ctx=Context.from_dict(wf, data))
        await vloop.settle()
        if st["active"] > limit:
            out.append((None, "instance with num_concurrent_runs=%d has %d runs executing steps at once after a run snapshotted "
                        "mid-step was resumed while %d fresh runs held every slot" % (limit, st["active"], limit + extra),
                        dict(limit=limit, fresh_runs=limit + extra, executing=st["active"])))
        for _ in range(6 * (limit + extra) + 12):
            await vloop.settle()
            if all(h.is_done() for h in fresh + [hr]):
                break
            while gates:
                gates.pop(0).set()
            if st["active"] > limit and not out:
                out.append((None, "instance with num_concurrent_runs=%d has %d runs executing steps at once (a resumed run among "
                            "them)" % (limit, st["active"]), dict(limit=limit, executing=st["active"])))
        await vloop.settle()
        if not all(h.is_done() for h in fresh + [hr]) and not out:
            out.append((None, "a run resumed from a snapshot (or a fresh run queued behind it) never finished although every gate "
                        "was opened", dict(limit=limit, fresh_runs=limit + extra)))

    vloop.run(main())
    return out, dict(spec=dict(limit=limit, fresh_runs=limit + extra), peak_after_resume=st["peak_after_resume"], finished=st["finished"])
