"""L0 correspondence suite `serde`: the three real event codecs (JsonSerializer tagging, client
envelope, persisted tick format) vs Model/Serde.v on generated events / ticks, plus the
implementation-side monitor (C18's statement on the real round trip).

A case: build a real event (or tick) object, run the real encoder -> JSON wire -> real decoder,
convert the original object, the wire and the object read back to Gallina terms (strings interned to
ids), and ask Coq whether model_encode(original) == wire and model_decode(wire) == read-back."""
import datetime
import json
import math

import boot  # noqa: F401
import core
from core import gz, glist, gbool
from pydantic import BaseModel, TypeAdapter
from workflows.context.serializers import JsonSerializer
from workflows.context.utils import import_module_from_qualified_name
from workflows.events import (
    Event, HumanResponseEvent, InputRequiredEvent, StartEvent, StepFailedEvent, StopEvent,
    WorkflowCancelledEvent, WorkflowFailedEvent, WorkflowTimedOutEvent,
)
from workflows.runtime.types import results as RS
from workflows.runtime.types import ticks as TK
from llama_agents.client.protocol.serializable_events import EventEnvelopeWithMetadata

from suites import serde_classes as SC

HEADER = """From Coq Require Import List ZArith Bool.
Import ListNotations.
From WF Require Import Model.Serde Model.SerdeEnc.
Open Scope Z_scope.
"""

SER = JsonSerializer()

# ---- class tables --------------------------------------------------------------------------
EVENT_CLASSES = [Event, StartEvent, StopEvent, InputRequiredEvent, HumanResponseEvent,
                 WorkflowFailedEvent, StepFailedEvent, WorkflowTimedOutEvent, WorkflowCancelledEvent,
                 SC.GenA, SC.GenB, SC.GenC, SC.GenStop, SC.GenStop2, SC.GenStopR, SC.GenNest, SC.GenFail,
                 SC.GenIR, SC.GenHR, SC.GenStart] + SC.GENERATED
CID = {c: 10 + i for i, c in enumerate(EVENT_CLASSES)}
SPECIAL_KINDS = {
    (WorkflowFailedEvent, "exception"): "exn", (StepFailedEvent, "exception"): "exn",
    (StepFailedEvent, "input_event"): "event", (SC.GenNest, "child"): "event",
    (SC.GenNest, "maybe"): "optevent", (SC.GenFail, "exception"): "exn", (SC.GenFail, "err2"): "optexn",
}
EXC_CLASSES = [Exception, ValueError, KeyError, RuntimeError, OSError, SC.PlainError, SC.PrefixError,
               SC.KwError, SC.CodeError, SC.PickyError]
LOCAL_ERROR = SC.local_error_class()
XID = {c: 1 + i for i, c in enumerate(EXC_CLASSES)}
XID[LOCAL_ERROR] = 1 + len(EXC_CLASSES)
assert XID[Exception] == 1 and max(XID.values()) < 100


def qname(cls):
    return "%s.%s" % (cls.__module__, cls.__name__)


def field_kind(cls, name):
    for k in cls.__mro__:
        if (k, name) in SPECIAL_KINDS:
            return SPECIAL_KINDS[(k, name)]
    return "json"


class Interner:
    """string -> id; reserved codec keys negative, "" = 0, qualified names of the known classes = their
    class ids, tick field names / type tags fixed, everything else 1000+ in order of appearance."""
    RESERVED = {"_data": -1, "result": -2, "__is_pydantic": -3, "value": -4, "qualified_name": -5,
                "exception_type": -6, "exception_message": -7, "type": -8, "__is_component": -9, "": 0}
    TICK_IDS = {"step_name": 101, "worker_id": 102, "event": 103, "attempts": 105, "first_attempt_at": 106,
                "last_exception": 107, "last_failed_at": 108, "recovery_counts": 109, "timeout": 110,
                "waiter_id": 111, "exception": 112, "failed_at": 113, "event_id": 114, "waiter_event": 115,
                "requirements": 116, "event_type": 117, "has_requirements": 118,
                "step_result": 121, "add_event": 122, "cancel_run": 123, "idle_release": 124,
                "publish_event": 125, "waiter_timeout": 127, "idle_check": 128, "failed": 130,
                "delete_waiter": 131, "delete_collected": 132, "add_collected": 133, "add_waiter": 134}

    def __init__(self):
        self.tbl = dict(self.RESERVED)
        self.tbl.update(self.TICK_IDS)
        for c, i in CID.items():
            self.tbl[qname(c)] = i
        for c, i in XID.items():
            self.tbl["%s.%s" % (c.__module__, c.__qualname__)] = i
        self.next = 1000
        self.flt = {}

    def s(self, x):
        if x not in self.tbl:
            self.tbl[x] = self.next
            self.next += 1
        return self.tbl[x]

    def f(self, x):
        r = repr(x)
        if r not in self.flt:
            self.flt[r] = len(self.flt) + 1
        return self.flt[r]


def new_interner():
    return Interner()


# ---- Python values -> Gallina --------------------------------------------------------------
def g_json(it, v):
    if v is None:
        return "JNull"
    if v is True or v is False:
        return "(JBool %s)" % gbool(v)
    if isinstance(v, int):
        return "(JNum %s)" % gz(v)
    if isinstance(v, float):
        return "(JFlt %d)" % it.f(v)
    if isinstance(v, str):
        return "(JStr %s)" % gz(it.s(v))
    if isinstance(v, (list, tuple)):
        return "(JArr %s)" % glist(g_json(it, x) for x in v)
    if isinstance(v, dict):
        for k in v:
            if not isinstance(k, str):
                raise core.CheckError("non-string key in a JSON payload: %r" % (k,))
        return "(JObj %s)" % glist("(%s, %s)" % (gz(it.s(k)), g_json(it, x)) for k, x in v.items())
    raise core.CheckError("not a JSON value: %r" % (v,))


_ANY = TypeAdapter(object)


def plain_json(v):
    """JSON form of a plain typed field value (ints, strs, nested plain models, datetimes)."""
    if isinstance(v, BaseModel):
        return v.model_dump(mode="json")
    if isinstance(v, datetime.datetime):
        return TypeAdapter(datetime.datetime).dump_python(v, mode="json")
    if isinstance(v, (list, tuple)):
        return [plain_json(x) for x in v]
    if isinstance(v, dict):
        return {k: plain_json(x) for k, x in v.items()}
    return v


def exn_class_id(x):
    c = type(x)
    if c not in XID:
        raise core.CheckError("exception class outside the suite's table: %r" % c)
    return XID[c]


def g_exn(it, x):
    return "(TX %d %s)" % (exn_class_id(x), gz(it.s(str(x))))


def g_event(it, ev):
    cls = type(ev)
    if cls not in CID:
        raise core.CheckError("event class outside the suite's table: %r" % cls)
    typed = []
    for name in cls.model_fields:
        v = getattr(ev, name)
        k = field_kind(cls, name)
        if k == "json":
            tv = "(TJ %s)" % g_json(it, plain_json(v))
        elif k in ("exn", "optexn"):
            tv = "(TJ JNull)" if v is None else g_exn(it, v)
        else:
            tv = "(TJ JNull)" if v is None else g_event(it, v)
        typed.append("(%s, %s)" % (gz(it.s(name)), tv))
    dyn = glist("(%s, %s)" % (gz(it.s(k)), g_json(it, v)) for k, v in ev._data.items())
    res = g_json(it, ev._result) if isinstance(ev, StopEvent) else "JNull"
    return "(TE %d %s %s %s)" % (CID[cls], glist(typed), dyn, res)


def kind_term(k):
    return {"json": "KJson", "exn": "KExn", "optexn": "KOptExn", "event": "KEvent", "optevent": "KOptEvent"}[k]


def g_ct(it, classes):
    rows = []
    for c in classes:
        fs = glist("(%s, %s)" % (gz(it.s(n)), kind_term(field_kind(c, n))) for n in c.model_fields)
        rows.append("(%d, CI %s %s %s)" % (CID[c], gbool(issubclass(c, StopEvent)), gz(it.s(c.__name__)), fs))
    return "(mkct %s)" % glist(rows)


def exn_behaviour(it, cls, msg):
    """Observed behaviour of the exception class under the two construction paths (external input
    of the model, like a user callback)."""
    q = "%s.%s" % (cls.__module__, cls.__qualname__)
    try:
        imp = import_module_from_qualified_name(q) is cls
    except (ImportError, AttributeError, ValueError):
        imp = False
    try:
        ctor = (0, it.s(str(cls(msg))))
    except (ImportError, AttributeError, ValueError):
        ctor = (1, 0)
    except Exception:
        ctor = (2, 0)
    try:
        x = cls.__new__(cls)
        x.args = (msg,)
        nw = it.s(str(x))
    except Exception:
        nw = -1
    return imp, ctor, nw


def g_xt(it, uses):
    """uses: set of (exception class, message string) occurring in the case."""
    by = {}
    for cls, msg in uses:
        by.setdefault(cls, []).append(msg)
    rows = []
    for cls, msgs in by.items():
        imp = True
        ctor, nw = [], []
        for m in msgs:
            i, c, n = exn_behaviour(it, cls, m)
            imp = i
            ctor.append("(%s, (%d, %s))" % (gz(it.s(m)), c[0], gz(c[1])))
            nw.append("(%s, %s)" % (gz(it.s(m)), gz(n)))
        rows.append("(%d, XI %s %s %s)" % (XID[cls], gbool(imp), glist(ctor), glist(nw)))
    return "(mkxt %s)" % glist(rows)


def collect_exns(obj, acc):
    if isinstance(obj, Exception):
        acc.add((type(obj), str(obj)))
    elif isinstance(obj, BaseModel):
        for name in type(obj).model_fields:
            collect_exns(getattr(obj, name), acc)
    elif isinstance(obj, (list, tuple)):
        for x in obj:
            collect_exns(x, acc)
    return acc


def collect_classes(obj, acc):
    if isinstance(obj, Event):
        acc.add(type(obj))
    if isinstance(obj, BaseModel):
        for name in type(obj).model_fields:
            collect_classes(getattr(obj, name), acc)
    elif isinstance(obj, (list, tuple)):
        for x in obj:
            collect_classes(x, acc)
    return acc


# ---- ticks ---------------------------------------------------------------------------------
TICK_KINDS = {
    TK.TickStepResult: [("type", "json"), ("step_name", "json"), ("worker_id", "json"), ("event", "event"),
                        ("result", "results")],
    TK.TickAddEvent: [("type", "json"), ("event", "event"), ("step_name", "json"), ("attempts", "json"),
                      ("first_attempt_at", "json"), ("last_exception", "optexn"), ("last_failed_at", "json"),
                      ("recovery_counts", "json")],
    TK.TickCancelRun: [("type", "json")],
    TK.TickPublishEvent: [("type", "json"), ("event", "event")],
    TK.TickTimeout: [("type", "json"), ("timeout", "json")],
    TK.TickWaiterTimeout: [("type", "json"), ("step_name", "json"), ("waiter_id", "json")],
    TK.TickIdleCheck: [("type", "json")],
    TK.TickIdleRelease: [("type", "json")],
    RS.StepWorkerResult: [("type", "json"), ("result", "optevent")],
    RS.StepWorkerFailed: [("type", "json"), ("exception", "exn"), ("failed_at", "json")],
    RS.AddCollectedEvent: [("type", "json"), ("event_id", "json"), ("event", "event")],
    RS.DeleteCollectedEvent: [("type", "json"), ("event_id", "json")],
    RS.AddWaiter: [("type", "json"), ("waiter_id", "json"), ("waiter_event", "optevent"), ("requirements", "json"),
                   ("timeout", "json"), ("event_type", "json"), ("has_requirements", "json")],
    RS.DeleteWaiter: [("type", "json"), ("waiter_id", "json")],
}


def check_tick_shapes():
    """Fail closed when ticks.py / results.py no longer have the fields SerdeEnc.shapes assumes."""
    for cls, fs in TICK_KINDS.items():
        have = list(cls.model_fields)
        if have != [n for n, _ in fs]:
            raise core.CheckError("fields of %s changed: %s (the tick shapes in Model/Serde.v assume %s)"
                                  % (cls.__name__, have, [n for n, _ in fs]))


def tick_key(it, name):
    # the key strings of tick dicts: "type" and "result" are reserved codec keys as well
    return it.s(name)


def g_tickobj(it, obj):
    base = type(obj)
    for k in TICK_KINDS:
        if isinstance(obj, k):
            base = k
    fs = TICK_KINDS[base]
    out = []
    for name, kind in fs:
        v = getattr(obj, name)
        if kind == "json":
            if name == "event_type":
                v = qname(v)
            tv = "(TJ %s)" % g_json(it, plain_json(v))
        elif kind in ("exn", "optexn"):
            tv = "(TJ JNull)" if v is None else g_exn(it, v)
        elif kind in ("event", "optevent"):
            tv = "(TJ JNull)" if v is None else g_event(it, v)
        else:
            tv = "(TArr %s)" % glist(g_tickobj(it, r) for r in v)
        out.append("(%s, %s)" % (gz(tick_key(it, name)), tv))
    return "(TObj %s)" % glist(out)


# ---- canonical structure of an event for the monitor (no model involved) -------------------
def canon_event(ev):
    typed = {}
    for name in type(ev).model_fields:
        v = getattr(ev, name)
        if isinstance(v, Exception):
            typed[name] = ("exn", "%s.%s" % (type(v).__module__, type(v).__qualname__), str(v))
        elif isinstance(v, Event):
            typed[name] = canon_event(v)
        else:
            typed[name] = ("json", json.dumps(plain_json(v), sort_keys=True))
    return ("event", qname(type(ev)), tuple(sorted(typed.items())),
            json.dumps(ev._data, sort_keys=True),
            json.dumps(ev._result if isinstance(ev, StopEvent) else None, sort_keys=True))


def diff_events(a, b, path="event"):
    """First difference between two canonical events: (clause, path) or None."""
    if a[1] != b[1]:
        return ("class", path)
    ta, tb = dict(a[2]), dict(b[2])
    for k in ta:
        x, y = ta[k], tb.get(k)
        if x == y:
            continue
        if x[0] == "exn" and y is not None and y[0] == "exn":
            return ("exception-type" if x[1] != y[1] else "exception-message", "%s.%s" % (path, k))
        if x[0] == "event" and y is not None and y[0] == "event":
            return diff_events(x, y, "%s.%s" % (path, k))
        return ("typed-field", "%s.%s" % (path, k))
    if a[3] != b[3]:
        return ("dynamic-fields", path)
    if a[4] != b[4]:
        return ("result", path)
    return None


# ---- the three real codecs -----------------------------------------------------------------
class EncodeFailed(Exception):
    pass


def real_json_roundtrip(ev):
    try:
        text = SER.serialize(ev)
        wire = json.loads(text)
    except Exception as e:      # noqa: BLE001
        return None, EncodeFailed("%s: %s" % (type(e).__name__, e))
    try:
        back = SER.deserialize(text)
    except Exception as e:      # noqa: BLE001 - any escape is an observation
        back = e
    return wire, back


def real_env_roundtrip(ev, registry, with_qname=True):
    try:
        env = EventEnvelopeWithMetadata.from_event(ev, include_qualified_name=with_qname)
        text = env.model_dump_json()
        wire = json.loads(text)
    except Exception as e:      # noqa: BLE001
        return None, EncodeFailed("%s: %s" % (type(e).__name__, e))
    try:
        back = EventEnvelopeWithMetadata.model_validate_json(text).load_event(list(registry))
    except Exception as e:      # noqa: BLE001
        back = e
    return wire, back


def real_tick_roundtrip(tick):
    try:
        data = TK.WorkflowTickAdapter.dump_python(tick, mode="json")
        wire = json.loads(json.dumps(data))
    except Exception as e:      # noqa: BLE001
        return None, EncodeFailed("%s: %s" % (type(e).__name__, e))
    try:
        back = TK.WorkflowTickAdapter.validate_python(wire)
    except Exception as e:      # noqa: BLE001
        back = e
    return wire, back


def tick_events(obj, path="tick"):
    """(path, event | exception) carried by a tick, in a fixed traversal order."""
    out = []
    for name in type(obj).model_fields:
        v = getattr(obj, name)
        p = "%s.%s" % (path, name)
        if isinstance(v, Event):
            out.append((p, v))
        elif isinstance(v, Exception):
            out.append((p, v))
        elif isinstance(v, list):
            for i, r in enumerate(v):
                if isinstance(r, BaseModel):
                    out += tick_events(r, "%s[%d]" % (p, i))
    return out


# ---- generators ----------------------------------------------------------------------------
WORDS = ["", "a", "b", "key", "x", "y", "result", "_data", "value", "type", "qualified_name", "__is_pydantic",
         "exception_type", "héllo ☃", "line\nbreak \"q\"", "foo", "bar", "response", "prefix", "n"]


def gen_json(rng, depth=0):
    k = rng.random()
    if depth >= 3 or k < 0.55:
        return rng.choice([None, True, False, 0, 1, -7, 2 ** 40, 2 ** 70, 1.5, -0.25, 1e300, "", "s",
                           rng.choice(WORDS), rng.randint(-5, 5)])
    if k < 0.75:
        return [gen_json(rng, depth + 1) for _ in range(rng.randint(0, 3))]
    d = {}
    for _ in range(rng.randint(0, 3)):
        d[rng.choice(WORDS)] = gen_json(rng, depth + 1)
    if rng.random() < 0.08:
        # a payload that looks like the serializer's own wrapper
        d = {"__is_pydantic": rng.choice([True, 1, "yes"]), "qualified_name": rng.choice(
            [qname(SC.GenA), "os.system", "nope"]), "value": {"x": 1}}
    return d


def gen_dyn(rng, cls):
    if rng.random() < 0.3:
        return {}
    reserved = set(cls.model_fields) | {"_data", "result", "_result"}
    d = {}
    for _ in range(rng.randint(1, 3)):
        k = rng.choice(WORDS + ["k%d" % rng.randint(0, 5)])
        if k in reserved or not k.isidentifier() and rng.random() < 0.5:
            continue
        d[k] = gen_json(rng, 1)
    return d


MSGS = ["boom", "", "bad value: 3", "ok: fine", "'quoted'", "ünï ☃", "a\nb"]


def gen_exn(rng):
    cls = rng.choice(EXC_CLASSES + [LOCAL_ERROR])
    m = rng.choice(MSGS)
    if cls is SC.KwError:
        return cls(m, req=1)
    if cls is SC.CodeError:
        return cls(rng.randint(1, 9), m)
    if cls is SC.PickyError:
        return cls("ok:" + m)
    if cls is OSError and rng.random() < 0.5:
        return OSError(5, m)
    if cls is KeyError and rng.random() < 0.3:
        return KeyError(rng.randint(0, 9))
    return cls(m)


def gen_field(rng, ann_name, cls, name, depth):
    k = field_kind(cls, name)
    if k == "exn":
        return gen_exn(rng)
    if k == "optexn":
        return None if rng.random() < 0.4 else gen_exn(rng)
    if k == "event":
        return gen_event(rng, depth + 1)
    if k == "optevent":
        return None if rng.random() < 0.4 else gen_event(rng, depth + 1)
    return None


def gen_plain(rng, ann):
    """A value of the declared (plain) type."""
    s = str(ann)
    if ann is int:
        return rng.choice([0, 1, -3, 2 ** 62, rng.randint(-99, 99)])
    if ann is str:
        return rng.choice(WORDS)
    if ann is bool:
        return rng.random() < 0.5
    if ann is float:
        return rng.choice([0.5, -1.25, 3.0, 1e-9])
    if ann is SC.Inner:
        return SC.Inner(a=rng.randint(0, 9), b=[rng.choice(WORDS) for _ in range(rng.randint(0, 2))])
    if ann is datetime.datetime:
        return datetime.datetime(2026, 1, rng.randint(1, 28), 3, 4, 5, tzinfo=datetime.timezone.utc)
    if "Optional[int]" in s or "int | None" in s:
        return rng.choice([None, 4])
    if "Optional[str]" in s or "str | None" in s:
        return rng.choice([None, "q", ""])
    if s.startswith("list[int]"):
        return [rng.randint(0, 9) for _ in range(rng.randint(0, 3))]
    if s.startswith("list[str]"):
        return [rng.choice(WORDS) for _ in range(rng.randint(0, 3))]
    if s.startswith("dict"):
        return {rng.choice(WORDS): gen_json(rng, 2) for _ in range(rng.randint(0, 2))}
    raise core.CheckError("generator has no value for field type %r" % (ann,))


def gen_event(rng, depth=0, cls=None):
    pool = EVENT_CLASSES if depth < 2 else [c for c in EVENT_CLASSES if c not in (SC.GenNest, StepFailedEvent)]
    cls = cls or rng.choice(pool)
    kw = {}
    for name, fi in cls.model_fields.items():
        v = gen_field(rng, None, cls, name, depth)
        if field_kind(cls, name) == "json":
            v = gen_plain(rng, fi.annotation)
        kw[name] = v
    kw.update(gen_dyn(rng, cls))
    if issubclass(cls, StopEvent) and rng.random() < 0.7:
        kw["result"] = gen_json(rng, 1)
    # some defaulted container fields are NOT passed to the constructor but filled in place afterwards (the field is
    # then "unset" for pydantic although it holds data): the value must survive every codec all the same
    later = {}
    for name, fi in cls.model_fields.items():
        if not fi.is_required() and isinstance(kw.get(name), (list, dict)) and kw[name] and rng.random() < 0.3:
            later[name] = kw.pop(name)
    ev = cls(**kw)
    for name, v in later.items():
        cur = getattr(ev, name)
        if isinstance(v, list) and isinstance(cur, list):
            cur.extend(v)
        elif isinstance(v, dict) and isinstance(cur, dict):
            cur.update(v)
        else:
            setattr(ev, name, v)
    return ev


def gen_tick(rng):
    k = rng.random()
    if k < 0.3:
        return TK.TickAddEvent(event=gen_event(rng), step_name=rng.choice([None, "s1"]),
                               attempts=rng.choice([None, 0, 2]), first_attempt_at=rng.choice([None, 1.5]),
                               last_exception=rng.choice([None, gen_exn(rng), gen_exn(rng)]),
                               last_failed_at=rng.choice([None, 2.5]),
                               recovery_counts=rng.choice([{}, {"h": 1}]))
    if k < 0.4:
        return TK.TickPublishEvent(event=gen_event(rng))
    if k < 0.9:
        res = []
        for _ in range(rng.randint(0, 4)):
            r = rng.random()
            if r < 0.3:
                res.append(RS.StepWorkerResult(result=rng.choice([None, gen_event(rng)])))
            elif r < 0.55:
                res.append(RS.StepWorkerFailed(exception=gen_exn(rng), failed_at=rng.choice([1.0, 7.25])))
            elif r < 0.7:
                res.append(RS.AddCollectedEvent(event_id="e%d" % rng.randint(0, 9), event=gen_event(rng)))
            elif r < 0.8:
                res.append(RS.DeleteCollectedEvent(event_id="e1"))
            elif r < 0.93:
                res.append(RS.AddWaiter(waiter_id="w%d" % rng.randint(0, 3),
                                        waiter_event=rng.choice([None, gen_event(rng)]),
                                        timeout=rng.choice([None, 2.0]), event_type=rng.choice(EVENT_CLASSES)))
            else:
                res.append(RS.DeleteWaiter(waiter_id="w0"))
        return TK.TickStepResult(step_name="s", worker_id=rng.randint(0, 3), event=gen_event(rng), result=res)
    return rng.choice([TK.TickCancelRun(), TK.TickTimeout(timeout=3.0), TK.TickIdleCheck(), TK.TickIdleRelease(),
                       TK.TickWaiterTimeout(step_name="s", waiter_id="w1")])
