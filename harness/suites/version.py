"""L0 correspondence suite `version` (C34): the real `semver_to_pep440` / `pep440_to_semver`
(src/dev_cli/changesets.py), `detect_change_type` (src/dev_cli/versioning.py) and the real
`packaging.version.Version` (parsing, str(), ordering) vs Model/Version.v."""
import boot  # noqa: F401
import core
from core import gz, glist, gzlist, gbool, gopt

HEADER = """From Coq Require Import List ZArith NArith Bool.
Import ListNotations.
From WF Require Import Generated Model.Version.
Open Scope Z_scope.
Definition L (c : Z) : label := if c =? 0 then LA else if c =? 1 then LB else LRC.
Definition V (r : list Z) (p : option (Z * Z)) : version :=
  mkV (map Z.to_N r) (match p with None => None | Some (l, n) => Some (L l, Z.to_N n) end).
Definition parse_agree (s : str) (invalid : bool) (r : list Z) (p : option (Z * Z)) : Z :=
  match parse_pep440 s with
  | None => 0      (* outside the modelled spelling: no claim *)
  | Some v => if invalid then 3 else version_agree (Some v) (rel (V r p)) (pre (V r p))
  end.
Definition parses (s : str) : Z := match parse_pep440 s with None => 0 | Some _ => 1 end.
"""

LABELS = ["a", "b", "rc"]
CLASSES = {"none": 0, "patch": 1, "minor": 2, "major": 3}


def load():
    try:
        from dev_cli.changesets import semver_to_pep440, pep440_to_semver
        from dev_cli.versioning import detect_change_type
        from packaging.version import Version, InvalidVersion
    except Exception as e:  # noqa: BLE001
        raise core.CheckError("cannot import the release tooling: %r" % e)
    return semver_to_pep440, pep440_to_semver, detect_change_type, Version, InvalidVersion


# ---- generators -----------------------------------------------------------------------------
SMALL = [0, 0, 0, 1, 1, 2, 3]
BIG = [9, 10, 11, 99, 100, 2024, 18446744073709551616]


def gen_num(rng):
    return rng.choice(SMALL) if rng.random() < 0.8 else rng.choice(BIG)


def gen_version(rng, length=None):
    """(release tuple, pre) with pre None or (label index, number)"""
    if length is None:
        length = rng.choice([1, 2, 3, 3, 3, 3, 3, 4, 5])
    rel = tuple(gen_num(rng) for _ in range(length))
    pre = None if rng.random() < 0.4 else (rng.randrange(3), rng.choice([0, 0, 1, 1, 2, 3, 10, 99]))
    return rel, pre


def mutate(rng, v):
    """a version close to v (equal, one component/pre changed, trailing zeros added/removed)"""
    rel, pre = v
    k = rng.random()
    rel = list(rel)
    if k < 0.15:
        pass
    elif k < 0.5:
        i = rng.randrange(len(rel))
        rel[i] = max(0, rel[i] + rng.choice([-1, 1, 1, 2]))
        if rng.random() < 0.5:
            for j in range(i + 1, len(rel)):
                rel[j] = rng.choice([0, 0, rel[j], 5])
    elif k < 0.65:
        rel = rel + [0] * rng.choice([1, 2])
    elif k < 0.75:
        while len(rel) > 1 and rel[-1] == 0:
            rel.pop()
    elif k < 0.8:
        rel = rel + [rng.choice([0, 1])]
    if rng.random() < 0.5:
        c = rng.random()
        if c < 0.3:
            pre = None
        elif c < 0.6 and pre is not None:
            pre = (pre[0], max(0, pre[1] + rng.choice([-1, 1])))
        elif c < 0.8 and pre is not None:
            pre = (rng.randrange(3), pre[1])
        else:
            pre = (rng.randrange(3), rng.choice([0, 1, 2]))
    return tuple(rel), pre


def canonical(v):
    rel, pre = v
    return ".".join(str(x) for x in rel) + ("" if pre is None else "%s%d" % (LABELS[pre[0]], pre[1]))


def semver_of(v):
    rel, pre = v
    return ".".join(str(x) for x in rel) + ("" if pre is None else "-%s.%d" % (LABELS[pre[0]], pre[1]))


ALT_LABEL = {0: ["a", "alpha", "A", "Alpha"], 1: ["b", "beta", "B"], 2: ["rc", "c", "pre", "preview", "RC"]}


def spelling(rng, v):
    """some PEP 440 spelling of v that packaging normalises to canonical(v)"""
    rel, pre = v
    k = rng.random()
    if k < 0.35:
        return canonical(v)
    if k < 0.5:
        return semver_of(v)            # what the CLI passes to detect_change_type
    parts = [("0" * rng.choice([0, 0, 1, 2])) + str(x) for x in rel]
    s = ".".join(parts)
    if pre is not None:
        sep1 = rng.choice(["", "", ".", "-", "_"])
        sep2 = rng.choice(["", "", ".", "-", "_"])
        s += sep1 + rng.choice(ALT_LABEL[pre[0]]) + sep2 + ("0" * rng.choice([0, 0, 1])) + str(pre[1])
    if rng.random() < 0.2:
        s = rng.choice(["v", "V"]) + s
    if rng.random() < 0.1:
        s = " " + s + rng.choice([" ", "\n", ""])
    return s


def canonical_zeros(rng, v):
    """canonical spelling with optional leading zeros (the model parser's whole domain)"""
    rel, pre = v
    z = lambda x: ("0" * rng.choice([0, 0, 0, 1, 2])) + str(x)  # noqa: E731
    return ".".join(z(x) for x in rel) + ("" if pre is None else "%s%s" % (LABELS[pre[0]], z(pre[1])))


def g_v(v):
    rel, pre = v
    return "(V %s %s)" % (gzlist(rel), gopt(lambda p: "(%s, %s)" % (gz(p[0]), gz(p[1])), pre))


def g_str(s):
    return gzlist([ord(c) for c in s])


def is_ascii(s):
    return all(ord(c) < 128 for c in s)


# ---- case builders: (coq expr, info) ----------------------------------------------------------
class Crash(Exception):
    """the real function raised something it never raises on the unchanged tree"""

    def __init__(self, call, exc):
        Exception.__init__(self, "%s raised %s: %s" % (call, type(exc).__name__, exc))
        self.call = call


def guarded(call, thunk, allowed=()):
    try:
        return thunk()
    except allowed:
        raise
    except Exception as e:  # noqa: BLE001
        raise Crash(call, e)


def case_p2s(F, rng):
    s2p, p2s, dct, Version, Invalid = F
    v = gen_version(rng)
    sp = spelling(rng, v)
    out = guarded("pep440_to_semver(%r)" % sp, lambda: p2s(sp))
    return "str_agree (p2s %s) %s" % (g_v(v), g_str(out)), dict(kind="p2s", v=v, spelling=sp, out=out)


def case_render(F, rng):
    s2p, p2s, dct, Version, Invalid = F
    v = gen_version(rng)
    sp = spelling(rng, v)
    out = str(Version(sp))
    return "str_agree (render_pep440 %s) %s" % (g_v(v), g_str(out)), dict(kind="render", v=v, spelling=sp, out=out)


def damage(rng, s):
    if not s:
        return s
    k = rng.random()
    i = rng.randrange(len(s))
    if k < 0.25:
        return s[:i] + s[i + 1:]
    if k < 0.5:
        return s[:i] + rng.choice(".-a1rcb0 ") + s[i:]
    if k < 0.7:
        return s[:i] + rng.choice(".-ab1x") + s[i + 1:]
    if k < 0.8:
        return s + rng.choice([".", "a", "1", "\n", "rc"])
    return s


def case_parse(F, rng):
    s2p, p2s, dct, Version, Invalid = F
    v = gen_version(rng)
    s = canonical_zeros(rng, v)
    damaged = rng.random() < 0.35
    if damaged:
        s = damage(rng, s)
    try:
        pv = Version(s)
        ok = pv.epoch == 0 and pv.post is None and pv.dev is None and pv.local is None
        rel = tuple(pv.release)
        pre = None if pv.pre is None else (LABELS.index(pv.pre[0]), pv.pre[1])
        inv = False
    except Invalid:
        ok, rel, pre, inv = True, (), None, True
    if not ok:
        # post/dev/local/epoch: outside the modelled domain; the model parser must say None
        return "parses %s" % g_str(s), dict(kind="parse", s=s, damaged=damaged, outside=True)
    return ("parse_agree %s %s %s %s" % (g_str(s), gbool(inv), gzlist(rel),
                                         gopt(lambda p: "(%s, %s)" % (gz(p[0]), gz(p[1])), pre)),
            dict(kind="parse", s=s, damaged=damaged, invalid=inv, rel=rel, pre=pre))


SEMVER_LABELS = ["a", "b", "rc", "a", "b", "rc", "alpha", "A", "RC", "x", "beta", "Rc", "c"]


def gen_semver_string(rng):
    v = gen_version(rng)
    rel, pre = v
    k = rng.random()
    z = lambda x: ("0" * rng.choice([0, 0, 0, 1])) + str(x)  # noqa: E731
    base = ".".join(z(x) for x in rel)
    if pre is None and k < 0.5:
        return base
    lab = rng.choice(SEMVER_LABELS)
    n = pre[1] if pre else rng.choice([0, 1, 2])
    s = "%s-%s.%s" % (base, lab, z(n))
    if k < 0.7:
        return s
    if k < 0.85:
        return damage(rng, s)
    return rng.choice([s + "\n", s + "\n\n", " " + s, s + " ", s.replace("-", "_"), s.replace(".", "-", 1),
                       base + "-" + lab, base + "-." + z(n), base + "-" + lab + "." , "-" + lab + "." + z(n), ""])


def case_s2p(F, rng):
    s2p, p2s, dct, Version, Invalid = F
    s = gen_semver_string(rng)
    try:
        out, raised = guarded("semver_to_pep440(%r)" % s, lambda: s2p(s), allowed=(ValueError,)), False
    except ValueError:
        out, raised = "", True
    return ("s2p_agree (semver_to_pep440 %s) %s %s" % (g_str(s), gbool(raised), g_str(out)),
            dict(kind="s2p", s=s, out=out, raised=raised))


def case_p2s_string(F, rng):
    """pep440_to_semver on the model parser's domain, string to string"""
    s2p, p2s, dct, Version, Invalid = F
    v = gen_version(rng)
    s = canonical_zeros(rng, v)
    out = guarded("pep440_to_semver(%r)" % s, lambda: p2s(s))
    return "ostr_agree (pep440_to_semver %s) %s" % (g_str(s), g_str(out)), dict(kind="p2s-string", s=s, out=out)


def case_cmp(F, rng):
    s2p, p2s, dct, Version, Invalid = F
    v = gen_version(rng)
    w = mutate(rng, v) if rng.random() < 0.8 else gen_version(rng)
    a, b = Version(spelling(rng, v)), Version(spelling(rng, w))
    sign = (a > b) - (a < b)
    if (a == b) != (sign == 0) or (a <= b) != (sign <= 0) or (a >= b) != (sign >= 0):
        raise core.CheckError("packaging.Version comparison operators are inconsistent on %s, %s" % (a, b))
    return "cmp_code (vcmp %s %s) - %s" % (g_v(v), g_v(w), gz(sign)), dict(kind="cmp", v=v, w=w, sign=sign)


def case_detect(F, rng):
    s2p, p2s, dct, Version, Invalid = F
    v = gen_version(rng)
    k = rng.random()
    if k < 0.06:
        w, prev = None, rng.choice([None, ""])
    else:
        w = mutate(rng, v) if rng.random() < 0.85 else gen_version(rng)
        if rng.random() < 0.5:
            v, w = w, v
        prev = spelling(rng, w)
    cur = spelling(rng, v)
    out = guarded("detect_change_type(%r, %r)" % (cur, prev), lambda: dct(cur, prev))
    if out not in CLASSES:
        return "1", dict(kind="detect", v=v, w=w, cur=cur, prev=prev, out=out)
    return ("detect_change_type %s %s - %d" % (g_v(v), gopt(g_v, w), CLASSES[out]),
            dict(kind="detect", v=v, w=w, cur=cur, prev=prev, out=out))


# ---- the property on the real functions ------------------------------------------------------
def monitor_roundtrip(F, v, sp):
    """returns (key, description) or None"""
    s2p, p2s, dct, Version, Invalid = F
    norm = str(Version(sp))
    nonthree = len(v[0]) != 3
    try:
        s = p2s(sp)
        back = s2p(s)
    except Exception as e:  # noqa: BLE001
        return ("C34/roundtrip-raises", "pep440 -> semver -> pep440 raised %r on %r" % (e, sp))
    if back != norm:
        key = "C34/roundtrip-non-3-component" if nonthree and v[1] is not None else "C34/roundtrip-pep440"
        return (key, "pep440 %r -> semver %r -> pep440 %r, expected the normalized original %r"
                % (sp, s, back, norm))
    # semver -> pep440 -> semver, starting from the semver spelling of the same version
    sem = semver_of(v)
    try:
        p = s2p(sem)
        s2 = p2s(p)
    except Exception as e:  # noqa: BLE001
        return ("C34/roundtrip-raises", "semver -> pep440 -> semver raised %r on %r" % (e, sem))
    if s2 != sem:
        key = "C34/roundtrip-non-3-component" if nonthree and v[1] is not None else "C34/roundtrip-semver"
        return (key, "semver %r -> pep440 %r -> semver %r, expected the normalized original %r" % (sem, p, s2, sem))
    return None


NAMES = ["major", "minor", "patch"]


def monitor_detect(F, v, w, cur, prev, out):
    s2p, p2s, dct, Version, Invalid = F
    if w is None:
        return None            # no previous version: the property speaks about two versions
    greater = Version(cur) > Version(prev)
    if (out == "none") != (not greater):
        return ("C34/classification-none",
                "detect_change_type(%r, %r) = %r although the new version is %sgreater"
                % (cur, prev, out, "" if greater else "not "))
    if not greater:
        return None
    c = (tuple(v[0]) + (0, 0, 0))[:3]
    p = (tuple(w[0]) + (0, 0, 0))[:3]
    diff = [i for i in range(3) if c[i] != p[i]]
    if not diff:
        return None            # no major/minor/patch component changed: the text names no answer
    i = diff[0]
    if out != NAMES[i] or not c[i] > p[i]:
        return ("C34/classification-component",
                "detect_change_type(%r, %r) = %r, but the most significant release component that grew is %s"
                % (cur, prev, out, NAMES[i]))
    return None
