"""Importable event classes used by the engine suites (qualified names must resolve for the
JSON serializer round trips)."""
from workflows.events import (Event, HumanResponseEvent, InputRequiredEvent, StartEvent, StepFailedEvent,
                              StopEvent)


class T1(Event):
    pass


class T2(Event):
    pass


class T3(Event):
    pass


class T4(Event):
    pass


class U6(Event):
    pass


class HR(HumanResponseEvent):
    pass


class IR(InputRequiredEvent):
    pass


class MyStop(StopEvent):
    pass


class MyStart(StartEvent):
    pass


TY = {StartEvent: 0, T1: 1, T2: 2, T3: 3, T4: 4, HR: 5, U6: 6, StepFailedEvent: 7, IR: 8, StopEvent: 9,
      MyStop: 10, MyStart: 11}
TYN = {c.__name__: i for c, i in TY.items()}
TYSTR = {str(c): i for c, i in TY.items()}
BY_ID = {i: c for c, i in TY.items()}
START_IDS = [0, 11]
STOP_IDS = [9, 10]
INPUTREQ_IDS = [8]
