"""L0 correspondence suite `migrations` (C28): the real `run_migrations` on real sqlite3 files vs
Model/Migrate.v.

Two streams:
  * instance  — the packaged scripts from every start the property names (fresh, every prefix built
                by the real runner restricted to the first k files, every legacy user_version), run
                twice; the model side uses the scripts as parsed into Generated.v.
  * generated — random migration lists (random file names, version headers incl. missing / zero /
                duplicate / malformed ones, scripts incl. failing ones, one or two packages) from
                random starts; the model is given the *observed* start database and must predict the
                observed database after every run (raised or not, catalogue, rows, user_version).
Observation is through PRAGMA table_info / index_list / index_info and the schema_migrations rows —
never through sqlite_master.sql text (except for the single keyword AUTOINCREMENT, which no PRAGMA
shows)."""
import importlib
import os
import re
import shutil
import sqlite3
import sys

import boot
import translate_sql as TS

boot.enable_server()
from llama_agents.server._store.sqlite import migrate as MIG          # noqa: E402
from llama_agents.server._store import migration_utils as MU          # noqa: E402
from llama_agents.server import _store as STORE                       # noqa: E402

HEADER = """From Coq Require Import List ZArith Bool String.
From WF Require Import Generated Model.Migrate.
Import ListNotations.
Open Scope string_scope.
Open Scope list_scope.
Open Scope Z_scope.
"""

REAL_PKG = STORE.SQLITE_MIGRATION_SOURCE[1]


# ---------------------------------------------------------------------------------------------
# observation of a real database
def observe(conn):
    """-> dict(tables=[(name, [col], autoinc)], indexes=[(name, table, [col], unique)], sm=None|[(pkg, ver)],
               uv=int, sm_cols=None|[col])    col = (name, type, notnull, dflt, pk)"""
    cur = conn.cursor()
    master = cur.execute("SELECT type, name, tbl_name, sql FROM sqlite_master ORDER BY rowid").fetchall()
    tables, indexes, sm_cols = [], [], None
    for typ, name, _tbl, sql in master:
        if typ != "table" or name.startswith("sqlite_"):
            continue
        cols = [(r[1], r[2], bool(r[3]), r[4], int(r[5]))
                for r in cur.execute("PRAGMA table_info(%s)" % name).fetchall()]
        if name == "schema_migrations":
            sm_cols = cols
            continue
        autoinc = bool(re.search(r"\bAUTOINCREMENT\b", sql or "", re.I))
        tables.append((name, cols, autoinc))
        for il in cur.execute("PRAGMA index_list(%s)" % name).fetchall():
            if il[3] != "c":
                continue            # automatic indexes of PRIMARY KEY / UNIQUE constraints
            icols = [r[2] for r in cur.execute("PRAGMA index_info(%s)" % il[1]).fetchall()]
            indexes.append((il[1], name, icols, bool(il[2])))
    for typ, name, _tbl, _sql in master:
        if typ not in ("table", "index"):
            raise AssertionError("unexpected object %s %s in the database" % (typ, name))
    sm = None
    if sm_cols is not None:
        sm = [(r[0], int(r[1])) for r in cur.execute("SELECT package, version FROM schema_migrations").fetchall()]
    uv = int(cur.execute("PRAGMA user_version").fetchone()[0])
    return dict(tables=tables, indexes=sorted(indexes), sm=sm, uv=uv, sm_cols=sm_cols)


def canon(o):
    """order-insensitive, hashable projection (for Python-side equality of two observed databases)"""
    return (tuple(sorted((n, tuple(c), a) for n, c, a in o["tables"])),
            tuple(sorted((n, t, tuple(c), u) for n, t, c, u in o["indexes"])),
            None if o["sm"] is None else tuple(sorted(o["sm"])))


# ---- Coq printers -----------------------------------------------------------------------------
def g_col(c):
    return TS.coq_col((c[0], c[1], c[2], c[3], c[4]))


def g_cat(o):
    ts = "; ".join("(Tbl %s [%s] %s)" % (TS.cstr(n), "; ".join(g_col(c) for c in cols), TS.cbool(a))
                   for n, cols, a in o["tables"])
    ix = "; ".join("(Idx %s %s [%s] %s)" % (TS.cstr(n), TS.cstr(t), "; ".join(TS.cstr(c) for c in cols), TS.cbool(u))
                   for n, t, cols, u in o["indexes"])
    return "(Cat [%s] [%s])" % (ts, ix)


def g_rows(sm):
    if sm is None:
        return "None"
    return "(Some [%s])" % "; ".join("(%s, %d)" % (TS.cstr(p), v) for p, v in sm)


def g_db(o):
    return "(Db %s %s %s)" % (g_cat(o), "(%d)" % o["uv"] if o["uv"] < 0 else "%d" % o["uv"], g_rows(o["sm"]))


def g_sources(srcs):
    """srcs: [(pkgname, [(version, ops)])] in the order the real runner visits them"""
    return "[%s]" % "; ".join(
        "(%s, [%s])" % (TS.cstr(p), "; ".join("Mig %d %s" % (v, TS.coq_script(ops)) for v, ops in migs))
        for p, migs in srcs)


def g_agree_run(srcs_term, d_term, failed, o):
    return "agree_run %s %s %s %s %s %s" % (srcs_term, d_term, TS.cbool(failed), g_rows(o["sm"]), g_cat(o),
                                          "(%d)" % o["uv"] if o["uv"] < 0 else "%d" % o["uv"])


def g_agree_db(d_term, o):
    return "agree_db %s %s %s %d" % (d_term, g_rows(o["sm"]), g_cat(o), o["uv"])


# ---------------------------------------------------------------------------------------------
# temporary migration packages and database files
class Workspace:
    def __init__(self, root):
        self.root = os.path.join(root, "c28")
        self.pkgroot = os.path.join(self.root, "pkgs")
        os.makedirs(self.pkgroot, exist_ok=True)
        if self.pkgroot not in sys.path:
            sys.path.insert(0, self.pkgroot)
        self.n = 0

    def package(self, files):
        """files: [(file name, text)] -> importable package name"""
        self.n += 1
        name = "c28pkg_%d_%d" % (os.getpid(), self.n)
        d = os.path.join(self.pkgroot, name)
        os.makedirs(d)
        open(os.path.join(d, "__init__.py"), "w").close()
        for fn, text in files:
            with open(os.path.join(d, fn), "w") as f:
                f.write(text)
        importlib.invalidate_caches()
        return name

    def drop_package(self, name):
        sys.modules.pop(name, None)
        shutil.rmtree(os.path.join(self.pkgroot, name), ignore_errors=True)

    def dbfile(self):
        self.n += 1
        return os.path.join(self.root, "db_%d.sqlite" % self.n)

    def close(self):
        if self.pkgroot in sys.path:
            sys.path.remove(self.pkgroot)
        shutil.rmtree(self.root, ignore_errors=True)


def connect(path):
    conn = sqlite3.connect(path)
    conn.execute("PRAGMA synchronous=OFF")
    return conn


def rm_db(path):
    for suf in ("", "-wal", "-shm", "-journal"):
        try:
            os.remove(path + suf)
        except FileNotFoundError:
            pass


def copy_db(src, dst):
    rm_db(dst)
    for suf in ("", "-wal", "-shm"):
        if os.path.exists(src + suf):
            shutil.copy(src + suf, dst + suf)


def real_run(path, sources=None, commit=True):
    """the real run_migrations, driven as SqliteWorkflowStore.run_migrations(db_path) drives it
    (connect, run, commit, close in `finally`) - or, commit=False, as DBOSRuntime.run_migrations drives it
    (connect, run, close: the caller never commits); returns None or the exception it raised"""
    conn = sqlite3.connect(path, timeout=30.0)
    try:
        if sources is None:
            MIG.run_migrations(conn)
        else:
            MIG.run_migrations(conn, sources)
        if commit:
            conn.commit()
        return None
    except Exception as e:  # noqa: BLE001 - the outcome is what is compared
        return e
    finally:
        conn.close()


def observe_path(path):
    conn = sqlite3.connect(path)
    try:
        return observe(conn)
    finally:
        conn.close()


def real_listing(pkg):
    """what the real runner iterates over: [(file name, text, version or 0)] via the real helpers"""
    out = []
    for p in MU.iter_migration_files(pkg):
        text = p.read_text()
        out.append((p.name, text, MU.parse_target_version(text) or 0))
    return out


# ---------------------------------------------------------------------------------------------
# generator of migration lists
TABLES = ["t0", "t1", "t2", "t3"]
COLS = ["c0", "c1", "c2", "c3", "c4", "c5", "c6"]
INDEXES = ["i0", "i1", "i2", "i3"]
TYPES = ["TEXT", "INTEGER", "REAL", "", "BLOB"]
DFLTS = [None, None, None, "'x'", "0", "'{}'", "42"]


class Sim:
    """coarse catalogue used only to bias generation toward statements that succeed"""
    def __init__(self):
        self.tables, self.indexes = {}, set()

    def note(self, st):
        if st[0] == "create_table":
            self.tables.setdefault(st[2], [c[0] for c in st[3]])
        elif st[0] == "add_column" and st[1] in self.tables and st[2][0] not in self.tables[st[1]]:
            self.tables[st[1]].append(st[2][0])
        elif st[0] == "create_index":
            self.indexes.add(st[3])


def gen_col(rng, name, in_alter):
    typ = rng.choice(TYPES)
    notnull = rng.random() < 0.3
    dflt = rng.choice(DFLTS)
    if not in_alter and rng.random() < 0.08:
        dflt = "datetime('now')"
    if in_alter and notnull and dflt is None:
        dflt = "'d'"
    return (name, typ, notnull, dflt, 0)


def gen_stmt(rng, sim, wild):
    k = rng.random()
    if k < 0.34 or not sim.tables:
        free_t = [t for t in TABLES if t not in sim.tables]
        if wild or rng.random() < 0.3 or not free_t:
            name = rng.choice(TABLES + (INDEXES[:1] if wild else []))
        else:
            name = rng.choice(free_t)
        n = rng.choice([1, 2, 3, 4])
        names = rng.sample(COLS, n)
        if wild and n > 1 and rng.random() < 0.15:
            names[1] = names[0]                       # duplicate column name
        cols = [gen_col(rng, c, False) for c in names]
        autoinc = False
        r = rng.random()
        if r < 0.4:
            c = cols[0]
            autoinc = rng.random() < 0.3
            cols[0] = (c[0], "INTEGER" if autoinc else c[1], c[2], c[3], 1)
        elif r < 0.55 and len(set(names)) == n and n >= 2:
            order = rng.sample(range(n), 2)
            for pos, i in enumerate(order):
                c = cols[i]
                cols[i] = (c[0], c[1], c[2], c[3], pos + 1)
        return ("create_table", rng.random() < 0.7, name, cols, autoinc)
    if k < 0.72:
        if wild and rng.random() < 0.3:
            t = rng.choice(TABLES)
        else:
            t = rng.choice(sorted(sim.tables))
        have = sim.tables.get(t, [])
        free = [c for c in COLS if c not in have]
        if free and not (wild and rng.random() < 0.35):
            cn = rng.choice(free)
        else:
            cn = rng.choice(COLS)
        col = gen_col(rng, cn, True)
        if wild and rng.random() < 0.1:
            col = (col[0], col[1], col[2], col[3], 1)  # ADD COLUMN ... PRIMARY KEY: always an error
        return ("add_column", t, col)
    if wild and rng.random() < 0.3:
        t = rng.choice(TABLES)
    else:
        t = rng.choice(sorted(sim.tables))
    have = sim.tables.get(t, []) or COLS
    cols = [rng.choice(have) for _ in range(rng.choice([1, 1, 2]))]
    if wild and rng.random() < 0.3:
        cols[0] = rng.choice(COLS)
    if wild and rng.random() < 0.1:
        name = rng.choice(TABLES)                      # index named like a table
    elif rng.random() < 0.3:
        name = rng.choice(INDEXES)
    else:
        free = [i for i in INDEXES if i not in sim.indexes] or INDEXES
        name = rng.choice(free)
    return ("create_index", rng.random() < 0.6, rng.random() < 0.2, name, t, cols)


HEADERS_GOOD = ["-- migration: %d\n", "-- migration: %d\n", "-- migration: %d\n", "--migration:%d\n",
                "--   migration:   %d trailing words\n", "-- note -- migration: %d\n", "-- migration: 00%d\n"]
HEADERS_BAD = ["-- Migration: %d\n", "\n-- migration: %d\n", "-- migration %d\n", ""]


def gen_package(rng, sim, nfiles, wild):
    """-> files [(name, text)], expect {name: (version, ops)}"""
    files, expect = [], {}
    used = set()
    vers = list(range(1, nfiles + 1))
    for i in range(nfiles):
        r = rng.random()
        if r < 0.7:
            v = vers[i]
        elif r < 0.85:
            v = rng.choice(vers)           # duplicate / out-of-order version
        elif r < 0.93:
            v = 0
        else:
            v = rng.choice([7, 9, 12])
        ok = rng.random() < 0.88
        hdr = rng.choice(HEADERS_GOOD if ok else HEADERS_BAD)
        head = (hdr % v) if "%d" in hdr else hdr
        ev = v if ok else 0
        ops = []
        for _ in range(rng.choice([0, 1, 1, 2, 2, 3, 4])):
            st = gen_stmt(rng, sim, wild and rng.random() < 0.35)
            ops.append(st)
            sim.note(st)
        body = "\n".join(("-- step\n" if rng.random() < 0.2 else "") + TS.render_stmt(st) for st in ops)
        while True:
            if rng.random() < 0.75:
                fn = "%04d_%s.sql" % (i + 1, rng.choice(["init", "add", "more", "x"]))
            else:
                fn = "%d_%s.sql" % (rng.choice([1, 2, 9, 10, 11, 100]), rng.choice(["a", "b", "z"]))
            if fn not in used:
                used.add(fn)
                break
        files.append((fn, head + body + "\n"))
        expect[fn] = (ev, ops)
    if rng.random() < 0.4:
        files.append((rng.choice(["README.txt", "0000_skip.sql.bak", "notes.md"]),
                      "-- migration: 5\nCREATE TABLE junk (a);\n"))
    return files, expect


# ---------------------------------------------------------------------------------------------
# stream 1: the packaged scripts from every start
def instance_stream(ctx, ws):
    """-> (exprs, metas, monitor_failures, info)"""
    listing = real_listing(REAL_PKG)
    n = len(listing)
    exprs, metas, fails = [], [], []
    names = [x[0] for x in listing]
    vers = [x[2] for x in listing]
    # translator's listing == what the real helpers iterate over
    exprs.append("if list_eqb Z.eqb (map (fun x => fst (fst x)) sqlite_migrations) [%s] "
                 "&& list_eqb String.eqb (map (fun x => snd (fst x)) sqlite_migrations) [%s] then 0 else 1"
                 % ("; ".join(str(v) for v in vers), "; ".join(TS.cstr(x) for x in names)))
    metas.append(dict(kind="listing", names=names, versions=vers))
    if names != sorted(names):
        fails.append(dict(kind="listing", why="iter_migration_files is not in file-name order", names=names))
    srcs = "[(SERVER, server_migs)]"

    def build(kind, k):
        path = ws.dbfile()
        pkg = None
        if kind == "prefix":
            pkg = ws.package([(fn, text) for fn, text, _ in listing[:k]])
            e = real_run(path, [("server", pkg)])
            if e is not None:
                fails.append(dict(kind="instance", start="prefix %d" % k,
                                  why="run restricted to the first %d files raised %r" % (k, e)))
        else:
            conn = sqlite3.connect(path)
            if kind == "legacy":
                # what the pre-schema_migrations runner left: scripts 1..k executed in version order
                for fn, text, ver in sorted(listing, key=lambda x: x[2])[:k]:
                    try:
                        conn.executescript(text)
                    except sqlite3.Error as e:
                        fails.append(dict(kind="instance", start="legacy %d" % k,
                                          why="the legacy database cannot be built: script %s raises %r" % (fn, e)))
                        break
                conn.execute("PRAGMA user_version=%d" % k)
            conn.commit()
            conn.close()
        return path, pkg

    ref = None
    starts = [("fresh", 0)] + [("prefix", k) for k in range(n + 1)] + [("legacy", k) for k in range(1, n + 1)]
    for kind, k in starts:
        label = "%s %d" % (kind, k) if kind != "fresh" else "fresh"
        st = {"fresh": "StartFresh", "prefix": "(StartPrefix %d)" % k, "legacy": "(StartLegacy %d)" % k}[kind]
        path, pkg = build(kind, k)
        o0 = observe_path(path)
        d0 = "(start_or_empty server_migs %s)" % st
        exprs.append(g_agree_db(d0, o0))
        metas.append(dict(kind="instance-start", start=label))
        e1 = real_run(path)
        o1 = observe_path(path)
        exprs.append(g_agree_run(srcs, d0, e1 is not None, o1))
        metas.append(dict(kind="instance-run1", start=label))
        e2 = real_run(path)
        o2 = observe_path(path)
        exprs.append(g_agree_run(srcs, "(after_run %s %s)" % (srcs, d0), e2 is not None, o2))
        metas.append(dict(kind="instance-run2", start=label))
        # the property itself, on the real outputs
        if ref is None:
            ref = o1
            exprs.append("if list_eqb col_eqb sqlite_schema_migrations_cols [%s] then 0 else 1"
                         % "; ".join(g_col(c) for c in (o1["sm_cols"] or [])))
            metas.append(dict(kind="schema_migrations-columns"))
        if e1 is not None:
            fails.append(dict(kind="instance", start=label, why="run_migrations raised %r" % e1))
        else:
            if canon(o1)[:2] != canon(ref)[:2]:
                fails.append(dict(kind="instance", start=label, why="final schema differs from the fresh database's",
                                  got=repr(canon(o1)[:2]), fresh=repr(canon(ref)[:2])))
            for v in sorted(set(v for v in vers if v != 0)):
                cnt = sum(1 for r in (o1["sm"] or []) if r == ("server", v))
                if cnt != 1:
                    fails.append(dict(kind="instance", start=label,
                                      why="version %d recorded %d times in schema_migrations %r"
                                          % (v, cnt, sorted(o1["sm"] or []))))
            if e2 is not None:
                fails.append(dict(kind="instance", start=label, why="second run raised %r" % e2))
            elif (canon(o2), o2["uv"]) != (canon(o1), o1["uv"]):
                fails.append(dict(kind="instance", start=label, why="second run changed the database",
                                  before=repr(canon(o1)), after=repr(canon(o2))))
        ctx.count(3, ("instance", label))
        rm_db(path)
        if pkg:
            ws.drop_package(pkg)
        # the same start, migrated by a caller that closes its connection WITHOUT committing (DBOSRuntime.run_migrations):
        # what run_migrations did must be durable by itself, and a second run on a new connection finds it done
        path, pkg = build(kind, k)
        f1 = real_run(path, commit=False)
        p1 = observe_path(path)
        f2 = real_run(path, commit=False)
        p2 = observe_path(path)
        if f1 is not None or f2 is not None:
            fails.append(dict(kind="instance", start=label + " (caller does not commit)",
                              why="run_migrations raised %r on the %s run of a caller that closes its connection without committing"
                                  % (f1 if f1 is not None else f2, "first" if f1 is not None else "second")))
        elif e1 is None and (canon(p1) != canon(o1) or canon(p2) != canon(o1)):
            fails.append(dict(kind="instance", start=label + " (caller does not commit)",
                              why="the database left behind by a caller that does not commit differs from the one a committing caller leaves",
                              committing=repr(canon(o1)), not_committing=repr(canon(p1)), second=repr(canon(p2))))
        ctx.count(2, ("instance-nocommit", label))
        rm_db(path)
        if pkg:
            ws.drop_package(pkg)
    return exprs, metas, fails, dict(files=n, starts=len(starts))


# ---------------------------------------------------------------------------------------------
# stream 2: generated lists
def _model_sources(pkgs):
    """pkgs: [(package name, importable pkg, expect)] -> (coq term, python view) using the REAL listing"""
    view = []
    for pname, ipkg, expect in pkgs:
        migs = []
        for fn, _text, ver in real_listing(ipkg):
            migs.append((ver, expect[fn][1]))
        view.append((pname, migs))
    return g_sources(view), view


def generated_case(ctx, ws, rng, idx, cov):
    """One generated scenario.  Returns (exprs, metas, fails)."""
    exprs, metas, fails = [], [], []
    sim = Sim()
    npk = 1 if rng.random() < 0.75 else 2
    pnames = ["server", "ext"][:npk]
    if npk == 1 and rng.random() < 0.15:
        pnames = ["ext"]
    wild = rng.random() < 0.45
    specs = []
    for pn in pnames:
        files, expect = gen_package(rng, sim, rng.choice([1, 2, 3, 3, 4, 5]), wild)
        specs.append((pn, files, expect))
    replay = dict(case=idx, packages=[dict(package=pn, files=files) for pn, files, _ in specs])

    # helper monitors: listing order / version parsing / translator round trip
    pkgs = []
    for pn, files, expect in specs:
        ip = ws.package(files)
        pkgs.append((pn, ip, expect))
        lst = real_listing(ip)
        want_names = sorted(fn for fn, _ in files if fn.endswith(".sql"))
        if [x[0] for x in lst] != want_names:
            fails.append(dict(kind="listing", why="iter_migration_files returned %r, expected the .sql files in "
                              "name order %r" % ([x[0] for x in lst], want_names), **replay))
            return exprs, metas, fails
        for fn, text, ver in lst:
            if ver != expect[fn][0]:
                fails.append(dict(kind="version-header", why="parse_target_version(%r) or 0 = %r, expected %r"
                                  % (text.splitlines()[0] if text.splitlines() else "", ver, expect[fn][0]), **replay))
            if TS.parse_version(text) != expect[fn][0] or TS.parse_script(text) != expect[fn][1]:
                raise AssertionError("translator round trip failed on %r" % text)
            if ver == 0:
                cov["zero_version_files"] += 1
    vers_all = [v for _pn, ip, ex in pkgs for (_f, _t, v) in real_listing(ip)]
    if len([v for v in vers_all if v]) != len(set(v for v in vers_all if v)):
        cov["duplicate_versions"] += 1
    sources = [(pn, ip) for pn, ip, _ in pkgs]
    srcs_term, view = _model_sources(pkgs)

    # ---- start database ----
    path = ws.dbfile()
    conn = connect(path)
    kind = rng.choice(["fresh", "fresh", "prefix", "prefix", "legacy", "legacy", "legacy-odd", "foreign"])
    tmp_pkgs = []
    legacy_proper = False
    if kind == "prefix":
        cut = []
        for pn, files, expect in specs:
            sql = sorted(fn for fn, _ in files if fn.endswith(".sql"))
            k = rng.randrange(0, len(sql) + 1)
            keep = set(sql[:k])
            ip = ws.package([(fn, t) for fn, t in files if fn in keep])
            tmp_pkgs.append(ip)
            cut.append((pn, ip))
            if rng.random() < 0.3:
                break
        conn.close()
        real_run(path, cut)
        conn = connect(path)
    elif kind in ("legacy", "legacy-odd") and pnames[0] == "server":
        lst = real_listing(pkgs[0][1])
        k = rng.randrange(1, len(lst) + 1)
        done = 0
        for fn, text, ver in lst[:k]:
            try:
                conn.executescript("BEGIN;\n" + text + "\nCOMMIT;")
                done += 1
            except sqlite3.Error:
                conn.rollback()
                break
        uv = done if kind == "legacy" else rng.choice([0, 1, 2, 3, 6])
        conn.execute("PRAGMA user_version=%d" % uv)
        conn.commit()
        # hypotheses of C28_legacy_converges_general: executed versions distinct within 1..uv, the rest above
        va = [v for _f, _t, v in lst[:done]]
        vb = [v for _f, _t, v in lst[done:]]
        legacy_proper = (kind == "legacy" and done == k and len(set(va)) == len(va)
                         and all(1 <= v <= uv for v in va) and all(v > uv for v in vb) and npk == 1)
    elif kind == "foreign":
        st = gen_stmt(rng, Sim(), False)
        if st[0] == "create_table":
            conn.executescript(TS.render_stmt(st))
        if rng.random() < 0.5:
            conn.execute("PRAGMA user_version=%d" % rng.choice([1, 2]))
        conn.commit()
    conn.close()
    backup = ws.dbfile()
    copy_db(path, backup)
    o0 = observe_path(path)
    cov["start_" + kind] += 1
    if o0["sm"] is None and o0["uv"] > 0:
        cov["bootstrap_seeded"] += 1

    # ---- run, run again ----
    e1 = real_run(path, sources)
    o1 = observe_path(path)
    d0 = g_db(o0)
    exprs.append(g_agree_run(srcs_term, d0, e1 is not None, o1))
    metas.append(dict(kind="generated-run1", start=kind, failed=e1 is not None, **replay))
    e2 = real_run(path, sources)
    o2 = observe_path(path)
    exprs.append(g_agree_run(srcs_term, g_db(o1), e2 is not None, o2))
    metas.append(dict(kind="generated-run2", start=kind, failed=e2 is not None, **replay))
    key = ("generated", kind, npk, e1 is not None, len(o1["tables"]), len(o1["indexes"]),
           len(o1["sm"] or []), tuple(len(m) for _p, m in view))
    ctx.count(2, key)
    # property: from a prefix database / a legacy user_version database the run ends like the run on a
    # fresh database (same raise-or-not, same catalogue; same rows too for a prefix start)
    # (single package only: the theorems are per package, and scripts of two packages that touch the same
    #  table need not commute, so "a prefix of each package" is not a prefix of the fresh run's sequence)
    if (kind == "prefix" and npk == 1) or legacy_proper:
        fresh = ws.dbfile()
        ef = real_run(fresh, sources)
        of = observe_path(fresh)
        rm_db(fresh)
        cov["convergence_compared_" + kind] += 1
        same = ((ef is None) == (e1 is None)) and canon(of)[:2] == canon(o1)[:2]
        if kind == "prefix":
            same = same and canon(of)[2] == canon(o1)[2]
        if not same:
            fails.append(dict(kind="generated", start=kind,
                              why="%s start does not converge: run %s with %r, the same list on a fresh database %s with %r"
                                  % (kind, "raised" if e1 else "ended", canon(o1), "raised" if ef else "ended", canon(of)),
                              start_db=repr((canon(o0), o0["uv"])), **replay))
    if e1 is None:
        cov["run_ok"] += 1
        # property: a second run changes nothing
        if e2 is not None:
            fails.append(dict(kind="generated", why="second run raised %r after a successful run" % e2,
                              start=kind, **replay))
        elif (canon(o2), o2["uv"]) != (canon(o1), o1["uv"]):
            fails.append(dict(kind="generated", why="second run changed the database", start=kind,
                              before=repr(canon(o1)), after=repr(canon(o2)), **replay))
        # property: every version recorded once
        for pn, migs in view:
            for v in set(v for v, _ in migs if v != 0):
                cnt = sum(1 for r in (o1["sm"] or []) if r == (pn, v))
                if cnt != 1:
                    fails.append(dict(kind="generated", why="version %d of package %s recorded %d times after a "
                                      "successful run" % (v, pn, cnt), start=kind, **replay))
    else:
        cov["run_failed"] += 1
        # property (a database left behind by a failed run is "at an earlier schema version"):
        # with the failing script replaced by an empty one, continuing from the failed database must
        # end exactly like running the repaired list on the original start database.
        bad = _first_failing(view, o0, o1)
        if bad is not None:
            bp, bi = bad
            rep_sources, rep_tmp = [], []
            for pn, ip, expect in pkgs:
                lst = real_listing(ip)
                files2 = []
                for j, (fn, text, ver) in enumerate(lst):
                    if pn == bp and j == bi:
                        text = (text.splitlines()[0] if text.splitlines() else "") + "\n-- repaired: no statements\n"
                    files2.append((fn, text))
                ip2 = ws.package(files2)
                rep_tmp.append(ip2)
                rep_sources.append((pn, ip2))
            r1 = real_run(path, rep_sources)
            oa = observe_path(path)
            r2 = real_run(backup, rep_sources)
            ob = observe_path(backup)
            cov["repair_compared"] += 1
            if ((r1 is None) != (r2 is None)) or (canon(oa), oa["uv"]) != (canon(ob), ob["uv"]):
                fails.append(dict(kind="generated",
                                  why="database left by a failed run does not converge: after replacing the failing "
                                      "script %s[%d] by an empty one, continuing %s with %r but the original start %s with %r"
                                      % (bp, bi, "raises" if r1 else "ends", canon(oa), "raises" if r2 else "ends", canon(ob)),
                                  start=kind, **replay))
            for ip2 in rep_tmp:
                ws.drop_package(ip2)
    rm_db(path)
    rm_db(backup)
    for ip in tmp_pkgs + [ip for _pn, ip, _e in pkgs]:
        ws.drop_package(ip)
    if idx < 4:
        ctx.sample(dict(kind="generated", start=kind, raised=e1 is not None,
                        files=[(pn, [fn for fn, _ in files]) for pn, files, _ in specs],
                        rows_after=o1["sm"]), limit=8)
    return exprs, metas, fails


def _first_failing(view, o0, o1):
    """which (package, index) raised: the first migration, in visiting order, that was neither already
    applied at the start, nor version 0, nor recorded by the failed run.  Derived from observations only."""
    seeded = list(o0["sm"]) if o0["sm"] is not None else (
        [("server", v) for v in range(1, o0["uv"] + 1)] if o0["uv"] > 0 else [])
    after = set(o1["sm"] or [])
    for pn, migs in view:
        seen = set(v for p, v in seeded if p == pn)
        for j, (v, _ops) in enumerate(migs):
            if v == 0 or v in seen:
                continue
            if (pn, v) in after:
                seen.add(v)
                continue
            return pn, j
    return None
