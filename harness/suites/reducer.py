"""L1 correspondence suite `reducer`: the real control_loop._reduce_tick / rewind_in_progress /
_check_idle_state / BrokerState (de)serialization / rebuild_state_from_ticks vs Model/Engine.v.

The generator *plays the runner*: commands returned by the real reducer are fed back later as the
ticks the runner would build (retries with attempt counters, waiter timeouts, idle checks), so that
histories are reachable ones.  A separate malformed stream adds results for unknown workers etc.
Every history is printed as a Coq `list op` with the real implementation's canonical encodings;
Coq evaluates `run_ops` and reports the first disagreeing op (0 = all agree)."""
import itertools
import json
import random
import types

import boot  # noqa: F401
from core import gz, glist, gopt, gbool
from suites.wfevents import (TY, TYN, TYSTR, T1, T2, T3, T4, U6, HR, IR, MyStop, MyStart, START_IDS, STOP_IDS,
                             INPUTREQ_IDS)
from workflows.context.context_types import SerializedContext
from workflows.context.serializers import JsonSerializer
from workflows.decorators import CatchErrorHandler, StepConfig
from workflows.errors import WorkflowCancelledByUser
from workflows.events import (Event, IdleReleasedEvent, StartEvent, StepFailedEvent, StepStateChanged, StopEvent,
                              UnhandledEvent, WorkflowCancelledEvent, WorkflowFailedEvent, WorkflowIdleEvent,
                              WorkflowTimedOutEvent)
from workflows.runtime import control_loop as CL
from workflows.runtime.types.commands import (CommandCompleteRun, CommandFailWorkflow, CommandHalt,
                                              CommandPublishEvent, CommandQueueEvent, CommandRunWorker,
                                              CommandScheduleIdleCheck, CommandScheduleWaiterTimeout)
from workflows.runtime.types.internal_state import (BrokerConfig, BrokerState, EventAttempt, InternalStepConfig,
                                                    InternalStepWorkerState)
from workflows.runtime.types.results import (AddCollectedEvent, AddWaiter, DeleteCollectedEvent, DeleteWaiter,
                                             StepWorkerFailed, StepWorkerResult)
from workflows.runtime.types.ticks import (TickAddEvent, TickCancelRun, TickIdleCheck, TickIdleRelease,
                                           TickPublishEvent, TickStepResult, TickTimeout, TickWaiterTimeout,
                                           WorkflowTickAdapter)

HEADER = """From Coq Require Import List ZArith Bool.
Import ListNotations.
From WF Require Import Model.Engine Model.EngineEnc.
Open Scope Z_scope.
Definition sc (acc : list Z) (nw : nat) (p : option Z) := {| accepts := acc; nworkers := nw; pol := p |}.
Definition w0 (c : stepcfg) := {| w_cfg := c; queue := []; inprogress := []; collected := []; waiters := [] |}.
Definition mkcfg hf hs := {| c_handler_for := hf; c_handlers := hs; c_start := [0; 11]; c_stop := [9; 10];
  c_inputreq := [8]; c_ty_stepfailed := 7 |}.
Definition mkstate hf hs ws := {| running := false; cfg := mkcfg hf hs; workers := ws |}.
Definition hd_ (st mx : Z) := {| h_step := st; h_max := mx |}.
"""

STEP = {"a": 1, "b": 2, "c": 3, "d": 4, "e": 5, "h": 6, "zz": 99}
BUF = {"default": 1, "x": 2}
WID = {"w1": 1, "w2": 2}
KEY = {"k": 1, "j": 2}
XT = {ValueError: 1, RuntimeError: 2}
XM = {"m1": 1, "m2": 2, "boom": 3}
REBUILD_NOW = 777

# rebuild_state_from_ticks reads time.time(); give the module a fixed clock (timestamps aside)
CL.time = types.SimpleNamespace(time=lambda: float(REBUILD_NOW), monotonic=lambda: float(REBUILD_NOW))
SER = JsonSerializer()


# ---------- policies (table driven; same table printed as a Gallina function) ----------
class Pol:
    def __init__(self, pid, spec):
        self.pid, self.spec = pid, spec

    def _next(self, elapsed_time, attempts, error):
        s = self.spec
        if s["raise_on"] is not None and str(error) == s["raise_on"]:
            raise RuntimeError("policy bug")
        if s["skip_runtime"] and isinstance(error, RuntimeError):
            return None
        if s["max_elapsed"] is not None and elapsed_time >= s["max_elapsed"]:
            return None
        return float(s["delay"]) if attempts < s["max_failures"] else None

    def next(self, elapsed_time, attempts, error, *, seed=None):
        return self._next(elapsed_time, attempts, error)


class PolNoSeed(Pol):
    def next(self, elapsed_time, attempts, error):  # no seed kwarg: exercises inspect.signature branch
        return self._next(elapsed_time, attempts, error)


def gen_pol_spec(rng):
    return dict(raise_on=rng.choice([None, None, None, "boom"]), skip_runtime=rng.random() < 0.5,
                max_elapsed=rng.choice([None, None, 4, 10]), delay=rng.choice([0, 0, 2, 5]),
                max_failures=rng.choice([1, 2, 3, 4]))


def g_policy(pols):
    """pols: {pid: spec} -> Gallina `policy`"""
    body = "PStop"
    for pid, s in sorted(pols.items(), reverse=True):
        inner = "(if Z.ltb f %s then PRetry %s else PStop)" % (gz(s["max_failures"]), gz(s["delay"]))
        if s["max_elapsed"] is not None:
            inner = "(if Z.leb %s el then PStop else %s)" % (gz(s["max_elapsed"]), inner)
        if s["skip_runtime"]:
            inner = "(if Z.eqb (xty x) 2 then PStop else %s)" % inner
        if s["raise_on"] is not None:
            inner = "(if Z.eqb (xmsg x) %s then PRaise else %s)" % (gz(XM[s["raise_on"]]), inner)
        body = "(if Z.eqb p %s then %s else %s)" % (gz(pid), inner, body)
    return "(fun (p el f : Z) (x : exn) => %s)" % body


# ---------- configurations ----------
ACCEPT_POOL = [StartEvent, MyStart, T1, T2, T3, T4, HR]


def gen_config(rng):
    names = sorted(rng.sample(["a", "b", "c", "d", "e"], rng.choice([2, 3, 3, 4, 5])))
    pols, steps = {}, {}
    for i, n in enumerate(names):
        acc = rng.sample(ACCEPT_POOL, rng.choice([1, 1, 2, 3]))
        if i == 0 and StartEvent not in acc:
            acc.append(StartEvent)
        pid = None
        if rng.random() < 0.6:
            pid = len(pols) + 1
            pols[pid] = gen_pol_spec(rng)
        steps[n] = dict(accepts=acc, nw=rng.choice([1, 1, 2, 2, 3, 4]), pol=pid)
    handlers, handler_for = {}, {}
    if rng.random() < 0.6:
        steps["h"] = dict(accepts=[StepFailedEvent], nw=rng.choice([1, 2]), pol=None)
        mx = rng.choice([1, 2, 3])
        owned = [n for n in names if rng.random() < 0.6]
        handlers["h"] = (owned, mx)
        for n in owned:
            handler_for[n] = "h"
    return dict(steps=steps, pols=pols, handlers=handlers, handler_for=handler_for)


def py_state(cfg):
    polobjs = {pid: (Pol if pid % 2 else PolNoSeed)(pid, s) for pid, s in cfg["pols"].items()}
    scs = {}
    for n, s in cfg["steps"].items():
        scs[n] = StepConfig(accepted_events=list(s["accepts"]), event_name="ev", return_types=[],
                            context_parameter=None, num_workers=s["nw"],
                            retry_policy=polobjs.get(s["pol"]), resources=[])
    return BrokerState(
        is_running=False,
        config=BrokerConfig(
            steps={n: InternalStepConfig(accepted_events=c.accepted_events, retry_policy=c.retry_policy,
                                         num_workers=c.num_workers) for n, c in scs.items()},
            timeout=None,
            catch_error_handlers={h: CatchErrorHandler(h, list(owned), mx) for h, (owned, mx) in cfg["handlers"].items()},
            handler_for_step=dict(cfg["handler_for"])),
        workers={n: InternalStepWorkerState(queue=[], config=c, in_progress=[], collected_events={},
                                            collected_waiters=[]) for n, c in scs.items()}), scs


def fake_workflow(cfg, scs):
    """What BrokerState.from_workflow reads from a Workflow."""
    return types.SimpleNamespace(
        _get_steps=lambda: {n: types.SimpleNamespace(_step_config=c) for n, c in scs.items()},
        _timeout=None,
        _catch_error_handlers={h: CatchErrorHandler(h, list(o), m) for h, (o, m) in cfg["handlers"].items()},
        _handler_for_step=dict(cfg["handler_for"]))


def g_state(cfg):
    ws = glist("(%s, w0 (sc %s %d%%nat %s))" % (
        gz(STEP[n]), glist(gz(TY[c]) for c in s["accepts"]), s["nw"], gopt(gz, s["pol"]))
        for n, s in cfg["steps"].items())
    hf = glist("(%s, %s)" % (gz(STEP[a]), gz(STEP[b])) for a, b in cfg["handler_for"].items())
    hs = glist("(%s, hd_ %s %s)" % (gz(STEP[h]), gz(STEP[h]), gz(mx)) for h, (_, mx) in cfg["handlers"].items())
    return "(mkstate %s %s %s)" % (hf, hs, ws)


# ---------- encoders (mirror Model/EngineEnc.v) ----------
def el(f, l):
    out = [len(l)]
    for x in l:
        out += f(x)
    return out


def eo(f, o):
    return [0] if o is None else [1] + f(o)


def e_ev(e):
    if isinstance(e, StepFailedEvent):
        return [7, e.input_event.get("i", 0), 4, 1, STEP[e.step_name], 2, e.attempts, 3, int(e.elapsed_seconds),
                4, TY[type(e.input_event)]]
    attrs = [(KEY[k], v) for k, v in e._data.items() if k != "i"]
    return [TY[type(e)], e.get("i", 0)] + el(lambda p: [p[0], p[1]], attrs)


def e_x(x):
    return [XT.get(type(x), 0), XM.get(str(x), 0)]


def e_rc(rc):
    return el(lambda p: [STEP[p[0]], p[1]], list(rc.items()))


def zi(z):
    return [int(z)]


def e_att(a):
    return (e_ev(a.event) + eo(zi, a.attempts) + eo(zi, a.first_attempt_at) + eo(e_x, a.last_exception)
            + eo(zi, a.last_failed_at) + e_rc(a.recovery_counts))


def e_w(w):
    return ([WID[w.waiter_id]] + e_ev(w.event) + [TY[w.waiting_for_event]]
            + el(lambda p: [KEY[p[0]], p[1]], list(w.requirements.items())) + [int(w.has_requirements)]
            + eo(e_ev, w.resolved_event) + [int(w.timed_out)])


def e_buf(p):
    return [BUF[p[0]]] + el(e_ev, p[1])


def e_snap(s):
    return el(e_buf, list(s.collected_events.items())) + el(e_w, s.collected_waiters)


def e_ip(i):
    return (e_ev(i.event) + [i.worker_id] + e_snap(i.shared_state) + [i.attempts, int(i.first_attempt_at)]
            + eo(e_x, i.last_exception) + eo(zi, i.last_failed_at) + e_rc(i.recovery_counts))


def e_ws(p):
    n, w = p
    return ([STEP[n]] + el(e_att, w.queue) + el(e_ip, w.in_progress) + el(e_buf, list(w.collected_events.items()))
            + el(e_w, w.collected_waiters))


def e_state(s):
    return [int(s.is_running)] + el(e_ws, list(s.workers.items()))


def e_out(name):
    if name is None:
        return [0]
    if "NoneType" in name:
        return [1]
    if name in TYSTR:
        return [2, TYSTR[name]]
    return [3]


def e_pub(ev):
    if isinstance(ev, StepStateChanged):
        st = {"preparing": 0, "running": 1, "not_running": 2}[ev.step_state.value]
        wid = [0] if ev.worker_id == "<enqueued>" else [1, int(ev.worker_id)]
        n = ev.input_event_name
        inty = TYN[n] if n in TYN else TYSTR[n]
        return [1, STEP[ev.name], st] + wid + [inty] + e_out(ev.output_event_name)
    if isinstance(ev, UnhandledEvent):
        return [3, TYN[ev.event_type]] + eo(lambda s: [STEP.get(s, 99)], ev.step_name) + [int(ev.idle)]
    if isinstance(ev, WorkflowIdleEvent):
        return [4]
    if isinstance(ev, WorkflowFailedEvent):
        return [5, STEP[ev.step_name]] + e_x(ev.exception) + [ev.attempts, int(ev.elapsed_seconds)]
    if isinstance(ev, WorkflowTimedOutEvent):
        return [6, int(ev.timeout)] + el(lambda s: [STEP[s]], ev.active_steps)
    if isinstance(ev, WorkflowCancelledEvent):
        return [7]
    return [2] + e_ev(ev)


def e_cmd(c):
    if isinstance(c, CommandRunWorker):
        return [1, STEP[c.step_name]] + e_ev(c.event) + [c.id]
    if isinstance(c, CommandQueueEvent):
        a = EventAttempt(event=c.event, attempts=c.attempts, first_attempt_at=c.first_attempt_at,
                         last_exception=c.last_exception, last_failed_at=c.last_failed_at,
                         recovery_counts=c.recovery_counts)
        return [2] + e_att(a) + eo(lambda s: [STEP[s]], c.step_name) + eo(zi, c.delay)
    if isinstance(c, CommandHalt):
        if isinstance(c.exception, WorkflowCancelledByUser):
            return [3, 0]
        msg = str(c.exception)   # "Operation timed out after T seconds. Currently active steps: a, b"
        t = int(float(msg.split("after ")[1].split(" seconds")[0]))
        act = msg.split("active steps: ")[1].split(", ") if "active steps: " in msg else []
        return [3, 1, t] + el(lambda s: [STEP[s]], act)
    if isinstance(c, CommandCompleteRun):
        return [5] if isinstance(c.result, IdleReleasedEvent) else [4] + e_ev(c.result)
    if isinstance(c, CommandFailWorkflow):
        return [6, STEP[c.step_name]] + e_x(c.exception)
    if isinstance(c, CommandPublishEvent):
        return [7] + e_pub(c.event)
    if isinstance(c, CommandScheduleIdleCheck):
        return [8]
    if isinstance(c, CommandScheduleWaiterTimeout):
        return [9, STEP[c.step_name], WID[c.waiter_id], int(c.timeout)]
    raise TypeError(c)


# ---------- Gallina printers ----------
def g_ev(e):
    enc = e_ev(e)
    n = enc[2]
    attrs = [(enc[3 + 2 * i], enc[4 + 2 * i]) for i in range(n)]
    return "{| ety := %s; eid := %s; eattrs := %s |}" % (
        gz(enc[0]), gz(enc[1]), glist("(%s,%s)" % (gz(a), gz(b)) for a, b in attrs))


def g_x(x):
    return "{| xty := %s; xmsg := %s |}" % (gz(XT.get(type(x), 0)), gz(XM.get(str(x), 0)))


def g_rc(rc):
    return glist("(%s,%s)" % (gz(STEP[k]), gz(v)) for k, v in rc.items())


def g_att(ev, att, first, exn, failed, rc):
    return "{| a_ev := %s; a_att := %s; a_first := %s; a_exn := %s; a_failed := %s; a_rc := %s |}" % (
        g_ev(ev), gopt(gz, att), gopt(gz, first), gopt(g_x, exn), gopt(gz, failed), g_rc(rc))


def g_result(r):
    if isinstance(r, StepWorkerResult):
        if r.result is None:
            return "RResult ONone"
        if isinstance(r.result, Event):
            return "RResult (OEvent %s)" % g_ev(r.result)
        return "RResult OOther"
    if isinstance(r, StepWorkerFailed):
        return "RFailed %s %s" % (g_x(r.exception), gz(r.failed_at))
    if isinstance(r, AddCollectedEvent):
        return "RAddColl %s %s" % (gz(BUF[r.event_id]), g_ev(r.event))
    if isinstance(r, DeleteCollectedEvent):
        return "RDelColl %s" % gz(BUF[r.event_id])
    if isinstance(r, AddWaiter):
        return "RAddWaiter %s %s %s %s %s" % (
            gz(WID[r.waiter_id]), gopt(g_ev, r.waiter_event),
            glist("(%s,%s)" % (gz(KEY[k]), gz(v)) for k, v in r.requirements.items()),
            gopt(gz, r.timeout), gz(TY[r.event_type]))
    if isinstance(r, DeleteWaiter):
        return "RDelWaiter %s" % gz(WID[r.waiter_id])
    raise TypeError(r)


def g_tick(t):
    if isinstance(t, TickAddEvent):
        return "TAdd %s %s" % (
            g_att(t.event, t.attempts, t.first_attempt_at, t.last_exception, t.last_failed_at, t.recovery_counts),
            gopt(lambda s: gz(STEP.get(s, 99)), t.step_name))
    if isinstance(t, TickStepResult):
        return "TStep %s %d%%nat %s %s" % (gz(STEP[t.step_name]), t.worker_id, g_ev(t.event),
                                          glist(g_result(r) for r in t.result))
    if isinstance(t, TickCancelRun):
        return "TCancel"
    if isinstance(t, TickPublishEvent):
        return "TPublish %s" % g_ev(t.event)
    if isinstance(t, TickTimeout):
        return "TTimeout %s" % gz(t.timeout)
    if isinstance(t, TickWaiterTimeout):
        return "TWaiterTimeout %s %s" % (gz(STEP.get(t.step_name, 99)), gz(WID[t.waiter_id]))
    if isinstance(t, TickIdleCheck):
        return "TIdleCheck"
    if isinstance(t, TickIdleRelease):
        return "TIdleRelease"
    raise TypeError(t)


# ---------- implementation side of the extra ops ----------
def py_roundtrip(s, cfg, scs):
    ser = s.to_serialized(SER)
    ser2 = SerializedContext.model_validate(json.loads(json.dumps(ser.model_dump())))
    return BrokerState.from_serialized(ser2, fake_workflow(cfg, scs), SER)


def e_rehydrate(ticks):
    return el(lambda t: [STEP[t.step_name]] + e_ev(t.event), ticks)


def reduce_expect(fn):
    """run an implementation reducer call; map exceptions to the model's error codes"""
    try:
        s2, cmds = fn()
        return s2, cmds, [0] + e_state(s2) + el(e_cmd, cmds)
    except ValueError:
        return None, None, [-1, 2]
    except KeyError:
        return None, None, [-1, 4]
    except RuntimeError as ex:
        if str(ex) == "policy bug":
            return None, None, [-1, 3]
        raise


class Cov:
    def __init__(self):
        self.c = {}

    def hit(self, k, n=1):
        self.c[k] = self.c.get(k, 0) + n


def tick_json_roundtrip(t):
    """ticks travel through the persisted tick format in the real server; use the round-tripped
    tick half of the time so the model is also tied to what replay sees"""
    return WorkflowTickAdapter.validate_python(json.loads(json.dumps(WorkflowTickAdapter.dump_python(t, mode="json"))))


# ---------- history generator ----------
def gen_history(rng, nticks, cov, malformed=False):
    cfg = gen_config(rng)
    s, scs = py_state(cfg)
    names = list(cfg["steps"])
    now = rng.choice([0, 100])
    eid = itertools.count(1)
    ops, pending, log = [], [], []
    s0 = s
    py_ticks = []
    monitor = []   # (kind, before_state, tick, after_state, commands) for implementation-side monitors

    def newev(cls=None):
        cls = cls or rng.choice([T1, T2, T3, T4, HR, U6, IR, T1, T2, T3])
        kw = {"i": next(eid)}
        if rng.random() < 0.4:
            kw["k"] = rng.choice([5, 6])
        return cls(**kw)

    def out():
        x = rng.random()
        if x < 0.25:
            return StepWorkerResult(result=None)
        if x < 0.32:
            return StepWorkerResult(result=rng.choice([StopEvent, MyStop])(i=next(eid)))
        return StepWorkerResult(result=newev())

    for _ in range(nticks):
        now += rng.choice([0, 1, 5])
        ips = [(nm, ip) for nm, w in s.workers.items() for ip in w.in_progress]
        r = rng.random()
        # ---- extra (non-tick) ops
        if r < 0.04:
            sr, cr, exp = reduce_expect(lambda: CL.rewind_in_progress(s, float(now)))
            ops.append("ORewindPeek %s %s" % (gz(now), glist(gz(z) for z in exp)))
            cov.hit("rewind_peek")
            if sr is not None:
                monitor.append(("rewind", s, sr, cr, cfg))
                if any(ip.attempts for w in s.workers.values() for ip in w.in_progress):
                    cov.hit("rewind_peek_with_retry_in_progress")
            continue
        if r < 0.08:
            s2 = py_roundtrip(s, cfg, scs)
            rh = s2.rehydrate_with_ticks()
            exp = e_state(s2) + e_rehydrate(rh)
            ops.append("OSerde %s" % glist(gz(z) for z in exp))
            cov.hit("serde")
            monitor.append(("serde", s, s2, py_roundtrip(s2, cfg, scs), cfg))
            if rh:
                cov.hit("serde_rehydrate_ticks")
            if any(w.in_progress for w in s.workers.values()):
                cov.hit("serde_with_in_progress")
            continue
        if r < 0.11 and len(ops) > 3:
            s2 = py_roundtrip(s, cfg, scs)
            s3, cmds, exp = reduce_expect(lambda: CL.rewind_in_progress(s2, float(now)))
            ops.append("OResume %s %s" % (gz(now), glist(gz(z) for z in exp)))
            cov.hit("resume")
            if s3 is None:
                break
            s0, s, py_ticks = s2, s3, []
            pending = [p for p in pending if not isinstance(p, (TickStepResult,))]
            for t in s2.rehydrate_with_ticks():
                pending.append(t)
            continue
        if r < 0.15:
            try:
                rb = CL.rebuild_state_from_ticks(s0, list(py_ticks))
                exp = [0] + e_state(rb)
                # C11 monitor: live state == rebuilt state, timestamps aside
                monitor.append(("rebuild", s, rb, cfg))
            except RuntimeError as ex:
                if str(ex) != "policy bug":
                    raise
                exp = [-1, 3]
            except ValueError as ex:
                exp = [-1, 2]
                monitor.append(("rebuild-error", s, repr(ex), cfg))
            except KeyError as ex:
                exp = [-1, 4]
                monitor.append(("rebuild-error", s, repr(ex), cfg))
            ops.append("ORebuild %s %s" % (gz(REBUILD_NOW), glist(gz(z) for z in exp)))
            cov.hit("rebuild")
            continue
        if r < 0.17:
            ops.append("OIdle %s" % gbool(CL._check_idle_state(s)))
            continue
        # ---- ticks
        r = rng.random()
        if pending and rng.random() < 0.55:
            t = pending.pop(rng.randrange(len(pending)))
            cov.hit("feedback_tick")
        elif not s.is_running and r < 0.5:
            t = TickAddEvent(event=rng.choice([StartEvent, StartEvent, MyStart])(i=next(eid)))
        elif ips and r < 0.62:
            nm, ip = rng.choice(ips)
            # result lists have the shape the step wrapper produces: a prefix of collect/waiter bookkeeping results
            # recorded while the body ran, then exactly one terminal: a result, a new waiter (suspended in
            # wait_for_event) or a failure
            def add_waiter():
                req = {"k": rng.choice([5, 6])} if rng.random() < 0.5 else {}
                return AddWaiter(waiter_id=rng.choice(["w1", "w2"]), requirements=req,
                                 timeout=rng.choice([None, 30.0]), event_type=rng.choice([HR, T3]),
                                 waiter_event=rng.choice([None, IR(i=next(eid))]))

            def failed():
                return StepWorkerFailed(exception=rng.choice([ValueError("m1"), RuntimeError("m2"), ValueError("boom")]),
                                        failed_at=float(now + rng.choice([0, 2, 6])))
            k = rng.random()
            if k < 0.26:
                res = [out()]
            elif k < 0.44:
                res = [failed()]
            elif k < 0.56:
                # (a collecting invocation that returns None - or, less often, an event - on an incomplete set)
                bid = rng.choice(["default", "x"])
                # (prefer an invocation whose snapshot of that buffer is stale, when there is one)
                cands = [(n2, ip2, b2) for (n2, ip2) in ips for b2 in ("default", "x")
                         if len(s.workers[n2].collected_events.get(b2, [])) > len(ip2.shared_state.collected_events.get(b2, []))]
                if cands and rng.random() < 0.6:
                    nm, ip, bid = rng.choice(cands)
                stale = len(s.workers[nm].collected_events.get(bid, [])) > len(ip.shared_state.collected_events.get(bid, []))
                res = [AddCollectedEvent(event_id=bid, event=ip.event),
                       StepWorkerResult(result=None if rng.random() < (0.35 if stale else 0.7) else newev())]
                if res[1].result is not None:
                    cov.hit("collect_with_returned_event")
                    if stale:
                        cov.hit("stale_collect_with_returned_event")
                elif stale and rng.random() < 0.45:
                    res = [res[0], failed()]
                    cov.hit("stale_collect_then_failure")
            elif k < 0.62:
                res = [DeleteCollectedEvent(event_id=rng.choice(["default", "x"])), out()]
            elif k < 0.74:
                res = [add_waiter()]
            elif k < 0.80:
                res = [DeleteWaiter(waiter_id=rng.choice(["w1", "w2"])), out()]
            elif k < 0.85:
                res = [AddCollectedEvent(event_id="x", event=ip.event),
                       AddCollectedEvent(event_id="default", event=ip.event), StepWorkerResult(result=None)]
            else:
                # mixed prefixes with every kind of terminal (e.g. a first wait consumed, suspended in a second one;
                # a completed collection followed by a failure)
                prefix = []
                for _ in range(rng.choice([1, 1, 2])):
                    c = rng.random()
                    if c < 0.4:
                        prefix.append(DeleteWaiter(waiter_id=rng.choice(["w1", "w2"])))
                    elif c < 0.7:
                        prefix.append(DeleteCollectedEvent(event_id=rng.choice(["default", "x"])))
                    else:
                        prefix.append(AddCollectedEvent(event_id=rng.choice(["default", "x"]), event=ip.event))
                term = rng.choice([add_waiter, add_waiter, failed, out])()
                res = prefix + [term]
                # (a collecting invocation with a STALE snapshot that fails: its re-run and its retry meet in one tick)
                cands2 = [(n2, ip2, b2) for (n2, ip2) in ips for b2 in ("default", "x")
                          if len(s.workers[n2].collected_events.get(b2, [])) > len(ip2.shared_state.collected_events.get(b2, []))]
                if cands2 and rng.random() < 0.5:
                    nm, ip, b2 = rng.choice(cands2)
                    res = [AddCollectedEvent(event_id=b2, event=ip.event), failed()]
                    cov.hit("stale_collect_then_failure")
                cov.hit("mixed_result_list")
                if any(isinstance(x, DeleteWaiter) for x in prefix) and isinstance(term, AddWaiter):
                    cov.hit("delete_waiter_then_new_waiter")
            t = TickStepResult(step_name=nm, worker_id=ip.worker_id, event=ip.event, result=res)
        elif r < 0.85:
            t = TickAddEvent(event=newev(), step_name=rng.choice([None, None, None] + names + ["zz"]))
        elif r < 0.88:
            t = TickWaiterTimeout(step_name=rng.choice(names + ["zz"]), waiter_id=rng.choice(["w1", "w2"]))
        elif r < 0.91:
            t = TickIdleCheck()
        elif r < 0.93:
            t = TickPublishEvent(event=newev())
        elif r < 0.95:
            t = TickCancelRun()
        elif r < 0.96:
            t = TickTimeout(timeout=45.0)
        elif r < 0.97:
            t = TickIdleRelease()
        elif malformed:
            t = TickStepResult(step_name=rng.choice(names), worker_id=rng.choice([0, 1, 5]), event=newev(T1),
                               result=[StepWorkerResult(result=None)])
            cov.hit("malformed")
        else:
            continue
        if rng.random() < 0.5:
            t = tick_json_roundtrip(t)
        before = s
        s2, cmds, exp = reduce_expect(lambda: CL._reduce_tick(t, s, float(now), run_id="r"))
        ops.append("OTick (%s) %s %s" % (g_tick(t), gz(now), glist(gz(z) for z in exp)))
        cov.hit("ticks")
        cov.hit("tick_" + type(t).__name__)
        if s2 is None:
            cov.hit("reducer_error")
            break
        py_ticks.append(t)
        monitor.append(("tick", before, t, s2, cmds, now))
        s = s2
        for w in s.workers.values():
            if w.queue and len(w.in_progress) == w.config.num_workers:
                cov.hit("queue_at_capacity")
        for c in cmds:
            if isinstance(c, CommandQueueEvent):
                if c.attempts:
                    cov.hit("retry_queued")
                if c.delay:
                    cov.hit("retry_with_delay")
                if isinstance(c.event, StepFailedEvent):
                    cov.hit("routed_to_handler")
                pending.append(TickAddEvent(event=c.event, step_name=c.step_name, attempts=c.attempts,
                                            first_attempt_at=c.first_attempt_at, last_exception=c.last_exception,
                                            last_failed_at=c.last_failed_at,
                                            recovery_counts=dict(c.recovery_counts)))
            elif isinstance(c, CommandScheduleWaiterTimeout):
                pending.append(TickWaiterTimeout(step_name=c.step_name, waiter_id=c.waiter_id))
                cov.hit("waiter_timeout_scheduled")
            elif isinstance(c, CommandScheduleIdleCheck):
                pending.append(TickIdleCheck())
            elif isinstance(c, CommandFailWorkflow):
                cov.hit("fail_workflow")
            elif isinstance(c, CommandCompleteRun):
                cov.hit("complete_run")
            elif isinstance(c, CommandRunWorker) and isinstance(t, TickStepResult) and c.id == t.worker_id \
                    and c.step_name == t.step_name and any(isinstance(x, AddCollectedEvent) for x in t.result):
                cov.hit("collect_rerun")
        if isinstance(t, TickAddEvent) and any(
                wt.resolved_event is not None for w in s.workers.values() for wt in w.collected_waiters):
            cov.hit("waiter_resolved")
    coq = "fst (run_ops %s %s %s [] %s 1)" % (g_policy(cfg["pols"]), g_state(cfg), g_state(cfg), glist(ops))
    return dict(cfg=cfg, ops=ops, coq=coq, monitor=monitor, nops=len(ops))


def detail_term(h):
    """Coq term returning the model's encoding at the first disagreeing op (for replay files)."""
    return h["coq"].replace("fst (run_ops", "snd (run_ops", 1)


def describe_cfg(cfg):
    return dict(steps={n: dict(accepts=[c.__name__ for c in s["accepts"]], num_workers=s["nw"], policy=s["pol"])
                       for n, s in cfg["steps"].items()},
                policies=cfg["pols"], handlers=cfg["handlers"], handler_for=cfg["handler_for"])


def run_suite(ctx, nhist, malformed_frac=0.15, shard=40):
    """Generate histories, evaluate them in Coq, return (histories, bad indices, coverage)."""
    rng = random.Random(ctx.seed * 7919 + 13)
    cov = Cov()
    hs = []
    for i in range(nhist):
        hs.append(gen_history(rng, rng.randint(10, 60), cov, malformed=(rng.random() < malformed_frac)))
    res = ctx.run_cases("reducer", HEADER, [h["coq"] for h in hs], shard=shard)
    bad = [i for i, z in enumerate(res) if z != 0]
    for i in bad:
        hs[i]["first_bad_op"] = res[i]
    ctx.suite("reducer", histories=nhist, ops=sum(h["nops"] for h in hs), disagreements=len(bad), coverage=cov.c)
    return hs, bad, cov
