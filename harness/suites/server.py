"""L3 correspondence suite `server`: the real runtime decorator chain
ServerRuntimeDecorator(IdleReleaseDecorator(PersistenceDecorator(BasicRuntime(), store), store, idle), store)
+ _WorkflowService on MemoryWorkflowStore / SqliteWorkflowStore, driven under the virtual-time loop, versus
Model/ServerPersist.v on top of Model/Engine.v (C13, C15).

What is observed on the implementation: every tick the live control loop hands to `_reduce_tick` (with its
`now`), every store call that writes handler state / events (through a fault-injecting store subclass, which
is a legal AbstractWorkflowStore), how the run task ended, the stored handler record, the persisted tick log.
The same history is folded through the model (`drive` in Model/ServerPersistEnc.v) and compared inside Coq."""
import asyncio
import json
import os
import re
import typing

import boot  # noqa: F401

boot.enable_server()
import vloop  # noqa: E402
import core  # noqa: E402
from core import gz, glist, gbool  # noqa: E402
from suites import reducer as R  # noqa: E402
from suites.wfevents import T1, T2, T3, HR, MyStop  # noqa: E402
from workflows import Context, Workflow, step  # noqa: E402
from workflows.decorators import catch_error  # noqa: E402
from workflows.errors import WorkflowCancelledByUser, WorkflowTimeoutError  # noqa: E402
from workflows.events import StartEvent, StepFailedEvent, StopEvent  # noqa: E402
from workflows.plugins.basic import BasicRuntime  # noqa: E402
from workflows.runtime import control_loop as CL  # noqa: E402
from workflows.runtime.types.internal_state import BrokerState  # noqa: E402
from workflows.runtime.types.results import StepWorkerResult  # noqa: E402
from workflows.runtime.types.ticks import TickStepResult, WorkflowTickAdapter  # noqa: E402
from workflows.context.serializers import JsonSerializer  # noqa: E402
from llama_agents.server._runtime import idle_release_runtime as _m1, server_runtime as _m4  # noqa: E402
from llama_agents.server._runtime.idle_release_runtime import IdleReleaseDecorator  # noqa: E402
from llama_agents.server._runtime.persistence_runtime import PersistenceDecorator  # noqa: E402
from llama_agents.server._runtime.server_runtime import ServerRuntimeDecorator  # noqa: E402
from llama_agents.server._service import _WorkflowService  # noqa: E402
from llama_agents.server._store import abstract_workflow_store as _m2, memory_workflow_store as _m3  # noqa: E402
from llama_agents.server._store.abstract_workflow_store import HandlerQuery  # noqa: E402
from llama_agents.server._store.memory_workflow_store import MemoryWorkflowStore  # noqa: E402
from llama_agents.server._store.sqlite import sqlite_workflow_store as _m5  # noqa: E402
from llama_agents.server._store.sqlite.sqlite_workflow_store import SqliteWorkflowStore  # noqa: E402

vloop.patch_datetime(_m1, _m2, _m3, _m4, _m5)

HEADER = R.HEADER + "From WF Require Import Model.ServerPersist Model.ServerPersistEnc.\n"
BACKOFF = [1, 2]          # integral so that the virtual timeline stays integral
NOW_REPLAY = R.REBUILD_NOW  # reducer.py pins control_loop's time.time() (used by replay only) to this value


class Boom(Exception):
    """The injected store fault."""


# ------------------------------------------------------------------------------------------------
# observation of the live control loop (no change of behaviour: the original function is called)
# ------------------------------------------------------------------------------------------------
class Trace:
    def __init__(self):
        self.ops = []          # ("start",) | ("tick", tick, now) | ("send",) | ("release",) | ("serverstart", ticks)
        self.enabled = False


TRACE = Trace()
if not hasattr(CL, "_reduce_tick"):
    raise core.CheckError("control_loop._reduce_tick is gone: the server suite cannot observe the live loop")
_orig_reduce = CL._reduce_tick


def _recording_reduce(tick, init, now_seconds, run_id=None):
    if run_id is not None and TRACE.enabled:
        TRACE.ops.append(("tick", tick, now_seconds))
    return _orig_reduce(tick, init, now_seconds, run_id) if run_id is not None else _orig_reduce(tick, init, now_seconds)


CL._reduce_tick = _recording_reduce


# ------------------------------------------------------------------------------------------------
# fault-injecting / crash-simulating stores
# ------------------------------------------------------------------------------------------------
def _kind_of_event(type_name):
    return {"StepStateChanged": 1, "UnhandledEvent": 3, "WorkflowIdleEvent": 4, "WorkflowFailedEvent": 5,
            "WorkflowTimedOutEvent": 6, "WorkflowCancelledEvent": 7}.get(type_name, 2)


ST = {"running": 0, "completed": 1, "failed": 2, "cancelled": 3}


def faulty(base):
    class Faulty(base):
        """plan: {"status": [bool], "event": [bool], "idle": [bool]}, True = this attempt raises.
        limit: freeze (simulate process death) right after the limit-th persisted tick: later writes are dropped."""

        def setup(self, plan=None, limit=None):
            self.plan = {k: list(v) for k, v in (plan or {}).items()}
            self.calls = []        # model-comparable trace
            self.rows = []         # (handler_id, status) actually written, for the sticky monitor
            self.limit = limit
            self.frozen = False
            self.nticks = 0
            self._nested = 0
            return self

        def _pop(self, stream):
            p = self.plan.get(stream) or []
            return p.pop(0) if p else False

        async def update_handler_status(self, run_id, **kw):
            if self.frozen:
                return
            status = kw.get("status")
            if "idle_since" in kw:
                is_set = kw["idle_since"] is not None
                bad = self._pop("idle")
                self.calls.append((4, int(is_set), int(not bad)))
                if bad:
                    raise Boom("idle")
            else:
                bad = self._pop("status")
                self.calls.append((2, ST[status], int(not bad)))
                if bad:
                    raise Boom("status")
            self._nested += 1
            try:
                await super().update_handler_status(run_id, **kw)
            finally:
                self._nested -= 1

        async def update(self, handler):
            if self.frozen:
                return
            if not self._nested:
                bad = self._pop("status")
                self.calls.append((1, int(not bad)))
                if bad:
                    raise Boom("status")
            self.rows.append((handler.handler_id, handler.status))
            await super().update(handler)

        async def append_event(self, run_id, event):
            if self.frozen:
                return
            bad = self._pop("event")
            self.calls.append((3, _kind_of_event(event.type), int(not bad)))
            if bad:
                raise Boom("append_event")
            await super().append_event(run_id, event)

        async def append_tick(self, run_id, tick_data):
            if self.frozen:
                return
            await super().append_tick(run_id, tick_data)
            self.nticks += 1
            if self.limit is not None and self.nticks >= self.limit:
                self.frozen = True

    return Faulty


FaultyMemory = faulty(MemoryWorkflowStore)
FaultySqlite = faulty(SqliteWorkflowStore)


def make_store(kind, scratch, name, plan=None, limit=None):
    if kind == "memory":
        return FaultyMemory().setup(plan, limit)
    os.makedirs(scratch, exist_ok=True)
    return FaultySqlite(os.path.join(scratch, name + ".sqlite")).setup(plan, limit)


def reopen_store(kind, old):
    """A new process on the same persisted data."""
    if kind == "memory":
        s = FaultyMemory().setup()
        s.handlers, s.events, s.ticks, s.state_stores = old.handlers, old.events, old.ticks, old.state_stores
        return s
    return FaultySqlite(old.db_path).setup()


def chain(store, idle_timeout=1000.0):
    pers = PersistenceDecorator(BasicRuntime(), store=store)
    rt = ServerRuntimeDecorator(IdleReleaseDecorator(pers, store=store, idle_timeout=idle_timeout),
                                store=store, persistence_backoff=list(BACKOFF))
    svc = _WorkflowService(rt, store)
    svc._persistence = pers      # harness handle on the PersistenceDecorator of this chain
    return rt, svc


# ------------------------------------------------------------------------------------------------
# generated workflows (deterministic payloads: a child's id is a function of its parent's id)
# ------------------------------------------------------------------------------------------------
EXN = {"value": ValueError, "runtime": RuntimeError}
CLS = {"T1": T1, "T2": T2, "T3": T3, "HR": HR, "StopEvent": StopEvent, "MyStop": MyStop, "StartEvent": StartEvent,
       "StepFailedEvent": StepFailedEvent, "None": type(None)}


def make_body(name, acts, log):
    async def body(self, ctx, ev):
        i = ev.get("i", 0) if not isinstance(ev, StepFailedEvent) else ev.input_event.get("i", 0)
        log.append(("enter", name, i))
        rinfo = None
        try:
            rinfo = ctx.retry_info()
        except Exception:  # noqa: BLE001
            pass
        for a in acts:
            op = a[0]
            if op == "sleep":
                await asyncio.sleep(a[1] + (i % 3 if a[2] else 0))
            elif op == "fail_first":
                if rinfo is not None and rinfo.retry_number < a[1]:
                    raise EXN[a[2]](a[3])
            elif op == "raise":
                raise EXN[a[1]](a[2])
            elif op == "send":
                for j in range(1, a[2] + 1):
                    # ("send", cls, n, "same"): n events with IDENTICAL payload (they serialize identically)
                    e = CLS[a[1]](i=i * 10 + (1 if len(a) > 3 and a[3] == "same" else j))
                    log.append(("send", name, CLS[a[1]].__name__, e.i))
                    ctx.send_event(e)
            elif op == "wait":
                await ctx.wait_for_event(HR, waiter_id="w1", requirements=dict(a[1]), timeout=a[2])
            elif op == "collect":
                got = ctx.collect_events(ev, [CLS[a[1]]] * a[2])
                if got is None:
                    return None
                i = sum(x.get("i", 0) for x in got)
            elif op == "ret":
                cls = CLS[a[1]]
                if issubclass(cls, StopEvent):
                    return cls(result=i * 10 + 7, i=i * 10 + 7)
                return cls(i=i * 10 + 1)
            elif op == "retnone":
                return None
        return None

    return body


def build_workflow(spec, log):
    ns = {}
    pols = {pid: (R.Pol if pid % 2 else R.PolNoSeed)(pid, s) for pid, s in spec.get("pols", {}).items()}
    for name, s in spec["steps"].items():
        fn = make_body(name, s["body"], log)
        fn.__name__ = name
        fn.__qualname__ = "SrvWF." + name
        acc = [CLS[c] for c in s["accepts"]]
        ret = [CLS[c] for c in s["returns"]]
        fn.__annotations__ = {"ctx": Context, "ev": typing.Union[tuple(acc)] if len(acc) > 1 else acc[0],
                              "return": typing.Union[tuple(ret)] if len(ret) > 1 else ret[0]}
        ns[name] = step(num_workers=s.get("nw", 1), retry_policy=pols.get(s.get("pol")))(fn)
    for name, h in spec.get("handlers", {}).items():
        fn = make_body(name, h["body"], log)
        fn.__name__ = name
        fn.__qualname__ = "SrvWF." + name
        ret = [CLS[c] for c in h["returns"]]
        fn.__annotations__ = {"ctx": Context, "ev": StepFailedEvent,
                              "return": typing.Union[tuple(ret)] if len(ret) > 1 else ret[0]}
        ns[name] = catch_error(for_steps=h.get("for_steps"), max_recoveries=h.get("max", 1))(fn)
    cls = type("SrvWF", (Workflow,), ns)
    wf = cls(timeout=spec.get("timeout"))
    return wf


def cfg_of(wf, spec):
    """The reducer-suite style configuration, read back from the REAL BrokerState.from_workflow."""
    wf._validate()
    st = BrokerState.from_workflow(wf)
    steps = {}
    for n, c in st.config.steps.items():
        if n not in R.STEP:
            raise core.CheckError("step name %r has no code" % n)
        pid = getattr(c.retry_policy, "pid", None)
        steps[n] = dict(accepts=list(c.accepted_events), nw=c.num_workers, pol=pid)
    handlers = {h: (list(x.for_steps or []), x.max_recoveries) for h, x in st.config.catch_error_handlers.items()}
    return dict(steps=steps, pols=dict(spec.get("pols", {})), handlers=handlers,
                handler_for=dict(st.config.handler_for_step))


# ------------------------------------------------------------------------------------------------
# encoders of the implementation's observations (mirror Model/ServerPersistEnc.v)
# ------------------------------------------------------------------------------------------------
def e_err(s):
    if s is None:
        return [0]
    m = re.match(r"Workflow timed out after ([\d.]+)s$", s)
    if m:
        return [1, 2, int(float(m.group(1)))]
    m = re.match(r"Operation timed out after ([\d.]+) seconds", s)
    if m:
        return [1, 3, int(float(m.group(1)))]
    if s == "WorkflowCancelledByUser":
        return [1, 4]
    if s in ("status", "append_event", "idle"):
        return [1, 5]
    if s == "policy bug":
        return [1, 6, 3]
    if re.match(r"Worker \d+ not found in in_progress", s):
        return [1, 6, 2]
    if s == "handler crashed before persisting any state; cannot resume":
        return [1, 7]
    return [1, 1, R.XM.get(s, 0)]


def _as_int(v):
    return int(v) if isinstance(v, (int, float)) and not isinstance(v, bool) else -1


def e_record(h):
    if h is None:
        return [0]
    res = [0] if h.result is None else [1, _as_int(getattr(h.result, "result", None))]
    return [1, ST[h.status]] + res + e_err(h.error) + [int(h.idle_since is not None)]


def e_outcome(o):
    """o: None (still running / aborted) | ("result", StopEvent) | ("exc", exception)"""
    if o is None:
        return [0]
    if o[0] == "result":
        return [1, _as_int(getattr(o[1], "result", None))]
    ex = o[1]
    if isinstance(ex, WorkflowCancelledByUser):
        return [4]
    if isinstance(ex, WorkflowTimeoutError):
        return [3, int(float(str(ex).split("after ")[1].split(" seconds")[0]))]
    if isinstance(ex, Boom):
        return [6]
    if isinstance(ex, RuntimeError) and str(ex) == "policy bug":
        return [7, 3]
    if isinstance(ex, ValueError) and re.match(r"Worker \d+ not found", str(ex)):
        return [7, 2]
    if isinstance(ex, KeyError):
        return [7, 4]
    return [2, R.XM.get(str(ex), 0)]


def outcome_is_command_exit(o):
    return o is not None and e_outcome(o)[0] in (1, 2, 3, 4)


def e_calls(calls):
    st = [c for c in calls if c[0] in (1, 2)]
    ap = [c for c in calls if c[0] == 3]
    idl = [c for c in calls if c[0] == 4]
    out = []
    for grp in (st, ap, idl):
        out.append(len(grp))
        for c in grp:
            out += list(c)
    return out


def g_faults(plan):
    return "{| f_status := %s; f_event := %s; f_idle := %s |}" % tuple(
        glist(gbool(b) for b in plan.get(k, [])) for k in ("status", "event", "idle"))


def g_ops(ops):
    out = []
    for o in ops:
        if o[0] == "start":
            out.append("HStart")
        elif o[0] == "tick":
            now = o[2]
            if float(now) != int(now):
                raise core.CheckError("non-integral virtual time %r in a server case" % (now,))
            out.append("HTick (%s) %s" % (R.g_tick(o[1]), gz(int(now))))
        elif o[0] == "send":
            out.append("HSend")
        elif o[0] == "release":
            out.append("HRelease")
        elif o[0] == "serverstart":
            out.append("HServerStart %s %s" % (glist("(%s)" % R.g_tick(t) for t in o[1]), gz(NOW_REPLAY)))
        else:
            raise core.CheckError("unknown op %r" % (o,))
    return glist(out)


def tolerable(stream, bo=len(BACKOFF)):
    run = 0
    for b in stream:
        run = run + 1 if b else 0
        if run > bo:
            return False
    return True


# ------------------------------------------------------------------------------------------------
# one server run
# ------------------------------------------------------------------------------------------------
class Obs:
    pass


async def _await(run, box):
    try:
        box.append(("result", await run.stop_event_result()))
    except asyncio.CancelledError:
        box.append(None)
    except BaseException as ex:  # noqa: BLE001
        box.append(("exc", ex))


async def _get(store, hid="h1"):
    found = await store.query(HandlerQuery(handler_id_in=[hid]))
    return found[0] if found else None


async def persisted_ticks(store, run_id):
    return [WorkflowTickAdapter.validate_python(t.tick_data) for t in await store.get_ticks(run_id)]


async def _externals(svc, rt, store, spec, run_id, pending, box, horizon, log_len):
    """Let virtual time pass in 1 s steps; whenever the run made no progress for 3 s and is still running,
    perform the next external action."""
    quiet, last = 0, -1
    for _ in range(horizon):
        await asyncio.sleep(1)
        h = await _get(store)
        if box or h is None or h.status != "running" or getattr(store, "frozen", False):
            return
        n = log_len()
        quiet = quiet + 1 if n == last else 0
        last = n
        if quiet >= 3 and pending:
            act = pending.pop(0)
            quiet = 0
            if act[0] != "cancel":
                # the run is quiescent: the call below reaches IdleReleaseExternalRunAdapter.send_event before any
                # tick.  (cancel() is forwarded to the inner adapter's cancel and never passes through send_event.)
                TRACE.ops.append(("send",))
            try:
                if act[0] == "hr":
                    await svc.send_event("h1", HR(i=900 + act[1], k=act[1]))
                elif act[0] == "cancel":
                    await svc.cancel_handler("h1")
                elif act[0] == "bad_tick":
                    await rt.get_external_adapter(run_id).send_event(
                        TickStepResult(step_name="a", worker_id=7, event=T1(i=5), result=[StepWorkerResult(result=None)]))
            except Exception:  # noqa: BLE001  (EventSendError when the injected idle write fails: the caller's problem)
                pass


def run_case(spec, plan, kind, scratch, name="c"):
    """One fresh handler, one run, with injected store faults.  Returns Obs."""
    obs = Obs()
    body_log = []

    async def main():
        store = make_store(kind, scratch, name, plan)
        rt, svc = chain(store)
        wf = build_workflow(spec, body_log)
        obs.cfg = cfg_of(wf, spec)
        wf._switch_workflow_name("w")
        wf._switch_runtime(rt)
        await svc.start()
        TRACE.ops, TRACE.enabled = [("start",)], True
        box = []
        try:
            try:
                hd = await svc.start_workflow(wf, "h1", start_event=StartEvent(i=1))
            except Boom:
                hd = None
            if hd is not None:
                run = svc._workflow_run_handler("w", hd.run_id)
                waiter = asyncio.ensure_future(_await(run, box))
                await _externals(svc, rt, store, spec, hd.run_id, list(spec.get("externals", [])), box,
                                 spec.get("horizon", 60), lambda: len(TRACE.ops))
                await asyncio.sleep(12)     # room for back-off sleeps of the watcher's write
                if not waiter.done():
                    waiter.cancel()
                await asyncio.gather(waiter, return_exceptions=True)
            obs.outcome = box[0] if box else None
            obs.record = await _get(store)
            obs.ticks = await persisted_ticks(store, hd.run_id) if hd is not None else []
        finally:
            TRACE.enabled = False
            obs.ops = list(TRACE.ops)
            obs.calls = list(store.calls)
            obs.rows = list(store.rows)
            await svc.stop()

    vloop.run(main())
    obs.body_log = body_log
    obs.expect = [0] + e_record(obs.record) + e_outcome(obs.outcome) + e_calls(obs.calls)
    return obs


def coq_case(obs, plan):
    return "server_case %s %d%%nat %s %s %s %s" % (
        R.g_policy(obs.cfg["pols"]), len(BACKOFF), R.g_state(obs.cfg), g_faults(plan), g_ops(obs.ops),
        glist(gz(z) for z in obs.expect))


def coq_detail(obs, plan):
    return "server_detail %s %d%%nat %s %s %s" % (
        R.g_policy(obs.cfg["pols"]), len(BACKOFF), R.g_state(obs.cfg), g_faults(plan), g_ops(obs.ops))


# ------------------------------------------------------------------------------------------------
# spec generators
# ------------------------------------------------------------------------------------------------
def gen_policy(rng, raise_on=None):
    return dict(raise_on=raise_on, skip_runtime=False, max_elapsed=None, delay=rng.choice([0, 0, 1, 2]),
                max_failures=rng.choice([1, 2, 3]))


def gen_spec(rng, want=None):
    """want: one of success, stepfail, handler, timeout, cancel, engine_policy, engine_tick, wait, fan (None = random)"""
    want = want or rng.choice(["success", "success", "stepfail", "handler", "timeout", "cancel", "engine_policy",
                               "engine_tick", "wait", "fan"])
    stop = rng.choice(["StopEvent", "StopEvent", "MyStop"])
    pols, handlers, externals, timeout = {}, {}, [], None
    a = dict(accepts=["StartEvent"], returns=["T1"], nw=1, body=[("ret", "T1")])
    b = dict(accepts=["T1"], returns=["T2"], nw=rng.choice([1, 2]), body=[("sleep", rng.choice([0, 0, 1, 2]), False),
                                                                          ("ret", "T2")])
    c = dict(accepts=["T2"], returns=[stop], nw=1, body=[("ret", stop)])
    if want == "success":
        if rng.random() < 0.5:
            pols[1] = gen_policy(rng)
            pols[1]["max_failures"] = 3
            b["pol"] = 1
            b["body"] = [("fail_first", rng.choice([1, 2]), "value", "m1")] + b["body"]
    elif want == "stepfail":
        if rng.random() < 0.6:
            pols[1] = gen_policy(rng)
            b["pol"] = 1
        b["body"] = [("sleep", rng.choice([0, 1]), False), ("raise", rng.choice(["value", "runtime"]), rng.choice(["m1", "m2"]))]
    elif want == "handler":
        b["body"] = [("raise", "value", "m1")]
        recover = rng.random() < 0.5
        handlers["h"] = dict(for_steps=["b"] if rng.random() < 0.5 else None, max=rng.choice([1, 2]), returns=[stop],
                             body=[("ret", stop)] if recover else [("raise", "runtime", "m2")])
    elif want == "timeout":
        timeout = rng.choice([5, 10])
        b["body"] = [("sleep", 30, False), ("ret", "T2")]
    elif want == "cancel":
        a = dict(accepts=["StartEvent"], returns=["T1"], nw=1, body=[("wait", {"k": 5}, None), ("ret", "T1")])
        externals = [("cancel",)]
    elif want == "engine_policy":
        pols[1] = gen_policy(rng, raise_on="boom")
        b["pol"] = 1
        b["body"] = [("raise", "value", "boom")]
    elif want == "engine_tick":
        a = dict(accepts=["StartEvent"], returns=["T1"], nw=1, body=[("wait", {"k": 5}, None), ("ret", "T1")])
        externals = [("bad_tick",)]
    elif want == "wait":
        a = dict(accepts=["StartEvent"], returns=["T1"], nw=1,
                 body=[("wait", {"k": 5}, rng.choice([None, 40])), ("ret", "T1")])
        externals = [("hr", 5)] if rng.random() < 0.8 else [("hr", 6), ("hr", 5)]
    elif want in ("fan", "fansame"):
        n = rng.choice([2, 3])
        same = want == "fansame" or rng.random() < 0.4      # a fan-out of events with identical payload
        a = dict(accepts=["StartEvent"], returns=["T1", "None"], nw=1,
                 body=[("send", "T1", n, "same") if same else ("send", "T1", n), ("retnone",)])
        b = dict(accepts=["T1"], returns=["T2"], nw=rng.choice([1, 2, 3]), body=[("sleep", 1, True), ("ret", "T2")])
        c = dict(accepts=["T2"], returns=[stop, "None"], nw=1, body=[("collect", "T2", n), ("ret", stop)])
    spec = dict(kind=want, steps={"a": a, "b": b, "c": c}, pols=pols, handlers=handlers, timeout=timeout,
                externals=externals, horizon=70)
    return spec


def gen_plan(rng):
    """Fault streams: runs of failures of length 0..4 on the status class (back-off tolerates 2), rare single
    failures on the unretried classes."""
    r = rng.random()
    if r < 0.25:
        return {}
    if r < 0.40:
        # every write is hit by a tolerable burst (at most len(BACKOFF) failures in a row, then success): the retry
        # budget is per write, so the bursts of earlier writes must not eat into the budget of later ones
        status = []
        for _ in range(rng.choice([2, 3, 4])):
            status += [True] * rng.choice([1, 2, 2]) + [False]
        return {"status": status}
    status = [False] if rng.random() < 0.85 else []      # mostly let the initial record through
    for _ in range(rng.choice([1, 2, 3])):
        status += [False] * rng.choice([0, 0, 1, 2]) + [True] * rng.choice([1, 2, 2, 3, 3, 4])
    plan = {"status": status if rng.random() < 0.8 else []}
    if rng.random() < 0.2:
        plan["event"] = [False] * rng.choice([0, 1, 2, 3, 5, 7]) + [True]
    if rng.random() < 0.15:
        plan["idle"] = [False] * rng.choice([0, 0, 1]) + [True]
    return plan


def describe(spec):
    return json.loads(json.dumps(dict(kind=spec["kind"], steps=spec["steps"], pols=spec["pols"],
                                      handlers=spec["handlers"], timeout=spec["timeout"],
                                      externals=spec["externals"]), default=str))


# ------------------------------------------------------------------------------------------------
# C13: crash after the k-th persisted tick, restart on the same store
# ------------------------------------------------------------------------------------------------
from workflows.runtime.types.commands import CommandQueueEvent, CommandScheduleIdleCheck  # noqa: E402
from workflows.runtime.types.ticks import TickAddEvent, TickCancelRun, TickIdleCheck  # noqa: E402


def ev_ident(e):
    return (type(e).__name__, e.get("i", None) if not isinstance(e, StepFailedEvent) else ("sf", e.step_name, e.attempts))


def pending_outputs(wf, prefix, body_log):
    """What only existed in memory when the process stopped after `prefix`: (returned-event ticks still in
    tick_buffer / scheduled_wakeups, events sent with ctx.send_event by steps whose completion is persisted)."""
    state = BrokerState.from_workflow(wf)
    state, _ = CL.rewind_in_progress(state, float(NOW_REPLAY))
    buf, wake = [], []
    done_steps = set()
    seen_adds = []
    for t in prefix:
        if buf:
            buf.pop(0)
        if isinstance(t, TickAddEvent):
            seen_adds.append((ev_ident(t.event), t.attempts or 0))
            if ((ev_ident(t.event), t.attempts or 0)) in wake:
                wake.remove((ev_ident(t.event), t.attempts or 0))
        if isinstance(t, TickStepResult):
            done_steps.add((t.step_name, t.event.get("i", None) if not isinstance(t.event, StepFailedEvent) else None))
        try:
            state, cmds = _orig_reduce(t, state, float(NOW_REPLAY))
        except Exception:  # noqa: BLE001  (the persisted log is not replayable: nothing can be classified as pending)
            return [], []
        for c in cmds:
            if isinstance(c, CommandQueueEvent):
                ident = (ev_ident(c.event), c.attempts or 0)
                if c.delay is not None and c.delay > 0:
                    wake.append(ident)
                else:
                    buf.append(("add", ident))
            elif isinstance(c, CommandScheduleIdleCheck) and ("idle",) not in buf:
                buf.append(("idle",))
    returned = [b[1] for b in buf if b[0] == "add"] + list(wake)
    # (as multisets: several sent events may carry the same payload)
    import collections as _c
    left = _c.Counter(a[0] for a in seen_adds)
    sent = []
    for x in body_log:
        if x[0] == "send" and (x[1], x[3] // 10) in done_steps:
            if left[(x[2], x[3])] > 0:
                left[(x[2], x[3])] -= 1
            else:
                sent.append((x[2], x[3]))
    return returned, sent


def accepted_externals(spec, prefix):
    left = []
    for act in spec.get("externals", []):
        if act[0] == "hr":
            ok = any(isinstance(t, TickAddEvent) and isinstance(t.event, HR) and t.event.get("k", None) == act[1]
                     for t in prefix)
        elif act[0] == "cancel":
            ok = any(isinstance(t, TickCancelRun) for t in prefix)
        else:
            ok = False
        if not ok:
            left.append(act)
    return left


def e_replayed(rc):
    if rc is None:
        return [0]
    if rc.exit_command is None:
        return [2]
    return [3] + R.e_cmd(rc.exit_command)


def crash_case(spec, kind, scratch, name, k, plan2=None, eager=False):
    """Phase 1: run until the k-th tick is persisted, then the process is dead (the store drops every later write
    and the chain is stopped).  Phase 2: a new chain on the same persisted data; _on_server_start; the environment
    repeats the external inputs that were not accepted before the crash."""
    obs = Obs()
    log1, log2 = [], []

    async def main():
        store = make_store(kind, scratch, name, None, limit=k)
        rt, svc = chain(store)
        wf = build_workflow(spec, log1)
        obs.cfg = cfg_of(wf, spec)
        wf._switch_workflow_name("w")
        wf._switch_runtime(rt)
        await svc.start()
        box = []
        hd = await svc.start_workflow(wf, "h1", start_event=StartEvent(i=1))
        run = svc._workflow_run_handler("w", hd.run_id)
        waiter = asyncio.ensure_future(_await(run, box))
        n0 = [0]

        async def progress():
            return None
        await _externals(svc, rt, store, spec, hd.run_id, list(spec.get("externals", [])), box,
                         spec.get("horizon", 70), lambda: store.nticks)
        obs.crashed = store.frozen
        await svc.stop()
        await asyncio.sleep(0)
        if not waiter.done():
            waiter.cancel()
        await asyncio.gather(waiter, return_exceptions=True)
        # ---- the new process
        store2 = reopen_store(kind, store)
        if plan2:
            store2.plan = {k2: list(v) for k2, v in plan2.items()}     # store faults met by the NEW process
        obs.prefix = await persisted_ticks(store2, hd.run_id)
        obs.record_at_crash = await _get(store2)
        rt2, svc2 = chain(store2)
        wf2 = build_workflow(spec, log2)
        wf2._switch_workflow_name("w")
        wf2._switch_runtime(rt2)
        # what context_from_ticks rebuilds (compared with the model), computed on a workflow of its own
        wf3 = build_workflow(spec, [])
        wf3._switch_workflow_name("w3")
        rc, enc = None, None
        try:
            rc = await svc2._persistence.context_from_ticks(wf3, hd.run_id)
            enc = e_replayed(rc)
        except ValueError:
            enc = [1, 2]       # what the reducer model calls Err 2 (worker not found)
        except KeyError:
            enc = [1, 4]
        except RuntimeError as ex:
            if str(ex) != "policy bug":
                raise
            enc = [1, 3]
        if rc is None:
            enc += [0]
        else:
            pre = rc.context._face
            st = BrokerState.from_serialized(pre.init_snapshot, wf3, pre._serializer)
            enc += [1] + R.e_state(st) + R.e_rehydrate(st.rehydrate_with_ticks())
            _, _, exp = R.reduce_expect(lambda: CL.rewind_in_progress(st, float(NOW_REPLAY)))
            enc += exp
        obs.resume_enc = enc
        obs.exit_command = rc.exit_command if rc is not None else None
        pend2 = accepted_externals(spec, obs.prefix)
        obs.eager_sent = None
        if eager is not False and pend2 and pend2[0][0] == "hr":
            # a client whose reply arrives WHILE the new process is starting up (one loop turn after start() was called)
            act0 = pend2.pop(0)

            async def early():
                for _ in range(int(eager)):
                    await asyncio.sleep(0)
                try:
                    await svc2.send_event("h1", HR(i=900 + act0[1], k=act0[1]))
                    obs.eager_sent = "accepted"
                except Exception as ex:  # noqa: BLE001
                    obs.eager_sent = "refused %r" % (ex,)
            asyncio.ensure_future(early())
        await svc2.start()
        box2 = []
        await asyncio.sleep(1)
        await _externals(svc2, rt2, store2, spec, hd.run_id, pend2, box2,
                         spec.get("horizon", 70), lambda: store2.nticks + len(log2))
        await asyncio.sleep(12)
        obs.record = await _get(store2)
        obs.ticks_after = await persisted_ticks(store2, hd.run_id)
        obs.plan2_left = {k2: list(v) for k2, v in store2.plan.items()}
        obs.calls2 = list(store2.calls)
        await svc2.stop()
        obs.wf = wf3

    vloop.run(main())
    obs.log1, obs.log2 = log1, log2
    return obs


def coq_resume_case(obs):
    return "resume_case %s %s %s %s %s" % (
        R.g_policy(obs.cfg["pols"]), R.g_state(obs.cfg), glist("(%s)" % R.g_tick(t) for t in obs.prefix),
        gz(NOW_REPLAY), glist(gz(z) for z in obs.resume_enc))


def coq_resume_detail(obs):
    return "enc_resume %s %s %s %s" % (
        R.g_policy(obs.cfg["pols"]), R.g_state(obs.cfg), glist("(%s)" % R.g_tick(t) for t in obs.prefix), gz(NOW_REPLAY))
