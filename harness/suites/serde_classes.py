"""Importable home of the event / exception classes used by the `serde` suite, so that the
qualified names the real codecs write ("suites.serde_classes.<Name>") resolve on the way back.
Hand-written shapes + classes generated with pydantic.create_model."""
import sys
from typing import Any, Optional

from pydantic import BaseModel, create_model

import boot  # noqa: F401
from workflows.events import (
    Event, HumanResponseEvent, InputRequiredEvent, SerializableEvent, SerializableException,
    SerializableOptionalEvent, SerializableOptionalException, StartEvent, StopEvent,
)

_THIS = sys.modules[__name__]


class Inner(BaseModel):
    a: int = 0
    b: list[str] = []


class GenA(Event):
    x: int
    y: Optional[str] = None


class GenB(Event):
    inner: Inner = Inner()
    tags: list[str] = []
    m: dict[str, Any] = {}


class GenC(GenA):
    z: float = 0.5


class GenStop(StopEvent):
    foo: int = 0


class GenStop2(GenStop):
    bar: list[int] = []


class GenStopR(StopEvent):
    val: int = 0

    def _get_result(self) -> Any:
        return self.val


class GenNest(Event):
    child: SerializableEvent
    maybe: SerializableOptionalEvent = None


class GenFail(Event):
    exception: SerializableException
    err2: SerializableOptionalException = None


class GenIR(InputRequiredEvent):
    prompt: str = ""


class GenHR(HumanResponseEvent):
    response: str = ""


class GenStart(StartEvent):
    topic: str = ""
    n: int = 1


# generated with create_model (a fixed, varied family; fields all JSON-typed)
_FIELD_TYPES = [(int, 0), (str, ""), (Optional[int], None), (list[int], []), (dict[str, Any], {}), (bool, False),
                (Inner, Inner()), (Optional[str], None)]
GENERATED = []
for _i in range(8):
    _base = [Event, StopEvent, Event, InputRequiredEvent, Event, StopEvent, StartEvent, Event][_i]
    _fields = {}
    for _j in range(_i % 4 + (1 if _i % 3 else 0)):
        _t, _d = _FIELD_TYPES[(_i * 3 + _j * 5) % len(_FIELD_TYPES)]
        _fields["f%d" % _j] = (_t, _d)
    _cls = create_model("Made%d" % _i, __base__=_base, __module__=__name__, **_fields)
    setattr(_THIS, _cls.__name__, _cls)
    GENERATED.append(_cls)


# ---- exception classes with different constructor behaviour ----------------------------------
class PlainError(Exception):
    pass


class PrefixError(Exception):                  # constructor transforms the message
    def __init__(self, m):
        super().__init__("pfx:" + m)


class KwError(Exception):                      # needs a keyword argument; str() does not use it
    def __init__(self, m, *, req):
        super().__init__(m)
        self.req = req


class CodeError(Exception):                    # needs two arguments and str() uses the extra one
    def __init__(self, code, m):
        super().__init__(m)
        self.code = code

    def __str__(self):
        return "[%s] %s" % (self.code, self.args[0])


class PickyError(Exception):                   # constructor raises ValueError on a plain message
    def __init__(self, m):
        if not str(m).startswith("ok:"):
            raise ValueError("bad message")
        super().__init__(m)


def local_error_class():
    class LocalError(Exception):               # not importable
        pass
    return LocalError
