"""C32 — Generated deployment ids are valid DNS-1035 labels."""
import json
import random

import core
from suites import dnsid as D


def _key(info, low, al):
    rid = info["id"]
    return (info["kind"], min(len(low), 70) // 5, min(len(al), 4), bool(al) and al[0] in D.DIG, info["force"],
            min(info["draws"], 4), min(info["calls"], 4), None if rid is None else (len(rid) // 8, len(rid) >= 62),
            info["letters"] > 0)


def _load():
    sl = D.Slice()
    try:
        from llama_agents.core.schema.deployments import _DNS_1035_RE, validate_dns_1035_label
    except Exception as e:  # noqa: BLE001
        raise core.CheckError("cannot import llama_agents.core.schema.deployments: %r" % e)
    reserved = sl.ns["reserved_deployment_ids"]
    if not (isinstance(reserved, list) and all(isinstance(r, str) for r in reserved)):
        raise core.CheckError("reserved_deployment_ids is not a list of strings")
    return sl, _DNS_1035_RE, validate_dns_1035_label, reserved


def _report(ctx, fails, source, seen):
    for key, what, info in fails:
        if key in seen:
            continue
        seen.add(key)
        ctx.finding(key, "C32 fails on the implementation: " + what,
                    dict(kind="implementation-monitor", source=source,
                         input=dict(name=info["name"], name_codepoints=[ord(c) for c in info["name"]],
                                    force_suffix=info["force"], entry=info["kind"].split("/")[0],
                                    oracle_answers=info.get("answers_list"), draws=info.get("draw_table"),
                                    real_random_seed=info.get("rseed")),
                         observed=dict(id=info["id"], raised=info.get("raised"), suffix_calls=info["draws"], oracle_calls=info["calls"],
                                       last_hex=info["hexes"][-1:]),
                         replay_hint="bin/check C32 --replay <this file> calls the real function on this input"))


def run(ctx, extra_cases=()):
    ctx.rule = ("display names built from a sanitised target form (words of [a-z0-9], lengths around 0-4, 57 and "
                "63, hyphen placed at the truncation points) decorated with Unicode separators / upper case / "
                "KELVIN SIGN / dotted capital I, plus short, reserved-like, separator-only and random names; "
                "scripted suffix draws (arbitrary integers) and oracle answer tables (accept, collide 1-5x, "
                "collide 97-98x, refuse all); distinct key = (entry, kind, length bucket, #alphanumerics, "
                "digit-first, force, suffix calls, oracle calls, id length bucket, letter draw used)")
    ctx.trusted.append("str.lower(), str.isalpha()/isdigit() on ASCII (swept), re.sub on the three patterns, "
                       "random.choices/choice returning elements of the population: modelled; the regex parser "
                       "re._parser supplies the character classes")
    ctx.trusted.append("source-slice loader: the text of find_deployment_id/_append_random_suffix/"
                       "reserved_deployment_ids and of create_deployment's id branch is executed with scripted "
                       "`random` and `validate_deployment_id`")
    ctx.prove()
    sl, dns_re, validate_label, reserved = _load()
    rng = random.Random(ctx.seed)

    exprs, infos = [D.case_ascii_classes()], [dict(kind="ascii-classes")]
    n = ctx.n(1500, 40000)
    for i in range(n):
        k = i % 10
        if k < 6:
            e, info = D.case_find(sl, rng)
        elif k < 8:
            e, info = D.case_find(sl, rng, derive=True)
        elif k < 9:
            e, info = D.case_suffix(sl, rng)
        else:
            e, info = D.case_dns(rng, dns_re)
        exprs.append(e)
        infos.append(info)
    for e, info in extra_cases:
        exprs.append(e)
        infos.append(info)
    # The model side. When the model cannot be evaluated (e.g. the translator no longer recognises
    # the source, so the c32_* constants are withheld) the proof obligation is already recorded as
    # broken by ctx.prove(); the implementation-side monitor below still runs on every case.
    res, bad = [], []
    for attempt in range(3):
        try:
            res = ctx.run_cases("dnsid", D.HEADER, exprs)
            bad = [i for i, z in enumerate(res) if z != 0]
            break
        except core.CheckError as e:
            if ctx.broken_obligations:
                ctx.notes.append("model not evaluated (development does not build): %s" % str(e)[:300])
                break
            if "inconsistent assumptions" in str(e) and attempt < 2:
                # another check rebuilt the shared .vo files at this moment: re-make and retry
                core.coq_make(["theories/Model/DnsId.vo"])
                continue
            raise
    ctx.disagreements += len(bad)
    ctx.disagreements_checked = len(bad)

    # ---- coverage (computed from the INPUTS, never from what the implementation did) and the
    #      monitor on the same real outcomes ----------------------------------------------------
    cov = dict(truncated=0, rstrip_after_cut=0, suffix_cut_on_hyphen=0, empty_base_digit_first_draw=0,
               empty_base_letter_first_draw=0, digit_first=0, collisions=0, all_refused=0, reserved_name=0,
               short_alnum_0=0, short_alnum_1=0, short_alnum_2=0, short_but_3_chars=0, free_long_enough=0,
               suffix_on_long_base=0, kelvin_or_dotted_i=0, dns_accept=0, dns_reject=0, dns_newline=0,
               suffix_direct=0)
    kinds, fails = {}, []
    for info in infos:
        kd = info["kind"]
        kinds[kd] = kinds.get(kd, 0) + 1
        if kd == "dns":
            cov["dns_accept" if info["match"] else "dns_reject"] += 1
            cov["dns_newline"] += info["label"].endswith("\n") and info["match"]
            ctx.count(1, ("dns", len(info["label"]) // 4, info["match"]))
            continue
        if kd == "suffix":
            cov["suffix_direct"] += 1
            ctx.count(1, ("suffix", len(info["b"]), info["max_length"], info["letters"]))
            continue
        if kd == "ascii-classes":
            ctx.count(1, ("ascii",))
            continue
        low, al = D.analyse(info["name"])
        rid = info["id"]
        pre = "-".join(w for w in "".join(c if c in D.ALNUM else " " for c in low).split())
        pre = ("d-" + pre) if pre[:1] in D.DIG and pre else pre
        answers, tab = info["answers_list"], info["draw_table"]
        is_res = kd.startswith("derive/") and low in reserved
        first_suffixed = len(al) < 3 or info["force"] or is_res
        some_suffix = first_suffixed or not (answers and answers[0])
        cov["truncated"] += len(pre) > 63
        cov["rstrip_after_cut"] += len(pre) > 63 and pre[62] == "-"
        cov["digit_first"] += bool(al) and al[0] in D.DIG
        cov["collisions"] += bool(answers) and not answers[0] and any(answers[:99])
        cov["all_refused"] += not any(answers[:99])
        cov["reserved_name"] += is_res
        if len(al) < 3:
            cov["short_alnum_%d" % len(al)] += 1
            cov["short_but_3_chars"] += len(pre) >= 3
        cov["free_long_enough"] += not some_suffix
        if some_suffix and len(pre) > 57:
            cov["suffix_on_long_base"] += 1
            cov["suffix_cut_on_hyphen"] += pre[56] == "-"
        if not pre and tab:
            d0 = tab[0][0][0] % 16
            cov["empty_base_digit_first_draw"] += d0 < 10
            cov["empty_base_letter_first_draw"] += d0 >= 10
        cov["kelvin_or_dotted_i"] += ("\u212a" in info["name"] or "\u0130" in info["name"])
        ctx.count(1, _key(info, low, al))
        if len(ctx.samples) < 6 and info["kind"].split("/")[1] in ("structured", "short", "reserved-ish"):
            ctx.sample(dict(name=info["name"][:80], force=info["force"], id=rid, suffix_calls=info["draws"],
                            oracle_calls=info["calls"]))
        m = D.monitor(info, low, al, reserved, validate_label)
        if m:
            fails.append((m[0], m[1], info))
    ctx.suite("dnsid", cases=len(exprs), disagreements=len(bad), kinds=kinds, **cov)

    # ---- monitor-only stream: the real `random` module, a set-based collision oracle ---------
    mfails, mcount = [], 0
    for j in range(ctx.n(4000, 120000)):
        name, kind = D.gen_name(rng)
        force = rng.random() < 0.1
        low, al = D.analyse(name)
        taken = set()
        if rng.random() < 0.4:
            t0 = sl.call("find_deployment_id", (name,), {}, D.RecordingRandom(j), D.Oracle(answers=[True]))
            if isinstance(t0, str):
                taken.add(t0)
        rseed = rng.randrange(1 << 30)
        rnd, orc = D.RecordingRandom(rseed), D.Oracle(taken=taken)
        derive = rng.random() < 0.3
        if derive:
            rid = sl.call("derive", (name,), {}, rnd, orc)
            force = False
        else:
            rid = sl.call("find_deployment_id", (name,), {"force_suffix": force}, rnd, orc)
        raised = rid.text if isinstance(rid, D.Raised) else None
        rid = None if raised else rid
        info = dict(kind=("derive/" if derive else "find/") + kind, name=name, force=force, id=rid, draws=rnd.n,
                    raised=raised,
                    calls=len(orc.calls), hexes=list(rnd.log[-2:]), letters=rnd.letters_used,
                    accepted_first=bool(orc.calls) and orc.calls[0] not in taken, rseed=rseed,
                    answers_list="taken=%r" % sorted(taken))
        mcount += 1
        m = D.monitor(info, low, al, reserved, validate_label)
        if m:
            mfails.append((m[0], m[1], info))
    ctx.count(mcount)
    ctx.suite("dnsid.monitor", runs_with_real_random=mcount, failures=len(mfails),
              scripted_failures=len(fails))

    seen = set()
    _report(ctx, fails, "scripted draws (also evaluated by the model)", seen)
    _report(ctx, mfails, "real random module", seen)
    if not (fails or mfails):
        # generators fail closed — but only when there is no verdict yet
        for c in sorted(cov):
            ctx.require_coverage("dnsid", c, cov[c], 2)
    if bad and not (fails or mfails):
        ctx.violation("model/implementation disagreement in suite dnsid (no property-level failing input found)",
                      dict(suite="dnsid", theorem="C32_* (Model/DnsId.v no longer matches k8s_client.py / "
                                                  "schema/deployments.py)",
                           cases=[_brief(infos[i]) for i in bad[:5]], coq_exprs=[exprs[i][:1500] for i in bad[:3]],
                           codes=[res[i] for i in bad[:5]]),
                      found_input=False)
    elif bad:
        ctx.notes.append("%d model/implementation disagreements accompany the monitor failures" % len(bad))


def _brief(info):
    return {k: v for k, v in info.items() if k in ("kind", "name", "force", "id", "draws", "calls", "hexes",
                                                   "label", "match", "b", "max_length", "out")}


def replay(ctx, path):
    """re-run the recorded input on the real code (and the whole check afterwards)"""
    rec = json.load(open(path))
    print(json.dumps({k: rec[k] for k in rec if k in ("what", "input", "observed", "finding_key")}, indent=1))
    inp = rec.get("input")
    if inp and inp.get("name_codepoints") is not None:
        sl, dns_re, validate_label, reserved = _load()
        name = "".join(chr(c) for c in inp["name_codepoints"])
        for seed in range(5):
            rid = sl.call("derive" if inp.get("entry") == "derive" else "find_deployment_id", (name,),
                          {} if inp.get("entry") == "derive" else {"force_suffix": bool(inp.get("force_suffix"))},
                          D.RecordingRandom(seed), D.Oracle(answers=[True] * 100))
            print("replay on %s: name=%r -> id=%r" % (D.K8S, name, rid))
    run(ctx)
