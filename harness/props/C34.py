"""C34 — Release tooling converts and classifies versions consistently."""
import itertools
import json
import random

import core
from suites import version as S


def _run_cases(ctx, name, header, exprs):
    """ctx.run_cases, tolerant of a development that does not build (the broken obligation is
    already recorded by ctx.prove(); the implementation-side monitors still run) and of another
    check rebuilding the shared .vo files at the same moment (retry after re-making the model)."""
    for attempt in range(3):
        try:
            return ctx.run_cases(name, header, exprs)
        except core.CheckError as e:
            if ctx.broken_obligations:
                ctx.notes.append("model not evaluated (development does not build): %s" % str(e)[:300])
                return None
            if "inconsistent assumptions" in str(e) and attempt < 2:
                core.coq_make(["theories/Model/Version.vo"])
                continue
            raise


def _vkey(v):
    rel, pre = v
    return (len(rel), tuple(min(x, 4) for x in rel[:4]), None if pre is None else (pre[0], min(pre[1], 3)))


def run(ctx):
    ctx.rule = ("versions = release tuples of 1-5 components (values 0-3, sometimes 9..2^64) with optional "
                "(a|b|rc, n); spelled canonically, with leading zeros, in semver form and in other PEP 440 "
                "spellings (alpha/beta/c/pre/preview, separators, v prefix, upper case); pairs are mostly "
                "neighbours (one component or the pre-release changed, trailing zeros added/removed); semver "
                "strings incl. unsupported labels, damaged strings, trailing newline; distinct key = (case kind, "
                "release length, clipped components, pre-release, outcome)")
    ctx.trusted.append("packaging.version.Version (parsing, normalisation, str(), .release/.pre, ordering) is "
                       "modelled (parse_pep440 on the canonical spelling, render_pep440, vcmp) and compared "
                       "with the installed library on every run, not verified")
    ctx.trusted.append("regex semantics of _SEMVER_PRERELEASE_RE on ASCII input (\\d = [0-9]); the shape is read "
                       "through re._parser by translate_version.py")
    ctx.prove()
    F = S.load()
    s2p, p2s, dct, Version, Invalid = F
    rng = random.Random(ctx.seed)

    builders = [S.case_p2s, S.case_render, S.case_parse, S.case_s2p, S.case_s2p, S.case_p2s_string, S.case_cmp,
                S.case_cmp, S.case_detect, S.case_detect, S.case_detect]
    exprs, infos = [], []
    n = ctx.n(2200, 60000)
    crashes = []
    for i in range(n):
        try:
            e, info = builders[i % len(builders)](F, rng)
        except S.Crash as c:
            crashes.append(c)
            continue
        exprs.append(e)
        infos.append(info)
    res = _run_cases(ctx, "version", S.HEADER, exprs)
    bad = [i for i, z in enumerate(res) if z != 0] if res is not None else []
    ctx.disagreements += len(bad)
    ctx.disagreements_checked = len(bad)

    # ---- coverage (from the inputs) and monitors on the same real outcomes ---------------------
    cov = dict(p2s=0, render=0, parse_modelled=0, parse_damaged=0, parse_invalid=0, s2p_converted=0,
               s2p_unchanged=0, s2p_bad_label=0, s2p_newline=0, s2p_non3=0, cmp_lt=0, cmp_eq=0, cmp_gt=0,
               cmp_trailing_zero_eq=0, cmp_pre_only=0, detect_none_equal=0, detect_none_less=0, detect_major=0,
               detect_minor=0, detect_patch=0, detect_pre_only_growth=0, detect_no_previous=0,
               detect_non3=0, detect_semver_spelling=0)
    kinds, fails = {}, []
    for c in crashes[:3]:
        fails.append(("C34/raises", str(c), dict(call=c.call)))
    for info in infos:
        kd = info["kind"]
        kinds[kd] = kinds.get(kd, 0) + 1
        if kd in ("p2s", "render"):
            cov[kd] += 1
            ctx.count(1, (kd, _vkey(info["v"]), info["spelling"] == S.canonical(info["v"])))
        elif kd == "parse":
            cov["parse_damaged"] += bool(info["damaged"])
            cov["parse_invalid"] += bool(info.get("invalid"))
            cov["parse_modelled"] += not info["damaged"]
            ctx.count(1, (kd, info["s"][:12], info.get("invalid"), info.get("outside")))
        elif kd == "s2p":
            s = info["s"]
            cov["s2p_bad_label"] += info["raised"]
            cov["s2p_converted"] += (not info["raised"]) and info["out"] != s
            cov["s2p_unchanged"] += (not info["raised"]) and info["out"] == s
            cov["s2p_newline"] += s.endswith("\n") and info["out"] != s
            cov["s2p_non3"] += info["out"] != s and info["out"].count(".") != 2 and not info["raised"]
            ctx.count(1, (kd, s.count("."), s.count("-"), info["raised"], info["out"] == s, s[-6:]))
        elif kd == "p2s-string":
            ctx.count(1, (kd, info["s"][:10]))
        elif kd == "cmp":
            v, w, sg = info["v"], info["w"], info["sign"]
            cov["cmp_lt"] += sg < 0
            cov["cmp_eq"] += sg == 0
            cov["cmp_gt"] += sg > 0
            cov["cmp_trailing_zero_eq"] += sg == 0 and v[0] != w[0]
            cov["cmp_pre_only"] += sg != 0 and v[0] == w[0]
            ctx.count(1, (kd, _vkey(v), _vkey(w)))
        elif kd == "detect":
            v, w, out = info["v"], info["w"], info["out"]
            if w is None:
                cov["detect_no_previous"] += 1
            else:
                sg = (Version(info["cur"]) > Version(info["prev"])) - (Version(info["cur"]) < Version(info["prev"]))
                c3, p3 = (tuple(v[0]) + (0, 0, 0))[:3], (tuple(w[0]) + (0, 0, 0))[:3]
                cov["detect_none_equal"] += sg == 0
                cov["detect_none_less"] += sg < 0
                if sg > 0:
                    d = [i for i in range(3) if c3[i] != p3[i]]
                    if d:
                        cov["detect_" + S.NAMES[d[0]]] += 1
                    else:
                        cov["detect_pre_only_growth"] += 1
                cov["detect_non3"] += len(v[0]) != 3 or len(w[0]) != 3
                cov["detect_semver_spelling"] += "-" in info["cur"]
            ctx.count(1, (kd, _vkey(v), None if w is None else _vkey(w), out))
            m = S.monitor_detect(F, v, w, info["cur"], info["prev"], out) if out in S.CLASSES else (
                "C34/classification-unknown-class", "detect_change_type returned %r" % (out,))
            if m:
                fails.append((m[0], m[1], dict(current_version=info["cur"], previous_version=info["prev"],
                                               observed=out)))
        if len(ctx.samples) < 8 and kd in ("s2p", "detect", "p2s") and rng.random() < 0.05:
            ctx.sample({k: (list(x) if isinstance(x, tuple) else x) for k, x in info.items()})
    ctx.suite("version", cases=len(exprs), disagreements=len(bad), kinds=kinds, **cov)

    # ---- round-trip monitor on the real functions (not through the model) ---------------------
    rt = 0
    rt_cov = dict(three=0, non_three_pre=0, final=0, alt_spelling=0)
    for j in range(ctx.n(3000, 60000)):
        v = S.gen_version(rng)
        sp = S.spelling(rng, v) if rng.random() < 0.6 else S.canonical_zeros(rng, v)
        rt += 1
        rt_cov["three"] += len(v[0]) == 3
        rt_cov["non_three_pre"] += len(v[0]) != 3 and v[1] is not None
        rt_cov["final"] += v[1] is None
        rt_cov["alt_spelling"] += sp != S.canonical(v)
        m = S.monitor_roundtrip(F, v, sp)
        if m:
            fails.append((m[0], m[1], dict(version=sp, release=list(v[0]), pre=v[1])))
    # exhaustive small scope: every release of 1..4 components with parts <= 2 (thorough: <= 3) x pre
    top = ctx.n(2, 3)
    pres = [None] + [(l, k) for l in range(3) for k in (0, 1, 2)]
    small = [(rel, pre) for L in (1, 2, 3, 4) for rel in itertools.product(range(top + 1), repeat=L)
             for pre in pres]
    for v in small:
        rt += 1
        m = S.monitor_roundtrip(F, v, S.canonical(v))
        if m:
            fails.append((m[0], m[1], dict(version=S.canonical(v), release=list(v[0]), pre=v[1])))
    pair_pool = [(rel, pre) for L in (1, 2, 3, 4) for rel in itertools.product(range(2), repeat=L)
                 for pre in (None, (0, 1), (0, 2), (2, 1))]
    npairs = 0
    for a in pair_pool:
        for b in pair_pool:
            npairs += 1
            cur, prev = S.semver_of(a), S.canonical(b)
            try:
                out = dct(cur, prev)
            except Exception as e:  # noqa: BLE001
                fails.append(("C34/raises", "detect_change_type(%r, %r) raised %r" % (cur, prev, e),
                              dict(current_version=cur, previous_version=prev)))
                break
            m = S.monitor_detect(F, a, b, cur, prev, out) if out in S.CLASSES else (
                "C34/classification-unknown-class", "detect_change_type returned %r" % (out,))
            if m:
                fails.append((m[0], m[1], dict(current_version=cur, previous_version=prev, observed=out)))
    ctx.count(rt + npairs)
    ctx.suite("version.monitor", roundtrips=rt, exhaustive_versions=len(small), exhaustive_pairs=npairs,
              failures=len(fails), **rt_cov)

    seen = set()
    for key, what, inp in fails:
        if key in seen:
            continue
        seen.add(key)
        ctx.finding(key, "C34 fails on the implementation: " + what,
                    dict(kind="implementation-monitor", input=inp,
                         replay_hint="python: call dev_cli.changesets / dev_cli.versioning on this input"))
    if not fails:
        for c in sorted(cov):
            ctx.require_coverage("version", c, cov[c], 2)
        for c in sorted(rt_cov):
            ctx.require_coverage("version.monitor", c, rt_cov[c], 5)
    if bad and not fails:
        ctx.violation("model/implementation disagreement in suite version (no property-level failing input found)",
                      dict(suite="version", theorem="C34_* (Model/Version.v no longer matches changesets.py / "
                                                    "versioning.py / packaging.Version)",
                           cases=[_brief(infos[i]) for i in bad[:6]], coq_exprs=[exprs[i][:800] for i in bad[:4]],
                           codes=[res[i] for i in bad[:6]]),
                      found_input=False)
    elif bad:
        ctx.notes.append("%d model/implementation disagreements accompany the monitor failures" % len(bad))


def _brief(info):
    return {k: (list(v) if isinstance(v, tuple) else v) for k, v in info.items()}


def replay(ctx, path):
    rec = json.load(open(path))
    print(json.dumps({k: rec[k] for k in rec if k in ("what", "input", "finding_key")}, indent=1))
    inp = rec.get("input") or {}
    F = S.load()
    s2p, p2s, dct, Version, Invalid = F
    if "version" in inp:
        s = p2s(inp["version"])
        print("replay: pep440_to_semver(%r) = %r; semver_to_pep440(..) = %r; normalized original = %r"
              % (inp["version"], s, s2p(s), str(Version(inp["version"]))))
    if "current_version" in inp:
        print("replay: detect_change_type(%r, %r) = %r" % (
            inp["current_version"], inp["previous_version"], dct(inp["current_version"], inp["previous_version"])))
    run(ctx)
