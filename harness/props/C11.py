"""C11 — Replaying the recorded tick log reproduces the live run state."""
import asyncio

from props._engine_common import run_l1, run_l2, report_l2
from suites import engine_probe as PR, engine_specs as S

THEOREMS = "C11_rebuild_is / C11_live_state_is_replay_of_log (ORebuild ops: rebuild_state_from_ticks vs Model rebuild)"
K_TIME = "C11/time-sensitive-policy-replay"


def canon(state):
    """queues, running work, collected events, waiters and running flag -- timestamps aside"""
    out = {"is_running": state.is_running}
    for n, w in state.workers.items():
        out[n] = dict(
            queue=[(type(a.event).__name__, id(a.event), a.attempts or 0, sorted((a.recovery_counts or {}).items())) for a in w.queue],
            in_progress=sorted((ip.worker_id, type(ip.event).__name__, id(ip.event), ip.attempts,
                                tuple(sorted(ip.recovery_counts.items()))) for ip in w.in_progress),
            collected={k: [id(e) for e in v] for k, v in w.collected_events.items()},
            waiters=[(x.waiter_id, id(x.event), None if x.resolved_event is None else id(x.resolved_event), x.timed_out)
                     for x in w.collected_waiters])
    return out


def diff(a, b):
    ca, cb = canon(a), canon(b)
    return [k for k in ca if ca[k] != cb.get(k)]


def l1_monitor(rec):
    if rec[0] != "rebuild":
        return []
    _, live, rebuilt, cfg = rec
    d = diff(live, rebuilt)
    if not d:
        return []
    ca, cb = canon(live), canon(rebuilt)
    time_sensitive = any(p.get("max_elapsed") is not None for p in cfg["pols"].values()) if isinstance(cfg["pols"], dict) \
        else any(p.get("max_elapsed") is not None for p in cfg["pols"])
    if time_sensitive:
        # the replay re-decides retries with elapsed times measured from the rebuild's own clock
        return ["%s: a retry policy of this workflow depends on elapsed time; the replay differs from the live state in %s"
                % (K_TIME, d)]
    return ["rebuilding from the recorded ticks differs from the live state in %s: live %s rebuilt %s"
            % (d, {k: ca[k] for k in d}, {k: cb[k] for k in d})]


def l2_monitor_factory():
    state = {"checks": 0, "fails": []}

    async def hook(handler, rec, obs, n):
        runner = PR.RUNNERS.get(handler.run_id) or next(iter(PR.RUNNERS.values()), None)
        if runner is None or handler._result_task.done():
            return
        live = runner.state
        try:
            rebuilt = handler.ctx._require_external("state")._state
        except Exception as ex:  # noqa: BLE001
            state["fails"].append("ctx._state raised %r" % (ex,))
            return
        state["checks"] += 1
        d = diff(live, rebuilt)
        if d:
            state["fails"].append("after %d driver actions the state rebuilt from the tick log (ctx.to_dict / running_steps) "
                                  "differs from the live engine state in %s" % (n, d))
        rs = await handler.ctx._require_external("running_steps").running_steps()
        want = [k for k, w in live.workers.items() if w.in_progress]
        if sorted(rs) != sorted(want):
            state["fails"].append("running_steps() = %s, steps with work in progress are %s" % (rs, want))
    return state, hook


def run(ctx):
    ctx.rule = ("L1: at random points of random reachable reducer histories (incl. resumed runs) the real "
                "rebuild_state_from_ticks(init, recorded ticks) vs the model's rebuild (exact) and vs the live state "
                "(timestamps aside); L2: generated workflows on the real engine; after every driver action of every schedule "
                "the live _ControlLoopRunner.state is compared with ctx._state (what to_dict() serializes) and "
                "running_steps(); distinct key = history index / run facts")
    ctx.prove()
    from suites import reducer as R

    def run_l1_known():
        # like run_l1, but monitor failures carrying the known-finding key go through ctx.finding
        hs, bad, cov = R.run_suite(ctx, ctx.n(160, 4000))
        for k in ("ticks", "feedback_tick", "rebuild", "resume"):
            ctx.require_coverage("reducer", k, cov.c.get(k, 0))
        ntrans, known, other = 0, [], []
        for hi, h in enumerate(hs):
            for rec in h["monitor"]:
                if rec[0] == "rebuild-error":
                    other.append((hi, "rebuilding the state from the recorded ticks raised %s although the live run processed "
                                      "them" % rec[2]))
                if rec[0] != "rebuild":
                    continue
                ntrans += 1
                for why in l1_monitor(rec):
                    # the known mechanism needs a failed attempt (a retry decision that is re-taken on replay)
                    if why.startswith(K_TIME) and any("RFailed" in o for o in h["ops"]):
                        known.append((hi, why))
                    else:
                        other.append((hi, why.replace(K_TIME + ": ", "") if why.startswith(K_TIME) else why))
            ctx.count(h["nops"], ("l1", hi, h["nops"]) if h["nops"] > 5 else None)
        ctx.programs += len(hs)
        ctx.disagreements += len(bad)
        ctx.disagreements_checked += len(bad)
        ctx.mark("l1")
        ctx.suite("reducer.monitor", rebuild_points=ntrans, time_sensitive_replays=len(known), failures=len(other))
        ctx.require_coverage("reducer.monitor", "rebuild_points", ntrans, 50)
        if known:
            h = hs[known[0][0]]
            ctx.finding(K_TIME, known[0][1], dict(kind="implementation-monitor/L1", config=R.describe_cfg(h["cfg"]), ops=h["ops"][:40]))
        for hi, why in other[:3]:
            h = hs[hi]
            ctx.violation("C11 fails on the implementation reducer: %s" % why,
                          dict(kind="implementation-monitor/L1", why=why, config=R.describe_cfg(h["cfg"]), ops=h["ops"]))
        if bad and not other:
            h = hs[bad[0]]
            ctx.violation("model/implementation disagreement in suite reducer (no property-level failing input found)",
                          dict(suite="reducer", theorem=THEOREMS, histories_disagreeing=len(bad), first_bad_op=h.get("first_bad_op"),
                               config=R.describe_cfg(h["cfg"]), ops=h["ops"][:h.get("first_bad_op") or 1]), found_input=False)
    run_l1_known()
    PR.install()
    PR.reset()
    from suites import engine as E
    import random
    rng = random.Random(ctx.seed * 53 + 29)
    n2 = ctx.n(150, 3000)
    fails, checks = [], 0
    tmpls = [S.fanout, S.waitfan, S.failflow, S.collect2, S.irflow, S.sendnone, S.selfcancel]
    for i in range(n2):
        seed = rng.randrange(1 << 30)
        tmpl = tmpls[i % len(tmpls)]
        st, hook = l2_monitor_factory()
        try:
            spec, rec, obs = E.run_case(tmpl, seed, hooks=[hook])
        except RuntimeError as ex:
            if "quiescent" not in str(ex):
                raise
            continue
        checks += st["checks"]
        ctx.count(1, ("l2", tmpl.__name__, st["checks"], len(rec.log)))
        if i < 3:
            ctx.sample(dict(kind="l2-live-vs-rebuilt", template=tmpl.__name__, seed=seed, comparisons=st["checks"]), limit=8)
        for w in st["fails"][:2]:
            fails.append(dict(template=tmpl.__name__, seed=seed, why=w, actions=[str(a) for a in obs.actions]))
        PR.reset()
    # ---- a SECOND run on the context of a finished run that left events queued (fan-out into a 1-worker step whose first
    # invocation ends the run): the second run gets a new StartEvent and carries the left-over queue in its initial state
    import vloop
    from workflows.events import StartEvent, StopEvent
    from suites.wfevents import T1

    async def second_run(seed):
        r2 = random.Random(seed)
        rec = E.Recorder()
        n, k = r2.choice([2, 3, 4]), r2.choice([1, 1, 2])
        spec = dict(steps={
            "a_start": dict(accepts=[StartEvent], returns=[T1, type(None)], num_workers=1, script=[("send", T1, n, None), ("return", None)]),
            "b_work": dict(accepts=[T1], returns=[StopEvent], num_workers=k, script=[("gate", "w"), ("return", StopEvent)]),
        })
        wf = E.build_workflow(spec, rec)
        obs1 = await E.drive(wf, rec, r2, policy="random")
        if not obs1.done or obs1.exception is not None:
            return None
        PR.reset()
        st, hook = l2_monitor_factory()
        await E.drive(wf, rec, r2, ctx=obs1.handler.ctx, start_event=StartEvent(), hooks=[hook], policy="random")
        return st
    n3, second_checks = ctx.n(20, 300), 0
    for i in range(n3):
        seed = rng.randrange(1 << 30)
        st = vloop.run(second_run(seed))
        PR.reset()
        if st is None:
            continue
        second_checks += st["checks"]
        ctx.count(1, ("l2-second-run", st["checks"]))
        for w in st["fails"][:1]:
            fails.append(dict(template="second run on the context of a finished run with events left queued", seed=seed, why=w, actions=[]))
    ctx.programs += n2 + n3
    ctx.mark("engine")
    ctx.suite("engine", runs=n2, live_vs_rebuilt_comparisons=checks, second_run_comparisons=second_checks, failures=len(fails))
    ctx.require_coverage("engine", "second_run_comparisons", second_checks, 5)
    report_l2(ctx, fails)
    from props._engine_common import run_runnerdiff
    run_runnerdiff(ctx, ctx.n(60, 1500), 'C11_live_state_is_replay_of_log')
    ctx.require_coverage("engine", "live_vs_rebuilt_comparisons", checks, 300)
    ctx.partial.append("the clock readings at which ticks were processed are not recorded; equality 'timestamps aside' for "
                       "every history is proved for the runner model only with the recorded readings "
                       "(C11_live_state_is_replay_of_log) and checked on executions for the real rebuild; a retry policy whose "
                       "decision depends on elapsed time can make the replay differ (C11_time_sensitive_replay_refuted)")


def replay(ctx, path):
    import json
    print(json.dumps(json.load(open(path)), indent=1)[:4000])
    run(ctx)
