"""C33 — Backup archives restore exactly what was backed up."""
import json
import random
import re
import time

import core
from core import CheckError
from suites import archive as S

THEOREMS = "C33_roundtrip / C33_wrong_password_fails / C33_written_files_dispatch"


def eval_cases(ctx, name, header, exprs, shard):
    """ctx.run_cases, retried when a concurrent check rebuilt Generated.vo under us."""
    for attempt in range(5):
        try:
            return ctx.run_cases(name, header, exprs, shard=shard)
        except CheckError as e:
            if not re.search(r"inconsistent assumptions|premature end of file|Try to rebuild|bad magic|"
                             r"Cannot find a physical path|corrupted", str(e)) or attempt == 4:
                raise
            time.sleep(2 + 3 * attempt)
            ok, out = core.coq_make(["theories/Model/Archive.vo"])
            if not ok:
                raise CheckError("rebuild after a concurrent Generated.v change failed:\n" + out[-2000:])


EXPECTED_SHAPE = [
    'Definition archive_manifest_name_read : string := "manifest.json".',
    'Definition archive_manifest_name_written : string := "manifest.json".',
    'Definition archive_read_dispatch : list (string * string) := [(".secret.enc", "secret_enc"); '
    '(".meta.json", "meta"); (".secret.yaml", "secret_yaml"); (".yaml", "cr")].',
    'Definition archive_written : list (string * string) := [("cr", ".yaml"); ("meta", ".meta.json"); '
    '("secret_enc", ".secret.enc"); ("secret_yaml", ".secret.yaml")].',
    'Definition backup_salt_length : Z := 16.', 'Definition backup_nonce_length : Z := 12.',
]


def check_shape(ctx):
    """The tables the theorems were proved for (C33_generated_tables), re-read from the source
    directly as well: concurrent checks share Generated.v and may rewrite it from another tree."""
    import translate
    import translate_archive as TA
    try:
        shape = TA.extract(translate.src)
    except (TA.Err, translate.TranslateError, SyntaxError, OSError) as e:
        shape = "TRANSLATE-ERROR: %s" % e
    missing = [l for l in EXPECTED_SHAPE if l not in shape]
    if missing and not ctx.broken_obligations:
        ctx.broken_obligations.append(("C33_generated_tables (source tables, re-read directly)",
                                       "expected but not found:\n" + "\n".join(missing) + "\n--- extracted:\n" + shape))


def model_trace(ctx, meta):
    """The model's complete encodings for a disagreeing case (the suite sends hashes of them)."""
    try:
        terms = []
        if meta["kind"] == "create+read":
            terms.append("create_trace " + meta["inputs"])
        for pw in meta["read_pws"]:
            terms.append("read_trace %s %s" % (S.gopt(S.gz, pw), meta["g_members"]))
        out = ctx.eval_terms(S.HEADER, terms)
        return dict(create=out[0] if meta["kind"] == "create+read" else None,
                    reads=out[1:] if meta["kind"] == "create+read" else out)
    except CheckError as e:
        return "unavailable: %s" % str(e)[:300]


def gen_names(rng, valid=True):
    k = rng.choice([0, 1, 1, 2, 3, 4, 6])
    names = []
    while len(names) < k:
        r = rng.random()
        if not valid and r < 0.5:
            n = rng.choice(S.DOTTED)
        elif r < 0.45:
            n = rng.choice(S.LOOKALIKE)
        else:
            n = S.valid_name(rng)
        if n not in names or (not valid and rng.random() < 0.2):
            names.append(n)
    return names


def gen_arbitrary(rng, case):
    """A symbolic member list that no create call need have produced."""
    ms = []
    docs = list(case.docs)
    if rng.random() < 0.85:
        ms.append(("manifest.json", True, rng.choice([
            ("manifest", 1, rng.randrange(3), rng.randrange(3), rng.randrange(5), rng.random() < 0.5),
            ("manifest", 1, 0, 0, 0, False), ("manifest", 1, 2, 1, 3, True), ("manifest", rng.choice([0, 2]), 0, 1, 1, True)])
            if rng.random() < 0.93 else rng.choice([("rawlong",), ("rawshort",)])))
    stems = ["a", "b", "a.secret", "a.meta", "web", "web.secret", "x.y", "manifest", "manifest.json", "a.secret.enc",
             "", ".secret", "dir/a"]
    for _ in range(rng.randrange(0, 9)):
        stem = rng.choice(stems)
        suffix = rng.choice([".yaml", ".yaml", ".secret.yaml", ".secret.enc", ".meta.json", ".json", ".txt", ".yml",
                             ".secret", ".enc", ""])
        name = stem + suffix
        if not name:
            continue
        isfile = rng.random() < 0.93
        if name == "manifest.json":
            blob = rng.choice([("manifest", 1, 1, 1, 2, False), ("manifest", 3, 0, 0, 0, False), ("rawshort",)])
        elif name.endswith(".enc"):
            blob = rng.choice([("enc", rng.randrange(len(S.PWS)), ("yaml", rng.choice(docs))) if docs else ("rawlong",),
                               ("enc", 1, ("yaml", rng.choice(docs))) if docs else ("rawshort",),
                               ("enc", 1, ("yaml", rng.choice(docs))) if docs else ("rawshort",),
                               rng.choice([("rawlong",), ("rawshort",), ("enc", 2, ("rawshort",))])])
        elif name.endswith(".json"):
            blob = rng.choice([("gen", rng.choice([0, 1, 5])), ("gen", None), ("gen", 3), ("gen", 9), ("gen", 2)]
                              + ([("rawshort",)] if rng.random() < 0.2 else []))
        else:
            blob = ("yaml", rng.choice(docs)) if docs and rng.random() < 0.96 else ("rawshort",)
        ms.append((name, isfile, blob))
    if rng.random() < 0.3:
        rng.shuffle(ms)
    return ms


def run(ctx):
    ctx.rule = ("generated backup inputs: 0-6 deployments with DNS-1035 names (random, boundary lengths 1/62/63, and "
                "names resembling the archive's own file names), documents with YAML-hostile strings, secret maps "
                "(present / empty / absent / for names without deployment), generation maps (None / empty / partial, "
                "value 0), passwords None / '' / ascii / non-ascii; plus arbitrary member lists (dotted and colliding "
                "names, duplicates, directories, bad manifests, garbage); distinct key = (kind of case, member-name "
                "shape sequence, password class, result class)")
    ctx.trusted += [
        "C33: `cryptography` is absent from the sandbox; harness/shims_ext/cryptography is a stdlib stand-in "
        "(SHA-256 keystream + HMAC-SHA256 tag, hashlib.pbkdf2_hmac with capped iterations) with the interface, "
        "ciphertext length and InvalidTag failure of AESGCM/PBKDF2HMAC — it lets the repository's encrypt()/decrypt() "
        "run; it is not AES-GCM",
        "C33: tarfile + gzip are trusted to return the members in the order and with the names/contents written; "
        "PyYAML and json enter the theorems as round-trip hypotheses (checked on every generated document)",
    ]
    ctx.assumptions += [
        "YAML: yaml.safe_load(yaml.dump(d, default_flow_style=False)) == d for the documents backed up "
        "(Section hypothesis yaml_roundtrip; evaluated on every generated document by the monitor)",
        "JSON: the manifest and {'generation': g} round-trip through json.dumps/json.loads",
        "AEAD (idealised): decrypt(encrypt(m, pw), pw) = m and decrypt(encrypt(m, pw), pw') fails with InvalidTag "
        "for pw' != pw — AES-256-GCM/PBKDF2 themselves are not available and not modelled",
    ]
    ctx.partial.append("PARTIAL: the cryptographic clause ('encrypted secrets cannot be read with a different "
                       "password') is proved relative to an idealised AEAD (hypothesis aead_wrong_key) and exercised "
                       "with a stand-in for the absent `cryptography` library; encryption.py's own code (salt/nonce "
                       "layout, header-length check) is modelled and tied")
    ctx.prove()
    check_shape(ctx)
    rng = random.Random(ctx.seed)
    n_valid = ctx.n(160, 5000)
    n_invalid = ctx.n(40, 1200)
    n_arb = ctx.n(200, 5000)

    exprs, metas, mon_fail = [], [], []
    cov = dict(encrypted=0, plain=0, empty_password=0, no_secret=0, empty_secret=0, gen_zero=0, lookalike=0,
               wrong_password_on_encrypted=0, no_password_on_encrypted=0, long_name=0, unused_secret=0,
               arb_with_manifest=0, arb_without_manifest=0, arb_overwrite=0, arb_encrypted_member=0, dotted_secret_name=0)

    def add(expr, meta, key):
        exprs.append(expr)
        metas.append(meta)
        ctx.count(1, key)

    for i in range(n_valid + n_invalid):
        valid = i < n_valid
        names = gen_names(rng, valid)
        case = S.Case(rng, names)
        args = case.py_args()
        data = S.A.create_backup_archive(**args)
        raw = S.untar(data)
        members = [(n, f, S.abstract(case, c)) for n, f, c in raw]
        shape = tuple(re.sub(r"^.*?((\.[a-z]+)*)$", r"\1", n) for n, _, _ in raw)
        pwc = "none" if case.pw is None else "empty" if case.pw == 0 else "set"
        # read it back: same password, a different one, none
        reads = []
        has_enc = bool(case.pw) and any(n in dict(case.secrets) for n in names)     # by the inputs, not by the outcome
        for pw2 in (case.pw, (case.pw or 0) % 3 + 1 if case.pw else 2, None):
            enc, _ = S.real_read(case, data, pw2)
            reads.append((pw2, enc))
            if has_enc and pw2 is not None and pw2 != case.pw:
                cov["wrong_password_on_encrypted"] += 1
            if has_enc and pw2 is None:
                cov["no_password_on_encrypted"] += 1
        add(S.archive_expr(case, members, reads), dict(kind="create+read", names=names, pw=pwc, inputs=case.g_args(),
                                                        read_pws=[p for p, _ in reads], g_members=S.g_members(members),
                                                        implementation=dict(members=S.enc_members(members),
                                                                            reads=[e for _, e in reads])),
            ("archive", shape, pwc, valid, tuple(tuple(e[:2]) for _, e in reads)))
        ctx.count(3)
        secs = dict(case.secrets)
        if valid and len(set(names)) == len(names) and all(S.is_valid(n) for n in names):
            f = S.monitor_roundtrip(case, data)
            if f:
                mon_fail.append((f, dict(inputs=json.loads(json.dumps(args, default=str)))))
            for di, d in case.docs.items():
                if S.yaml.safe_load(case.dump(di)) != d:
                    mon_fail.append((("C33/yaml-roundtrip", "yaml.safe_load(yaml.dump(d)) != d for %r" % (d,)),
                                     dict(document=repr(d))))
            cov["encrypted" if case.pw else "plain"] += 1 if any(n in secs for n in names) else 0
            cov["empty_password"] += case.pw == 0
            cov["no_secret"] += any(n not in secs for n in names)
            cov["empty_secret"] += any(case.docs[i] == {} for _, i in case.secrets)
            cov["gen_zero"] += any(g == 0 and n in names for n, g in (case.gens or []))
            cov["lookalike"] += any(n in S.LOOKALIKE for n in names)
            cov["long_name"] += any(len(n) >= 62 for n in names)
            cov["unused_secret"] += any(n not in names for n in secs)
        elif not valid:
            cov["dotted_secret_name"] += any(n.endswith(".secret") or n.endswith(".meta") for n in names)
        if i < 3:
            ctx.sample(dict(kind="create+read", names=names, password=pwc, members=[m[0] for m in raw]))

    for i in range(n_arb):
        case = S.Case(rng, gen_names(rng, True), with_unused=False)
        ms = gen_arbitrary(rng, case)
        data = S.mktar([(n, f, S.concretise(case, b)) for n, f, b in ms])
        pw = rng.choice([None, 0, 1, 1, 2])
        enc, _ = S.real_read(case, data, pw)
        cov["arb_with_manifest" if any(n == "manifest.json" and f for n, f, _ in ms) else "arb_without_manifest"] += 1
        cov["arb_encrypted_member"] += any(b[0] == "enc" for _, _, b in ms)
        nm = [n for n, f, _ in ms if f]
        cov["arb_overwrite"] += len(set(nm)) < len(nm)
        add(S.members_expr(ms, [(pw, enc)]), dict(kind="read-arbitrary", members=[m[0] for m in ms], pw=pw,
                                                   implementation=enc, read_pws=[pw], g_members=S.g_members(ms)),
            ("arb", tuple(n for n, _, _ in ms), pw, tuple(enc[:2])))
        if i < 2:
            ctx.sample(dict(kind="read-arbitrary", members=[(n, f, b[0]) for n, f, b in ms], password=pw, result=enc[:8]))

    # concrete failures of the real code are reported first: they must not be lost if the model cannot be evaluated
    # any more (e.g. because the translator no longer recognises the changed source)
    for (key, text), replay in mon_fail[:3]:
        ctx.finding(key, "C33 fails on the real backup code: " + text,
                    dict(kind="implementation-monitor", **replay))
    res = eval_cases(ctx, "archive", S.HEADER, exprs, ctx.n(50, 400))
    bad = [i for i, z in enumerate(res) if z != 0]
    wexprs, wmetas, layout_ok = S.wire_cases(rng, ctx.n(60, 600))
    wres = eval_cases(ctx, "archive.wire", S.WIRE_HEADER, wexprs, 600)
    wbad = [i for i, z in enumerate(wres) if z != 0]
    ctx.count(len(wexprs))
    for m in wmetas:
        ctx.nontrivial.add(("wire", m["length"]))
    ctx.programs += len(exprs) + len(wexprs)
    kinds = {}
    for m in metas:
        kinds[m["kind"]] = kinds.get(m["kind"], 0) + 1
    ctx.suite("archive", cases=len(exprs), kinds=kinds, disagreements=len(bad), coverage=cov)
    ctx.suite("archive.wire", cases=len(wexprs), disagreements=len(wbad), encrypt_layout_ok=layout_ok)
    for c, m in (("encrypted", 20), ("plain", 20), ("empty_password", 5), ("no_secret", 20), ("gen_zero", 5),
                 ("lookalike", 20), ("wrong_password_on_encrypted", 20), ("no_password_on_encrypted", 10),
                 ("long_name", 5), ("unused_secret", 10), ("arb_with_manifest", 20), ("arb_without_manifest", 5),
                 ("arb_overwrite", 5), ("arb_encrypted_member", 10), ("dotted_secret_name", 3)):
        ctx.require_coverage("archive", c, cov[c], m)
    ctx.disagreements += len(bad) + len(wbad)
    ctx.disagreements_checked = len(bad) + len(wbad)

    if not layout_ok:
        bad_layout = True
    else:
        bad_layout = False
    if (bad or wbad or bad_layout) and not mon_fail:
        ctx.violation("model/implementation disagreement in suite archive (no property-level failing input found)",
                      dict(suite="archive", theorem=THEOREMS + " (Model/Archive.v no longer matches archive.py / encryption.py)",
                           cases=[dict(meta=metas[i], result_code=res[i], model=model_trace(ctx, metas[i]),
                                       coq=exprs[i][:1500]) for i in bad[:3]]
                           + [dict(meta=wmetas[i], coq=wexprs[i][:600]) for i in wbad[:3]],
                           encrypt_layout_ok=layout_ok), found_input=False)
    elif bad or wbad:
        ctx.notes.append("%d model/implementation disagreements accompany the monitor failures" % (len(bad) + len(wbad)))


def replay(ctx, path):
    body = json.load(open(path))
    print(json.dumps(body, indent=1)[:6000])
    inp = body.get("inputs")
    if not inp:
        return run(ctx)
    ctx.prove()
    data = S.A.create_backup_archive(**inp)
    ctx.count(1, "replay")
    ctx.programs += 1
    r = S.A.read_backup_archive(data, encryption_password=inp["encryption_password"])
    got = [(e.name, e.cr, e.secret, e.generation) for e in r.entries]
    gens = inp["generations"] or {}
    want = [(d["metadata"]["name"], d, inp["secrets"].get(d["metadata"]["name"]), gens.get(d["metadata"]["name"]))
            for d in inp["deployments"]]
    print("restored == backed up:", got == want)
    if got != want:
        ctx.violation("C33 fails on the real backup code (replay): restored entries differ",
                      dict(kind="implementation-monitor", inputs=inp))
