"""C13 — A server restart at any persisted point resumes without losing work."""
import json
import random

import core
from suites import server as S

THEOREMS = ("C13_resume_preserves_work / C13_log_with_exit_is_finalised / C13_server_start_finalises / "
            "C13_resume_at_quiescent / C13_resume_any_prefix_refuted")
KINDS = ["success", "fan", "wait", "stepfail", "handler", "cancel", "timeout", "engine_policy", "fansame"]
K_RETURNED = "C13/returned-event-tick-not-persisted"
K_SENT = "C13/sent-event-tick-not-persisted"


def same_end(a, b):
    """status, result and presence of an error (the error TEXT of a timeout differs between the live terminal
    event and the replay finalisation; the property asks for the matching status)"""
    ea, eb = S.e_record(a), S.e_record(b)
    if ea[0] == 0 or eb[0] == 0:
        return ea == eb
    sa, sb = ea[1:], eb[1:]
    res_a = sa[1:3] if sa[1] == 1 else sa[1:2]
    res_b = sb[1:3] if sb[1] == 1 else sb[1:2]
    err_a = sa[1 + len(res_a)]
    err_b = sb[1 + len(res_b)]
    return sa[0] == sb[0] and res_a == res_b and err_a == err_b


def run(ctx):
    ctx.rule = ("generated deterministic workflows (chain with retries / fan-out+collect via ctx.send_event / wait for a human "
                "response / catch_error handler / cancel / workflow timeout / failing step) run through the real server chain; "
                "for EVERY k the process is stopped right after the k-th persisted tick (store drops all later writes), a new "
                "chain is started on the same MemoryWorkflowStore / SqliteWorkflowStore data, the environment repeats the "
                "external inputs that were not yet accepted; distinct key = (kind, store, k, what was pending, end state)")
    ctx.prove()
    ctx.trusted.append("harness/suites/server.py: crash = store subclass that drops every write after the k-th append_tick + "
                       "service.stop(); restart = new runtime chain and new Workflow object on the same store data")
    ctx.assumptions.append("retry policies of the generated workflows do not depend on elapsed time (replay uses one clock "
                           "reading for all ticks); waits have no timeout and no step relies on a scheduled timer surviving the "
                           "restart (that is C14)")
    rng = random.Random(ctx.seed * 37 + 13)
    nwf = ctx.n(9, 150)
    exprs, metas, fails = [], [], []
    cov = dict(crash_points=0, finalised=0, resumed_ok=0, known_returned=0, known_sent=0, quiescent_points=0,
               in_progress_rerun=0, retry_ticks=0, kind={}, store={}, exit_kinds={})
    for wi in range(nwf):
        kind = KINDS[wi % len(KINDS)] if wi < len(KINDS) else rng.choice(KINDS)
        spec = S.gen_spec(rng, kind)
        while kind == "success" and wi < len(KINDS) and not spec["pols"]:
            spec = S.gen_spec(rng, kind)        # the first chain always retries a failing step
        for st in spec["steps"].values():       # no waiter timeouts (C14's subject)
            st["body"] = [("wait", a[1], None) if a[0] == "wait" else a for a in st["body"]]
        store = "sqlite" if wi % 2 else "memory"
        base = S.run_case(spec, {}, store, ctx.scratch, "c13_%d_u" % wi)
        n_ticks = len(base.ticks)
        cov["retry_ticks"] += sum(1 for t in base.ticks if getattr(t, "attempts", None))
        cov["kind"][kind] = cov["kind"].get(kind, 0) + 1
        cov["store"][store] = cov["store"].get(store, 0) + 1
        if base.record is None or base.record.status == "running":
            raise core.CheckError("uninterrupted run of a generated workflow did not end: %s" % S.describe(spec))
        for k in range(1, n_ticks + 1):
            o = S.crash_case(spec, store, ctx.scratch, "c13_%d_%d" % (wi, k), k)
            if not o.crashed or len(o.prefix) != k:
                raise core.CheckError("crash point %d of %d not reached (prefix %d)" % (k, n_ticks, len(o.prefix)))
            cov["crash_points"] += 1
            exprs.append(S.coq_resume_case(o))
            returned, sent = S.pending_outputs(o.wf, o.prefix, o.log1)
            ended = o.exit_command is not None and type(o.exit_command).__name__ != "CommandCompleteRun" or (
                o.exit_command is not None and type(getattr(o.exit_command, "result", None)).__name__ != "IdleReleasedEvent")
            xk = type(o.exit_command).__name__
            cov["exit_kinds"][xk] = cov["exit_kinds"].get(xk, 0) + 1
            meta = dict(spec=S.describe(spec), store=store, crash_after=k, of=n_ticks,
                        prefix=[type(t).__name__ for t in o.prefix], pending_returned=[str(x) for x in returned],
                        pending_sent=[str(x) for x in sent], uninterrupted=S.e_record(base.record),
                        after_restart=S.e_record(o.record), steps_rerun=[x for x in o.log2 if x[0] == "enter"])
            metas.append(meta)
            ctx.count(1, (kind, store, k, bool(returned), bool(sent), tuple(S.e_record(o.record)[:2])))
            if len(ctx.samples) < 4 and k in (2, n_ticks):
                ctx.sample(meta)
            ok = same_end(o.record, base.record)
            if ended:
                # finalize_matches: matching status, and the run is not re-run
                cov["finalised"] += 1
                if not ok:
                    fails.append(("finalize", "log ends the run (%s) but the handler is %s, uninterrupted %s"
                                  % (xk, S.e_record(o.record), S.e_record(base.record)), meta))
                if any(x[0] == "enter" for x in o.log2) or len(o.ticks_after) != k:
                    fails.append(("rerun", "a run whose persisted ticks already end it was re-run after the restart "
                                  "(%d steps entered, %d ticks appended)" % (len(o.log2), len(o.ticks_after) - k), meta))
                continue
            if not returned and not sent:
                cov["quiescent_points"] += 1
            if any(x[0] == "enter" for x in o.log2):
                cov["in_progress_rerun"] += 1
            if ok:
                cov["resumed_ok"] += 1
                # the same restart with the client's next reply arriving while the new process is still starting up
                if any(a[0] == "hr" for a in S.accepted_externals(spec, o.prefix)) and not returned and not sent:
                  for turns in (0, 1, 2, 3):
                    oe = S.crash_case(spec, store, ctx.scratch, "c13_%d_%d_e%d" % (wi, k, turns), k, eager=turns)
                    cov["eager_replies"] = cov.get("eager_replies", 0) + 1
                    if oe.eager_sent == "accepted" and not same_end(oe.record, base.record):
                        fails.append(("startup-reply", "stopped after persisted tick %d of %d; a reply sent while the new process was "
                                      "starting up was accepted, yet the handler ends %s, the uninterrupted run ends %s"
                                      % (k, n_ticks, S.e_record(oe.record), S.e_record(base.record)), dict(meta, eager=turns)))
                        break
                continue
            why = ("stopped after persisted tick %d of %d %s: after the restart the handler is %s, the uninterrupted run "
                   "ends %s" % (k, n_ticks, meta["prefix"][-2:], S.e_record(o.record), S.e_record(base.record)))
            if returned:
                cov["known_returned"] += 1
                ctx.finding(K_RETURNED, why + "; the add-event tick for the returned event %s existed only in tick_buffer"
                            % (returned[:2],), dict(kind="implementation-monitor/L3", input=meta))
            elif sent:
                cov["known_sent"] += 1
                ctx.finding(K_SENT, why + "; events sent with ctx.send_event %s were only in the in-memory mailbox"
                            % (sent[:2],), dict(kind="implementation-monitor/L3", input=meta))
            else:
                fails.append(("resume", why + " although nothing was pending in memory", meta))
    ctx.programs += cov["crash_points"]
    res = ctx.run_cases("server.resume", S.HEADER, exprs, shard=ctx.n(12, 60))
    bad = [i for i, z in enumerate(res) if z != 0]
    ctx.disagreements += len(bad)
    ctx.disagreements_checked = len(bad)
    ctx.suite("server.resume", workflows=nwf, disagreements=len(bad), monitor_failures=len(fails), **cov)
    for key, why, meta in fails[:3]:
        ctx.violation("C13 fails on the real server stack: %s" % why,
                      dict(kind="implementation-monitor/L3", clause=key, input=meta,
                           replay_hint="suites.server.crash_case(spec, store, scratch, name, k) reproduces the restart"))
    if bad and not fails:
        details = ctx.eval_terms(S.HEADER, [exprs[i].replace("resume_case", "enc_resume", 1).rsplit(" [", 1)[0] for i in bad[:1]])
        ctx.violation("model/implementation disagreement in suite server.resume (no property-level failing input found)",
                      dict(suite="server.resume", theorems=THEOREMS, cases=[metas[i] for i in bad[:2]], model=details),
                      found_input=False)
    elif bad:
        ctx.notes.append("%d model/implementation disagreements accompany the monitor failures" % len(bad))
    if fails or bad:
        return
    for k in ("crash_points", "finalised", "resumed_ok", "known_returned", "quiescent_points", "in_progress_rerun"):
        ctx.require_coverage("server.resume", k, cov[k], 3)
    ctx.require_coverage("server.resume", "retry_ticks", cov["retry_ticks"], 1)
    for xk in ("CommandCompleteRun", "CommandFailWorkflow", "CommandHalt", "NoneType"):
        ctx.require_coverage("server.resume", "exit_" + xk, cov["exit_kinds"].get(xk, 0), 1)
    ctx.require_coverage("server.resume", "store_sqlite", cov["store"].get("sqlite", 0), 2)
    ctx.partial.append("PARTIAL: 'resumed result = uninterrupted result' is proved at the level of the reducer state (the resumed "
                       "state holds exactly the work of the replayed state) and checked on executions at every crash point; the "
                       "desired resume_any_prefix is refuted (C13_resume_any_prefix_refuted) - known findings " + K_RETURNED +
                       ", " + K_SENT)


def replay(ctx, path):
    print(json.dumps(json.load(open(path)), indent=1)[:6000])
    run(ctx)
