"""C25 — The keyed lock gives per-key mutual exclusion and cleans up."""
import json
import multiprocessing
import random

from suites import keyedlock as K

THEOREMS = ("C25_mutual_exclusion / C25_refs_count_and_locks_iff / C25_no_state_when_all_gone / "
            "C25_independence_* / C25_no_deadlock / C25_waiter_eventually_enters / C25_fifo_enter")

# key assignments up to renaming of keys (restricted growth strings); n = 4 restricted to <= 3 keys
CONFIGS_QUICK = [[0], [0, 0], [0, 1], [0, 0, 0], [0, 0, 1], [0, 1, 2]]
CONFIGS_THOROUGH = [[0, 1, 0], [0, 1, 1],
                    [0, 0, 0, 0], [0, 0, 0, 1], [0, 0, 1, 2]]


def pretty(sched):
    return [K.show(c) for c in sched]


def run(ctx):
    ctx.rule = ("(a) every state reachable by ANY schedule of run/open/cancel choices for every key assignment of "
                "<=3 tasks (thorough: <=4 tasks, <=3 keys; for 4 tasks only the choices that are not no-ops) is enumerated on the real KeyedLock by a hand-stepped "
                "event loop and every transition out of it is compared with the model; (b) random forced schedules "
                "for 1-6 tasks over 1-3 keys biased to cancel queued / freshly woken / in-body tasks, completed "
                "fairly; (c) natural runs on an ordinary running loop (asyncio's own FIFO order, recorded); the same "
                "for plain asyncio.Lock objects (trusted primitive); (d) 2-4 worker tasks that each take their key 2-4 times in a "
                "row with 0-2 yields outside/inside (monitor only). distinct key = (mode, key assignment, schedule)")
    ctx.prove()
    rng = random.Random(ctx.seed)
    exprs, meta = [], []
    failures = []          # (clause, text, replay dict)

    def note(mon, rep):
        for clause, text in mon:
            failures.append((clause, text, rep))

    # ---- (b) random forced schedules on the real KeyedLock ----
    stats_total = {}
    n_forced = ctx.n(220, 2000)
    maxn = 0
    for i in range(n_forced):
        keys = K.gen_keys(rng)
        segs, mon, sched, stats = K.random_schedule(rng, keys)
        for k, v in stats.items():
            stats_total[k] = stats_total.get(k, 0) + v
        exprs.append(K.case_expr(keys, segs))
        meta.append(dict(suite="keyedlock", mode="forced", keys=keys, schedule=pretty(sched)))
        ctx.count(len(sched), ("forced", tuple(keys), tuple(sched)))
        maxn = max(maxn, len(keys))
        note(mon, dict(kind="implementation-monitor", mode="forced", keys=keys, schedule=pretty(sched),
                       schedule_codes=sched))
        if i < 3:
            ctx.sample(dict(mode="forced", keys=keys, schedule=pretty(sched)))
    # ---- (d) looping workers (monitor only: a task that takes the key again is just another acquirer) ----
    n_loop = ctx.n(120, 1500)
    loop_contended = 0
    for i in range(n_loop):
        seed = rng.randrange(1 << 30)
        mon, facts = K.loop_run(random.Random(seed))
        loop_contended += facts["contended_acquires"]
        ctx.count(1, ("loop", tuple(facts["keys"]), facts["rounds"], seed % 1000))
        note(mon, dict(kind="implementation-monitor", mode="looping-workers", seed=seed, keys=facts["keys"], plan=facts["plan"]))
    ctx.programs += n_loop
    ctx.suite("keyedlock.loops", cases=n_loop, contended_acquires=loop_contended)
    ctx.require_coverage("keyedlock.loops", "contended_acquires", loop_contended, 50)
    # ---- (c) natural runs ----
    n_nat = ctx.n(80, 800)
    nat_steps = 0
    for i in range(n_nat):
        keys = K.gen_keys(rng)
        seed = rng.randrange(1 << 30)
        segs, mon, log = K.natural_run(random.Random(seed), keys)
        nat_steps += len(log)
        exprs.append(K.case_expr(keys, segs))
        meta.append(dict(suite="keyedlock", mode="natural", keys=keys, seed=seed, steps=pretty(log)))
        ctx.count(len(log), ("natural", tuple(keys), tuple(log)))
        note(mon, dict(kind="implementation-monitor", mode="natural", keys=keys, driver_seed=seed, steps=pretty(log)))
        if i < 2:
            ctx.sample(dict(mode="natural", keys=keys, steps=pretty(log)))
    # ---- trusted primitive: plain asyncio.Lock ----
    n_plain = ctx.n(120, 1000)
    first_plain = len(exprs)
    for i in range(n_plain):
        keys = K.gen_keys(rng)
        if i % 4 == 3:
            seed = rng.randrange(1 << 30)
            segs, mon, log = K.natural_run(random.Random(seed), keys, mode="plain")
            m = dict(suite="asynciolock", mode="natural", keys=keys, seed=seed, steps=pretty(log))
            ctx.count(len(log), ("plain-natural", tuple(keys), tuple(log)))
        else:
            segs, mon, sched, stats = K.random_schedule(rng, keys, mode="plain")
            m = dict(suite="asynciolock", mode="forced", keys=keys, schedule=pretty(sched))
            ctx.count(len(sched), ("plain", tuple(keys), tuple(sched)))
        exprs.append(K.case_expr(keys, segs, "plain"))
        meta.append(m)
        for clause, text in mon:
            failures.append(("asyncio-" + clause, text, dict(kind="asyncio.Lock monitor", **m)))
    # ---- (a) exhaustive exploration ----
    jobs = [(c, False, len(c) <= 2) for c in CONFIGS_QUICK]
    if ctx.tier == "thorough":
        jobs += [(c, len(c) > 3, False) for c in CONFIGS_THOROUGH]
    with multiprocessing.get_context("fork").Pool(min(len(jobs), 12)) as pool:
        results = pool.map(K.explore_job, jobs, chunksize=1)
    explored = {}
    for keys, fexprs, nstates, ntrans, maxlen, fails in results:
        explored["".join(map(str, keys))] = dict(states=nstates, transitions=ntrans, longest_path=maxlen)
        for k, e in enumerate(fexprs):
            exprs.append(e)
            meta.append(dict(suite="keyedlock", mode="exhaustive", keys=keys, state_index=k))
        for k in range(nstates):
            ctx.count(1, ("exhaustive", tuple(keys), k))
        ctx.count(ntrans - nstates)
        for (clause, text), path in fails:
            failures.append((clause, text, dict(kind="implementation-monitor", mode="exhaustive", keys=keys,
                                                schedule=pretty(path), schedule_codes=path)))
    ctx.programs += n_forced + n_nat + n_plain + sum(v["states"] for v in explored.values())

    res = ctx.run_cases("keyedlock", K.HEADER, exprs, shard=250)
    bad = [i for i, z in enumerate(res) if z != 0]
    bad_kl = [i for i in bad if meta[i]["suite"] == "keyedlock"]
    bad_pl = [i for i in bad if meta[i]["suite"] == "asynciolock"]
    ctx.suite("keyedlock", forced_cases=n_forced, natural_cases=n_nat, natural_steps=nat_steps, max_tasks=maxn,
              exhaustive=explored, disagreements=len(bad_kl), **stats_total)
    ctx.suite("asynciolock", cases=n_plain, disagreements=len(bad_pl))
    ctx.suite("keyedlock.monitor", failures=len(failures))
    for c in ("cancel_pending_waiter", "cancel_woken_waiter", "cancel_in_cs", "cancel_before_start", "queued"):
        ctx.require_coverage("keyedlock", c, stats_total.get(c, 0), 5)
    ctx.require_coverage("keyedlock", "exhaustive_states", sum(v["states"] for v in explored.values()), 2500)
    ctx.disagreements += len(bad)
    ctx.disagreements_checked = len(bad)

    seen = set()
    for clause, text, rep in failures:
        if clause in seen:
            continue
        seen.add(clause)
        rep = dict(rep)
        rep["replay_hint"] = "suites.keyedlock.run_schedule(keys, schedule_codes, finish=True) re-executes the schedule"
        ctx.finding("C25/" + clause, "C25 fails on the real KeyedLock (%s): %s" % (clause, text), rep)
    if bad and not failures:
        first = meta[bad[0]]
        ctx.violation("model/implementation disagreement in suite %s (no property-level failing input found)"
                      % first["suite"],
                      dict(suite=first["suite"], theorem=THEOREMS, first_differing_observation=res[bad[0]],
                           cases=[meta[i] for i in bad[:3]], coq_exprs=[exprs[i][:1500] for i in bad[:2]],
                           n_disagreements=len(bad)),
                      found_input=False)
    elif bad:
        ctx.notes.append("%d model/implementation disagreements accompany the monitor failures" % len(bad))
    ctx.trusted.append("asyncio.Lock / Task.cancel semantics of CPython 3.12 as written in Base/SchedKL.v "
                       "(compared with the real objects by suite asynciolock on every run)")
    ctx.trusted.append("hand-stepped event loop: handles of loop._ready are run one at a time in the order the schedule "
                       "dictates (asyncio.events._set_running_loop); the body of a holder is `await gate`")
    ctx.assumptions.append("each task acquires one key once (no nested acquisition inside a critical section); "
                           "the body of the critical section does not swallow CancelledError")


def replay(ctx, path):
    d = json.load(open(path))
    print(json.dumps(d, indent=1)[:3000])
    if "schedule_codes" in d:
        segs, mon, sched = K.run_schedule(d["keys"], d["schedule_codes"], finish=True)
        print("re-executed: monitor failures =", mon)
        for clause, text in mon[:1]:
            ctx.finding("C25/" + clause, "C25 fails on the real KeyedLock (%s): %s" % (clause, text),
                        dict(kind="implementation-monitor/replay", keys=d["keys"], schedule=pretty(sched),
                             schedule_codes=sched))
        ctx.prove()
    else:
        run(ctx)
