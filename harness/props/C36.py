"""C36 — Idle runs are released after the idle timeout and reloaded on demand."""
import os
import random

from props._idle_common import run_inprocess

THEOREMS = ("C36_idle_event_marks_handler / C36_marked_idle_run_has_releaser / C36_released_after_timeout / "
            "C36_released_handler_marked_idle / C36_next_event_reloads")


def run(ctx):
    ctx.rule = ("in-process: fixed witness scenarios + generated scenarios (sends before/at/after the release instant, "
                "idle_timeout 0..1.5 s, self-sent events, retries, waits, crashes, suspending store) on the real runtime "
                "chain under virtual time, each compared action by action with M-IdleRelease and (no crash) with a "
                "never-released reference run; DBOS: real DBOSIdleReleaseDecorator over the real engine with the real "
                "SqliteRunLifecycleLock; distinct key = (scenario kind, idle_timeout, store mode, #releases, #reloads, "
                "#idle marks, #sends, outcome, findings)")
    ctx.prove()
    run_inprocess(ctx, "C36", ctx.n(66, 4000), THEOREMS, need=(("undisturbed_idle_periods", 10), ("sent_inside_a_release", 2)))

    # ---- DBOS stack
    from suites import lifecycle as L
    rng = random.Random(ctx.seed * 31 + 5)
    d = os.path.join(ctx.scratch, "dbos")
    os.makedirs(d, exist_ok=True)
    never, released_with_row = 0, 0
    n = ctx.n(3, 24)
    for k in range(n):
        tau = rng.choice([0.125, 0.5, 1.0, 2.0])
        idle_for = tau * rng.choice([3, 10, 40]) + 1.0
        o = L.drive_decorator(os.path.join(d, "d%d.db" % k), tau, idle_for, create_row=False)
        ctx.count(1, ("dbos-decorator", tau, idle_for, tuple(map(str, o["calls"])), o["loop_alive"]))
        attempts = [c for c in o["calls"] if c[0] == "begin_release"]
        if not attempts:
            ctx.violation("C36 (DBOS): idle for %.3f s with idle_timeout %.3f s but no release was attempted" % (idle_for, tau),
                          dict(kind="implementation-monitor/dbos-decorator", idle_timeout=tau, idle_for=idle_for, observed=o))
        elif o["loop_alive"] and not any(c[1] for c in attempts):
            never += 1
            ctx.finding("C36/dbos-lifecycle-row-never-created",
                        "C36 fails on the DBOS stack: run idle for %.3f s (idle_timeout %.3f s) is never released: "
                        "begin_release returned False, lifecycle row %r" % (idle_for, tau, o["row"]),
                        dict(kind="implementation-monitor/dbos-decorator", idle_timeout=tau, idle_for=idle_for, observed=o,
                             create_call_sites=L.create_call_sites(),
                             replay_hint="suites.lifecycle.drive_decorator(path, idle_timeout, idle_for, create_row=False)"))
        elif o["loop_alive"]:
            ctx.violation("C36 (DBOS): begin_release succeeded but the run is still in memory",
                          dict(kind="implementation-monitor/dbos-decorator", observed=o))
        # what the protocol does when the row exists (the harness creates it: not a claim about the product)
        o2 = L.drive_decorator(os.path.join(d, "e%d.db" % k), tau, idle_for, create_row=True)
        if (not o2["loop_alive"]) and o2["row"] == ("released",) and o2["idle_since_set"]:
            released_with_row += 1
        else:
            ctx.violation("C36 (DBOS): with a lifecycle row the idle run is not released / not marked idle",
                          dict(kind="implementation-monitor/dbos-decorator", idle_timeout=tau, idle_for=idle_for, observed=o2))
    ctx.programs += 2 * n
    ctx.suite("dbos-decorator", runs=2 * n, never_released_without_row=never, released_with_row=released_with_row,
              create_call_sites=L.create_call_sites())
    ctx.require_coverage("dbos-decorator", "released_with_row", released_with_row)
    ctx.partial.append("PARTIAL (DBOS stack): the DBOS library is absent; DBOSIdleReleaseDecorator is driven over BasicRuntime "
                       "with the real SqliteRunLifecycleLock, so what DBOS itself does with a released workflow "
                       "(send/recv/retrieve_workflow/delete_workflow) is a named assumption; PostgresRunLifecycleLock is "
                       "modelled (same CAS statements) but not executed")
    ctx.partial.append("REFUTED (DBOS stack): C36_dbos_release_refuted -- no call site of RunLifecycleLock.create, so no "
                       "lifecycle row exists and begin_release never succeeds (known finding)")
    ctx.assumptions.append("abort() of the control loop ends the loop atomically (no further tick is processed)")
    ctx.assumptions.append("server-start resumption and a sender's reload do not overlap (true for stores whose reads do not "
                           "suspend); the overlap is modelled, refuted and reported as a finding under C26")
    ctx.trusted.append("suites/idlerel.py: recording subclasses of the store, KeyedLock, BasicRuntime and the runtime "
                       "decorators; mapping of hook calls to M-IdleRelease actions")


def replay(ctx, path):
    import json
    print(json.dumps(json.load(open(path)), indent=1)[:6000])
    run(ctx)
