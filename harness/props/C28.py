"""C28 — SQLite schema migrations converge from any earlier schema."""
import collections
import json
import random

import core
from suites import migrations as M

THEOREMS = ("C28_prefix_converges, C28_idempotent, C28_every_version_recorded_once, C28_legacy_converges, "
            "C28_failed_run_leaves_prefix_state, C28_instance_converges")


def run(ctx):
    try:
        _run(ctx)
    except core.CheckError:
        raise
    except Exception as e:  # noqa: BLE001 - an unexpected harness exception is a machinery error, not a verdict
        raise core.CheckError("unexpected exception in the C28 harness: %r" % e) from e


def _run(ctx):
    ctx.rule = ("instance: the packaged scripts from every start (fresh, each prefix built by the real runner on the "
                "first k files, each legacy user_version), three comparisons per start (start database, first run, "
                "second run); generated: random migration lists x random start (fresh / prefix / legacy / odd "
                "user_version / foreign table) x two runs; distinct key = (start kind, #packages, raised?, #tables, "
                "#indexes, #rows after the run, files per package)")
    proved = ctx.prove()
    model_ok = proved
    if not proved:
        model_ok, _ = core.coq_make(["theories/Model/Migrate.vo"])
    ws = M.Workspace(ctx.scratch)
    cov = collections.Counter()
    try:
        exprs, metas, fails, info = M.instance_stream(ctx, ws)
        n_inst = len(exprs)
        rng = random.Random(ctx.seed)
        n = ctx.n(120, 3000)
        for i in range(n):
            e, m, f = M.generated_case(ctx, ws, rng, i, cov)
            exprs += e
            metas += m
            fails += f
    finally:
        ws.close()
    ctx.programs = n + info["starts"]

    bad = []
    if model_ok:
        res = run_cases_robust(ctx, "migrations", M.HEADER, exprs, 120, ["theories/Model/Migrate.vo"])
        bad = [i for i, z in enumerate(res) if z != 0]
        codes = collections.Counter(res[i] for i in bad)
    else:
        codes = {}
        ctx.notes.append("Model/Migrate.v does not build (translator rejected a script?): the model side of the "
                         "correspondence was not evaluated; implementation monitors were")
    ctx.disagreements = len(bad)
    ctx.disagreements_checked = len(bad)
    ctx.suite("migrations", instance_comparisons=n_inst, generated_lists=n, comparisons=len(exprs),
              disagreements=len(bad), disagreement_codes={str(k): v for k, v in dict(codes).items()},
              monitor_failures=len(fails), packaged_files=info["files"], starts=info["starts"], **dict(cov))
    ctx.partial.append("PARTIAL: SQLite itself is modelled only for the DDL fragment the translator recognises (CREATE "
                       "TABLE / ALTER TABLE ADD COLUMN / CREATE INDEX on empty tables); table contents, the WAL "
                       "pragma and lock retries are not modelled")
    ctx.trusted.append("harness/translate_sql.py: parser of the migration scripts into abstract statements (fail-closed; "
                       "parse(render(ops)) == ops checked on every generated script; its output is what the instance "
                       "theorem speaks about and is compared with real sqlite3 from every start)")
    ctx.assumptions.append("a legacy database at user_version k is one on which scripts 1..k were executed in order and "
                           "no schema_migrations table exists (definition used by C28_legacy_converges and by the suite)")

    for f in fails[:3]:
        ctx.violation("C28 fails on the implementation: %s" % f["why"][:400],
                      dict(kind="implementation-monitor", input=f,
                           replay_hint="write the listed files into a package directory (or use the packaged migrations "
                                       "for kind=instance), build the start database as described and call run_migrations"))
    if bad and not fails:
        small = sorted(bad, key=lambda i: len(exprs[i]))[:3]
        ctx.violation("model/implementation disagreement in suite migrations (no property-level failing input found)",
                      dict(suite="migrations", theorems=THEOREMS, cases=[metas[i] for i in small],
                           codes="1 raised/not raised, 2 catalogue, 3 schema_migrations rows, 4 user_version",
                           coq_exprs=[exprs[i][:6000] for i in small]), found_input=False)
    elif bad:
        ctx.notes.append("%d model/implementation disagreements accompany the monitor failures" % len(bad))
    if not fails:
        # (a monitor failure cuts scenarios short, so the counters are only meaningful on a clean run)
        for k in ("run_ok", "run_failed", "repair_compared", "bootstrap_seeded", "duplicate_versions",
                  "zero_version_files", "convergence_compared_prefix", "convergence_compared_legacy", "start_fresh",
                  "start_prefix", "start_legacy", "start_legacy-odd", "start_foreign"):
            ctx.require_coverage("migrations", k, cov[k], 1 if ctx.tier == "quick" else 10)
        ctx.require_coverage("migrations", "packaged_files", info["files"])


def run_cases_robust(ctx, name, header, exprs, shard, vos):
    """Like ctx.run_cases, but evaluated against a private snapshot of the compiled model.

    The .vo files under coq/theories are shared by all checks; a concurrent check that regenerates
    Generated.v (e.g. a run against another VERIF_REPO) recompiles Generated.vo and makes every dependent
    .vo stale in the middle of a long evaluation ("makes inconsistent assumptions").  So: build `vos`,
    copy them together with Generated.vo into the scratch directory while holding the build lock, check the
    snapshot loads, and evaluate all case shards with `-Q <snapshot> WF`."""
    import os
    import re
    import shutil
    from concurrent.futures import ThreadPoolExecutor
    if not exprs:
        return []
    snap = os.path.join(ctx.scratch, "snap_" + re.sub(r"\W", "_", name))
    probe = os.path.join(ctx.scratch, "snap_probe_%s.v" % re.sub(r"\W", "_", name))
    mods = [v[len("theories/"):-3].replace("/", ".") for v in vos]
    for attempt in range(6):
        ok, out = core.coq_make(vos)
        if not ok:
            raise core.CheckError("cannot build %s:\n%s" % (vos, out[-2000:]))
        shutil.rmtree(snap, ignore_errors=True)
        with core.coq_lock():
            for rel in ["theories/Generated.vo"] + list(vos):
                dst = os.path.join(snap, rel[len("theories/"):])
                os.makedirs(os.path.dirname(dst), exist_ok=True)
                shutil.copy(os.path.join(core.COQ, rel), dst)
        with open(probe, "w") as f:
            f.write("From WF Require Import %s.\n" % " ".join(mods))
        rc, out = core.sh(["timeout", "300", "coqc", "-Q", snap, "WF", "-o", probe[:-2] + ".vo", probe], cwd=ctx.scratch)
        if rc == 0:
            break
    else:
        raise core.CheckError("could not obtain a consistent snapshot of %s:\n%s" % (vos, out[-2000:]))
    d = os.path.join(ctx.scratch, "cases_" + re.sub(r"\W", "_", name))
    os.makedirs(d, exist_ok=True)
    files = []
    for k in range(0, len(exprs), shard):
        fn = os.path.join(d, "c%d.v" % (k // shard))
        with open(fn, "w") as f:
            f.write(header + "\n")
            f.write("Definition results : list Z := %s.\n" % core.glist("(%s)" % e for e in exprs[k:k + shard]))
            f.write("Eval vm_compute in results.\n")
        files.append(fn)

    def one(fn):
        rc, out = core.sh(["timeout", "900", "coqc", "-Q", snap, "WF", "-o", fn[:-2] + ".vo", fn], cwd=ctx.scratch,
                          timeout=930)
        if rc != 0:
            raise core.CheckError("case file failed to evaluate (%s):\n%s" % (fn, out[-3000:]))
        return core.parse_zlist(out)

    with ThreadPoolExecutor(max_workers=core.NPROC) as ex:
        parts = list(ex.map(one, files))
    res = [z for part in parts for z in part]
    if len(res) != len(exprs):
        raise core.CheckError("case count mismatch in %s: %d vs %d" % (name, len(res), len(exprs)))
    return res


def replay(ctx, path):
    body = json.load(open(path))
    print(json.dumps(body, indent=1)[:20000])
    if "seed" in body:
        ctx.seed = int(body["seed"])
    run(ctx)
