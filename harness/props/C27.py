"""C27 — DBOS recovery replays a run to the same execution (PARTIAL: DBOS library absent; timeouts refuted)."""
import json
import random
import time

import core
from suites import journal as J

THEOREMS = ("C27_replay_same_order_partial / C27_journal_extends_no_double_handout / "
            "C27_recovery_after_any_number_of_crashes / C27_purge_* / C27_same_ticks_same_reduction")
FINDING = "C27/timeout-not-journaled"


def flavour(i):
    # half of the workflows never arm a timer (the proved domain); the rest exercise the refuted clause too
    return dict(timers=(i % 2 == 1), dups=(i % 11 == 7), stale=(i % 9 == 4), style="dbos" if i % 3 else "free")


def run(ctx, only=None):
    ctx.rule = ("jops: random TaskJournal/JournalCrud operation scripts on a sqlite file; loop: generated toy workflows "
                "(history -> keys to start / timer / function id), a first process, a recovered process from the "
                "database at EVERY quiescent point of the first one with its own completion order (memoised-at-once "
                "or free), and second crashes; distinct key = (journal length at the crash, results handed over, fresh "
                "suffix length, timer fired, fallback taken, simultaneous completions, duplicate keys, stale rows, style)")
    t0 = time.time()
    timing = {}
    ctx.prove()
    timing['prove'] = round(time.time() - t0, 1)
    rng = random.Random(ctx.seed)
    dbs = J.Dbs(ctx.scratch)

    # ---------------- L0: TaskJournal / crud scripts
    exprs, meta = [], []
    kinds = {}
    for i in range(ctx.n(120, 2500)):
        e, rec, k = J.run_jops(rng, dbs, rng.randrange(6, 30))
        exprs.append(e)
        meta.append(rec)
        for a, b in k.items():
            kinds[a] = kinds.get(a, 0) + b
        ctx.count(1, ("jops", tuple(x.split()[0] for x in rec["ops"])))
    timing['jops_py'] = round(time.time() - t0, 1)
    res = ctx.run_cases("jops", J.HEADER, exprs, shard=max(8, len(exprs) // 16 + 1))
    timing['jops_coq'] = round(time.time() - t0, 1)
    bad_jops = [i for i, z in enumerate(res) if z != 0]
    ctx.suite("journal.jops", cases=len(exprs), disagreements=len(bad_jops), op_kinds=kinds)
    for k in ("record", "load", "purge", "rawtrunc", "new"):
        ctx.require_coverage("journal.jops", k, kinds.get(k, 0), 5)

    # ---------------- loop: first run x every crash point x recovered completion orders
    nbase = ctx.n(90, 1100)
    bases, tot, fails = [], {}, []
    for i in range(nbase):
        seed = "%d/%d" % (ctx.seed, i)
        if only is not None and seed != only.get("seed"):
            continue
        b = J.gen_base(seed, dbs, only.get("flavour") if only else flavour(i))
        if b is None:
            continue
        bases.append(b)
        for k, v in b["stats"].items():
            tot[k] = tot.get(k, 0) + v
        fails += b["fails"]
        for rows, ops, rec in b["runs"]:
            jl = len(J.journal_keys(rows)[0])
            h = rec["snaps"][-1][2]
            ctx.count(1, ("loop", jl, len(h), max(0, sum(1 for x in h if x >= 0) - jl), rec["tmo_fired"] > 0,
                          rec["warnings"] > 0, rec["multi_done"] > 0, rec["dupkeys"], b["flavour"]["stale"],
                          b["flavour"]["style"]))
        if i < 3:
            rows, ops, rec = b["runs"][min(1, len(b["runs"]) - 1)]
            ctx.sample(dict(start_journal=[J.KEYS[k] for k in J.journal_keys(rows)[0]], schedule=rec["events"][:14],
                            results=[J.KEYS[k] if k >= 0 else "timeout" for k in rec["snaps"][-1][2]]))
    timing['loop_py'] = round(time.time() - t0, 1)
    lexprs = [b["expr"] for b in bases]
    lres = ctx.run_cases("loop", J.HEADER, lexprs, shard=max(4, min(60, len(lexprs) // 16 + 1)))
    timing['loop_coq'] = round(time.time() - t0, 1)
    bad_loop = [i for i, z in enumerate(lres) if z != 0]
    ctx.suite("journal.loop", workflows=len(bases), disagreements=len(bad_loop), **tot)
    ctx.programs = len(bases) + len(exprs)
    ctx.disagreements = len(bad_jops) + len(bad_loop)

    # ---------------- the real control loop around the real adapter: the model's loop hypotheses
    contract_bad, cstat = [], dict(runs=0, calls=0, handed=0, timeouts=0, key_reuse=0, completed=0)
    for i in range(ctx.n(40, 500) if only is None else 0):
        r = J.engine_contract("%d/%d" % (ctx.seed, i), dbs)
        cstat["runs"] += 1
        cstat["calls"] += r["ncalls"]
        cstat["handed"] += r["nhanded"]
        cstat["timeouts"] += r["timeouts"]
        cstat["key_reuse"] += r["reused"]
        cstat["completed"] += 1 if r["done"] else 0
        ctx.count(1, ("engine", tuple(r["template"]), r["ncalls"], r["timeouts"] > 0, r["reused"] > 0))
        if r["bad"]:
            contract_bad.append(r)
    ctx.suite("journal.engine_contract", failures=len(contract_bad), **cstat)
    timing['engine'] = round(time.time() - t0, 1)
    for r in contract_bad[:2]:
        ctx.violation("C27: the real control loop breaks the calling convention the journal model assumes: %s" % r["bad"][0],
                      dict(kind="implementation-monitor", suite="journal.engine_contract", case=r,
                           hypothesis="prog_distinct / loop bookkeeping of Model/Journal.v (enter, finish)"))

    # ---------------- the property on the real outputs
    unknown = 0
    seen_keys = set()
    for key, text, rp in fails:
        if key is None:
            unknown += 1
            if unknown <= 3:
                ctx.violation("C27 fails on the implementation: " + text,
                              dict(kind="implementation-monitor", suite="journal.loop", case=rp,
                                   replay_hint="bin/check C27 --replay <this file> re-runs this workflow/seed"))
        elif key not in seen_keys:
            seen_keys.add(key)      # one report per structural key; the count is in the evidence
            ctx.finding(key, text, dict(kind="implementation-monitor", suite="journal.loop", case=rp))
    ctx.suite("journal.monitor", failures_unknown=unknown,
              failures_known=sum(1 for k, _, _ in fails if k is not None))

    # ---------------- durability of a fresh completion on a journal whose INSERT takes time
    sw = []
    for which in (0, 1):
        why, facts = J.slow_write_case(dbs, which)
        sw.append(facts)
        ctx.count(1, ("journal-slow-write", which, facts.get("returned_before_the_write_landed")))
        if why:
            ctx.violation("C27 fails on the implementation: %s" % why,
                          dict(kind="implementation-monitor", suite="journal.slow_write", input=facts,
                               replay_hint="suites.journal.slow_write_case(dbs, which) on the real InternalDBOSAdapter + SqliteJournalCrud "
                                           "whose insert takes 5 virtual seconds"))
    ctx.suite("journal.slow_write", cases=2, observations=sw)

    # ---------------- the refutation witness (Proofs/JournalProofs.v timeout_divergence) on the real code
    ok_first, diverges, as_model, detail = J.witness_timeout(dbs)
    ctx.suite("journal.witness", first_run_as_expected=ok_first, diverges=diverges, matches_model=as_model)
    if detail["anomalies"]:
        ctx.violation("C27 fails on the implementation: wait_for_next_task broke its contract in the witness scenario: %s"
                      % detail["anomalies"][:2], dict(kind="refutation-witness", detail=detail))
    elif not ok_first:
        if not ctx.violations:
            raise core.CheckError("witness scenario did not run as scripted: %s" % (detail,))
        ctx.notes.append("witness scenario did not run as scripted (implementation already reported as failing)")
    elif diverges:
        ctx.finding(FINDING, "recorded %s; recovered loop observed %s, journal afterwards %s" % (
            detail["recorded_journal"], detail["recovered_results"], detail["journal_after_recovery"]),
            dict(kind="refutation-witness", theorem="C27_timeout_divergence_refuted", detail=detail))
        if not as_model:
            ctx.notes.append("witness diverges on the implementation but not exactly as the model computes")
    else:
        ctx.notes.append("finding %s no longer reproduces on the witness (recovered order equals the recorded one)" % FINDING)

    # ---------------- disagreements without a property-level failing input
    ctx.disagreements_checked = len(bad_jops) + len(bad_loop)
    if (bad_jops or bad_loop) and not unknown:
        cases = []
        for i in bad_jops[:3]:
            cases.append(dict(suite="journal.jops", ops=meta[i]["ops"], implementation_output=meta[i]["out"]))
        for i in bad_loop[:2]:
            b = bases[i]
            k = lres[i] - 1
            info = dict(suite="journal.loop", seed=b["seed"], flavour=b["flavour"], run_index=k)
            if 0 <= k < len(b["runs"]):
                rows, ops, rec = b["runs"][k]
                try:
                    model = ctx.eval_terms(J.HEADER, J.diag_terms(b["prog"], rows, ops, rec))
                except core.CheckError as e:
                    model = []
                    info["diag_error"] = str(e)[:300]
                for (nev, obs, hist, *_), m in zip(rec["snaps"], model):
                    if list(obs) != list(m):
                        info.update(events=rec["events"][:nev], start_rows=rows, start_ops=ops,
                                    implementation_observable=list(obs), model_observable=list(m),
                                    layout="db rows | ops | journal entries, index | purge flag | results | handed uids | fallbacks")
                        break
            cases.append(info)
        ctx.violation("model/implementation disagreement in suite journal (no property-level failing input found)",
                      dict(suite="journal", theorems=THEOREMS, cases=cases), found_input=False)
    elif bad_jops or bad_loop:
        ctx.notes.append("%d model/implementation disagreements accompany the monitor failures"
                         % (len(bad_jops) + len(bad_loop)))

    # generators fail closed — but only when the implementation behaved (a broken implementation legitimately
    # changes what the loop explores; that is reported above as a violation, not as a machinery error)
    if only is None and not ctx.violations:
        for k, m in (("crash_points", 50), ("in_domain", 50), ("transitions", 20), ("mid_replay_crash", 3),
                     ("memo_runs", 20), ("tmo_fired", 5), ("multi_done", 10), ("second_crash", 10), ("stale", 2),
                     ("purge_effective", 5), ("fallbacks", 1), ("nonfirst_pick", 5), ("dup_runs", 1)):
            ctx.require_coverage("journal.loop", k, tot.get(k, 0), m)
        for k, m in (("completed", 20), ("handed", 200), ("key_reuse", 20), ("timeouts", 1)):
            ctx.require_coverage("journal.engine_contract", k, cstat[k], m)
    timing['end'] = round(time.time() - t0, 1)
    ctx.suite("journal.timing_cumulative_s", **timing)
    ctx.partial.append("PARTIAL: DBOS is absent from the sandbox; `a recovered DBOS step returns its recorded output and "
                       "_durable_time its recorded value` is the hypothesis dbos_memo of C27_same_ticks_same_reduction, "
                       "and the recovered runs of the tie simulate it (recorded tasks complete at once)")
    ctx.partial.append("PARTIAL: the same-order clause is proved for executions without a timed-out wait in the recorded/"
                       "replayed part; with timers it is refuted (C27_timeout_divergence_refuted, finding %s)" % FINDING)
    ctx.trusted += [
        "dbos / sqlalchemy / asyncpg name-only stubs (harness/shims_ext); operation_outputs created by the harness "
        "with the two columns the purge statement names",
        "the bookkeeping loop of suites/journal.py stands for _ControlLoopRunner.run around wait_for_next_task "
        "(pending/running lists, removal of the completed task) — checked on the real control loop by the "
        "journal.engine_contract monitor; sqlite3 (connections opened with PRAGMA synchronous=OFF) and asyncio primitives",
        "hypothesis prog_distinct: the control loop never has two live tasks with the same key (worker slots, pull "
        "numbers) — monitored on the real control loop, proved for the reducer's slots by C01",
    ]
    ctx.assumptions.append("dbos_memo (Section hypothesis): recovered step outputs / durable clock equal the recorded ones")


def replay(ctx, path):
    rp = json.load(open(path))
    print(json.dumps({k: rp[k] for k in rp if k not in ("case",)}, indent=1)[:3000])
    case = rp.get("case") or {}
    if case.get("seed") and case.get("flavour"):
        print(json.dumps({k: case[k] for k in ("seed", "tag", "flavour", "start_rows", "events", "results") if k in case},
                         indent=1))
        run(ctx, only=dict(seed=case["seed"], flavour=case["flavour"]))
    else:
        run(ctx)
