"""C31 — Timeout and cancellation stop the run cleanly and keep it resumable."""
import asyncio
import json
import random

import vloop
from props._engine_common import run_l1, run_l2, report_l2
from suites import engine as E, engine_specs as S
from workflows import Context
from workflows.errors import WorkflowCancelledByUser, WorkflowTimeoutError
from workflows.events import StopEvent, WorkflowCancelledEvent, WorkflowTimedOutEvent
from workflows.runtime.types.commands import CommandHalt, CommandPublishEvent
from workflows.runtime.types.ticks import TickCancelRun, TickTimeout

THEOREMS = "C31_timeout_tick / C31_cancel_tick_keeps_state"


def same_state(a, b):
    return a.is_running == b.is_running and all(
        [id(x.event) for x in a.workers[n].in_progress] == [id(x.event) for x in b.workers[n].in_progress]
        and [id(x.event) for x in a.workers[n].queue] == [id(x.event) for x in b.workers[n].queue]
        and {k: [id(e) for e in v] for k, v in a.workers[n].collected_events.items()}
        == {k: [id(e) for e in v] for k, v in b.workers[n].collected_events.items()}
        and [w.waiter_id for w in a.workers[n].collected_waiters] == [w.waiter_id for w in b.workers[n].collected_waiters]
        for n in a.workers)


def l1_monitor(rec):
    if rec[0] != "tick":
        return []
    _, before, t, after, cmds, now = rec
    out = []
    if isinstance(t, TickTimeout):
        active = [n for n, w in before.workers.items() if w.in_progress]
        pubs = [c.event for c in cmds if isinstance(c, CommandPublishEvent) and isinstance(c.event, WorkflowTimedOutEvent)]
        halts = [c for c in cmds if isinstance(c, CommandHalt)]
        if len(pubs) != 1 or sorted(pubs[0].active_steps) != sorted(active):
            out.append("timeout tick names %s, steps with work in progress are %s" % ([p.active_steps for p in pubs], active))
        if len(halts) != 1 or not isinstance(halts[0].exception, WorkflowTimeoutError):
            out.append("timeout tick does not halt with WorkflowTimeoutError")
        if cmds and not (isinstance(cmds[0], CommandPublishEvent) and isinstance(cmds[0].event, WorkflowTimedOutEvent)):
            out.append("WorkflowTimedOutEvent is not published before the halt")
    if isinstance(t, TickCancelRun):
        if not same_state(before, after):
            out.append("the cancel tick changed the run state (queues / running work / buffers / waiters)")
        kinds = [type(c).__name__ if not isinstance(c, CommandPublishEvent) else type(c.event).__name__ for c in cmds]
        if kinds[:2] != ["WorkflowCancelledEvent", "CommandHalt"] or not isinstance(cmds[1].exception, WorkflowCancelledByUser):
            out.append("cancel tick commands are %s" % kinds)
    return out


def l2_monitor(spec, rec, obs):
    out = []
    mode = spec.get("mode")
    facts = {}
    live = {}
    t_end = None
    for r in rec.log:
        if r["kind"] == "enter":
            live[(r["step"], r["inv"])] = r["step"]
        elif r["kind"] == "exit":
            live.pop((r["step"], r["inv"]), None)
    if obs.done and isinstance(obs.exception, WorkflowTimeoutError) and spec.get("timeout"):
        # a run one of whose steps RETURNED a StopEvent before the deadline has finished first
        t0_ = rec.log[0]["t"]
        early = [r for r in rec.log if r["kind"] == "return" and "Stop" in r["ev"] and r["t"] - t0_ < spec["timeout"]]
        if early:
            out.append("step %s returned a StopEvent %s s after the start, before the timeout of %s s, yet the run was timed out "
                       "(WorkflowTimeoutError)" % (early[0]["step"], early[0]["t"] - t0_, spec["timeout"]))
    if obs.done and obs.exception is None and spec.get("mode") == "stop_race_slow_unwind":
        facts["finished_during_slow_unwind"] = 1
        t0_ = rec.log[0]["t"]
        if any(r["kind"] == "return" and "Stop" in r["ev"] and 0 < spec["timeout"] - (r["t"] - t0_) < 0.5 for r in rec.log):
            # (the engine's wait for the siblings to unwind, at most 0.5 s, straddled the deadline)
            facts["deadline_passed_while_siblings_unwound"] = 1
    if obs.done and isinstance(obs.exception, WorkflowTimeoutError):
        facts["timed_out"] = 1
        ev = [e for e in obs.stream if isinstance(e, WorkflowTimedOutEvent)]
        if len(ev) != 1 or not isinstance(obs.stream[-1], WorkflowTimedOutEvent):
            out.append("WorkflowTimeoutError raised but the stream does not end with one WorkflowTimedOutEvent")
        else:
            # the steps whose bodies were cut off by the timeout are exactly the ones named
            cut = sorted({r["step"] for r in rec.log if r["kind"] == "exit" and r["outcome"] == "cancelled"})
            if sorted(ev[0].active_steps) != cut:
                out.append("WorkflowTimedOutEvent names %s but the steps running at the timeout were %s" % (sorted(ev[0].active_steps), cut))
            if ev[0].timeout != spec.get("timeout"):
                out.append("WorkflowTimedOutEvent.timeout=%s, configured %s" % (ev[0].timeout, spec.get("timeout")))
        t0 = rec.log[0]["t"]
        t_exit = max(r["t"] for r in rec.log)
        if spec.get("timeout") and t_exit - t0 < spec["timeout"]:
            out.append("timed out after %s s although the timeout is %s s" % (t_exit - t0, spec["timeout"]))
    if obs.done and obs.exception is None and spec.get("timeout"):
        facts["finished_before_timeout"] = 1
        if any(isinstance(e, WorkflowTimedOutEvent) for e in obs.stream):
            out.append("a run that produced its result also published WorkflowTimedOutEvent")
    if obs.done and isinstance(obs.exception, WorkflowCancelledByUser):
        facts["cancelled"] = 1
        if not obs.stream or not isinstance(obs.stream[-1], WorkflowCancelledEvent):
            out.append("WorkflowCancelledByUser raised but the stream does not end with WorkflowCancelledEvent")
        tc = next((r["t"] for r in rec.log if r["kind"] == "external" and r.get("ev") == "cancel"), None)
        idx = next((i for i, r in enumerate(rec.log) if r["kind"] == "external" and r.get("ev") == "cancel"), None)
        if idx is not None:
            later = [r for r in rec.log[idx + 1:] if r["kind"] == "enter"]
            if later:
                out.append("steps started after cancel_run: %s" % [(r["step"], r["i"]) for r in later])
    return out, facts


async def _resume_after_cancel(seed, hang=False):
    """run a gated fan-out, cancel it at a random moment, serialize the context through JSON, resume it on a fresh
    workflow object and drive it to the end; returns (cancelled?, result of resumed run, expected number of sets)"""
    rng = random.Random(seed)
    rec = E.Recorder()
    spec, _, opts = S.fanout(rng)
    spec["steps"]["b_work"]["policy"] = None
    spec["steps"]["b_work"]["script"] = [("gate", "w"), ("return", S.T2)]
    wf = E.build_workflow(spec, rec)
    ncancel = rng.randint(0, 6)

    def cancel(handler, r):
        r.ev("external", ev="cancel")
        asyncio.ensure_future(handler.cancel_run())
    cancel.label = "cancel_run"
    # open a few gates, then cancel
    handler = wf.run()
    consumer = asyncio.ensure_future(_drain(handler))
    for _ in range(ncancel):
        await vloop.settle()
        if rec.waiting:
            rec.open(rng.choice(rec.waiting))
    await vloop.settle()
    before_cancel_done = handler.is_done() if hasattr(handler, "is_done") else handler._result_task.done()
    if before_cancel_done:
        await asyncio.gather(consumer, return_exceptions=True)
        return dict(cancelled=False)
    await handler.cancel_run()
    await vloop.settle()
    exc = None
    try:
        await handler
    except BaseException as ex:  # noqa: BLE001
        exc = ex
    await asyncio.gather(consumer, return_exceptions=True)
    if not isinstance(exc, WorkflowCancelledByUser):
        return dict(cancelled=False, exc=repr(exc))
    d = json.loads(json.dumps(handler.ctx.to_dict()))
    entered_before = sum(1 for r in rec.log if r["kind"] == "enter")
    # second round (half of the cases): resume, let some steps complete, cancel again, serialize again, resume again
    rounds = 1 if hang else rng.choice([1, 2])
    cur_rec = rec
    for rnd in range(rounds - 1):
        recn = E.Recorder()
        recn.eid = cur_rec.eid
        wfn = E.build_workflow(spec, recn)
        hn = wfn.run(ctx=Context.from_dict(wfn, d))
        cons = asyncio.ensure_future(_drain(hn))
        for _ in range(rng.randint(1, 4)):
            await vloop.settle()
            if recn.waiting and not hn._result_task.done():
                recn.open(rng.choice(recn.waiting))
        await vloop.settle()
        if hn._result_task.done():
            await asyncio.gather(cons, return_exceptions=True)
            return dict(cancelled=True, obs=_DoneObs(hn), rec=recn, spec=spec, entered_before=entered_before, rounds=rnd + 1)
        await hn.cancel_run()
        await vloop.settle()
        try:
            await hn
        except BaseException:  # noqa: BLE001
            pass
        await asyncio.gather(cons, return_exceptions=True)
        try:
            d = json.loads(json.dumps(hn.ctx.to_dict()))
        except Exception as ex:  # noqa: BLE001
            return dict(cancelled=True, error="after cancel, resume, cancel: ctx.to_dict() raised %r" % (ex,), spec=spec,
                        entered_before=entered_before, rounds=rnd + 2)
        cur_rec = recn
    rec2 = E.Recorder()
    rec2.eid = cur_rec.eid
    if hang:
        # the resumed run is a run with a timeout like any other: it never finishes (one gate stays shut), so it must
        # fail with WorkflowTimeoutError after WorkflowTimedOutEvent once the timeout has elapsed since the resume
        T = rng.choice([5.0, 20.0, 60.0])
        wf2 = E.build_workflow(dict(spec, timeout=T), rec2)
        h2 = wf2.run(ctx=Context.from_dict(wf2, d))
        stream = []

        async def collect():
            try:
                async for e in h2.stream_events(expose_internal=True):
                    stream.append(e)
            except Exception:  # noqa: BLE001
                pass
        cons = asyncio.ensure_future(collect())
        for _ in range(rng.randint(0, 3)):
            await vloop.settle()
            if len(rec2.waiting) > 1:
                rec2.open(rng.choice(rec2.waiting))
        await vloop.settle()
        t0 = asyncio.get_running_loop().time()
        await asyncio.sleep(T + 1.0)
        await vloop.settle()
        done = h2._result_task.done()
        exc = None
        if done:
            try:
                h2._result_task.result()
            except BaseException as ex:  # noqa: BLE001
                exc = ex
            await asyncio.gather(cons, return_exceptions=True)
        else:
            cons.cancel()
        return dict(cancelled=True, hang=True, done=done, exc=exc, stream=stream, T=T, rec=rec2, spec=spec,
                    entered_before=entered_before, waited=asyncio.get_running_loop().time() - t0)
    wf2 = E.build_workflow(spec, rec2)
    ctx2 = Context.from_dict(wf2, d)
    obs = await E.drive(wf2, rec2, rng, ctx=ctx2, policy="random")
    return dict(cancelled=True, obs=obs, rec=rec2, spec=spec, entered_before=entered_before, rounds=rounds)


async def _resume_after_cancel_wait(seed):
    """cancel while invocations whose wait_for_event was already RESOLVED are still replaying (parked at a gate after the
    wait), serialize through JSON, resume: the replayed steps must find their waits resolved and the run must finish"""
    rng = random.Random(seed)
    rec = E.Recorder()
    spec, ext, opts = S.waitflow(rng, gate_after=True)
    wf = E.build_workflow(spec, rec)
    handler = wf.run()
    consumer = asyncio.ensure_future(_drain(handler))
    await vloop.settle()
    before = rng.randint(1, len(ext))
    for f in ext[:before]:
        f(handler, rec)
        await vloop.settle()
    parked = len(rec.waiting)
    if handler._result_task.done():
        await asyncio.gather(consumer, return_exceptions=True)
        return dict(cancelled=False)
    if not parked:               # only non-matching responses so far: nothing replays yet; stop the run and skip
        await handler.cancel_run()
        await vloop.settle()
        try:
            await handler
        except BaseException:  # noqa: BLE001
            pass
        await asyncio.gather(consumer, return_exceptions=True)
        return dict(cancelled=False)
    await handler.cancel_run()
    await vloop.settle()
    try:
        await handler
    except BaseException:  # noqa: BLE001
        pass
    await asyncio.gather(consumer, return_exceptions=True)
    d = json.loads(json.dumps(handler.ctx.to_dict()))
    rec2 = E.Recorder()
    rec2.eid = rec.eid
    wf2 = E.build_workflow(spec, rec2)
    obs = await E.drive(wf2, rec2, rng, ctx=Context.from_dict(wf2, d), externals=ext[before:], policy="random")
    return dict(cancelled=True, obs=obs, rec=rec2, spec=spec, parked=parked, delivered_before=[f.label for f in ext[:before]],
                remaining=[f.label for f in ext[before:]])


class _DoneObs:
    """a run that finished before it could be cancelled a second time"""

    def __init__(self, h):
        self.done, self.stuck, self.exception, self.result = True, False, None, None
        try:
            self.result = h._result_task.result()
        except BaseException as ex:  # noqa: BLE001
            self.exception = ex


async def _drain(handler):
    try:
        async for _ in handler.stream_events(expose_internal=True):
            pass
    except Exception:  # noqa: BLE001
        pass


def run(ctx):
    ctx.rule = ("L1: timeout / cancel ticks of random reachable reducer histories (named steps = steps with work in "
                "progress; cancel leaves the state untouched); L2: generated runs hit by the workflow timeout or by "
                "cancel_run at a random moment of a random schedule on the real engine under virtual time; cancelled runs "
                "are serialized through JSON, resumed on a fresh workflow object and driven to their result, or resumed with a "
                "timeout and left unfinished beyond it; distinct key = "
                "history index / run facts / (resume seed, progress at cancel)")
    ctx.prove()
    run_l1(ctx, ctx.n(120, 4000), l1_monitor, THEOREMS, need=("tick_TickCancelRun", "tick_TickTimeout"))
    fails, facts = run_l2(ctx, [S.exits_tc], ctx.n(160, 5000), l2_monitor,
                          need=(("timed_out", 10), ("cancelled", 10), ("finished_before_timeout", 3),
                                ("deadline_passed_while_siblings_unwound", 2)))
    rng = random.Random(ctx.seed * 43 + 7)
    nres, resumed, rf = ctx.n(80, 2000), 0, []
    for i in range(nres):
        seed = rng.randrange(1 << 30)
        r = vloop.run(_resume_after_cancel(seed))
        if not r.get("cancelled"):
            continue
        resumed += 1
        if r.get("error"):
            rf.append(dict(seed=seed, why=r["error"]))
            continue
        obs = r["obs"]
        ctx.count(1, ("resume", r["entered_before"], len(r["rec"].log), r.get("rounds")))
        if not obs.done or obs.exception is not None:
            rf.append(dict(seed=seed, why="a cancelled run, serialized and resumed, did not complete: done=%s exception=%r stuck=%s"
                           % (obs.done, obs.exception, obs.stuck)))
        elif not isinstance(obs.result, tuple) and obs.result is None:
            rf.append(dict(seed=seed, why="resumed run returned no result"))
    nh, hung = ctx.n(40, 800), 0
    for i in range(nh):
        seed = rng.randrange(1 << 30)
        r = vloop.run(_resume_after_cancel(seed, hang=True))
        if not r.get("cancelled") or not r.get("hang"):
            continue
        hung += 1
        ctx.count(1, ("resume-hang", r["entered_before"], len(r["rec"].log), r["T"]))
        tev = [e for e in r["stream"] if isinstance(e, WorkflowTimedOutEvent)]
        if not r["done"]:
            rf.append(dict(seed=seed, hang=True, why="a cancelled run resumed with timeout=%s s and left unfinished is still running "
                           "%s s after the resume: it never timed out" % (r["T"], r["waited"])))
        elif not isinstance(r["exc"], WorkflowTimeoutError):
            rf.append(dict(seed=seed, hang=True, why="a resumed run left unfinished beyond its timeout of %s s ended with %r, not "
                           "WorkflowTimeoutError" % (r["T"], r["exc"])))
        elif len(tev) != 1 or not isinstance(r["stream"][-1], WorkflowTimedOutEvent):
            rf.append(dict(seed=seed, hang=True, why="a resumed run timed out but its stream does not end with one WorkflowTimedOutEvent"))
        else:
            cut = sorted({x["step"] for x in r["rec"].log if x["kind"] == "exit" and x["outcome"] == "cancelled"})
            if sorted(tev[0].active_steps) != cut or tev[0].timeout != r["T"]:
                rf.append(dict(seed=seed, hang=True, why="resumed run: WorkflowTimedOutEvent names %s timeout=%s, the steps cut off were %s, "
                               "configured %s" % (sorted(tev[0].active_steps), tev[0].timeout, cut, r["T"])))
    nw, waited = ctx.n(40, 800), 0
    for i in range(nw):
        seed = rng.randrange(1 << 30)
        r = vloop.run(_resume_after_cancel_wait(seed))
        if not r.get("cancelled"):
            continue
        waited += 1
        obs = r["obs"]
        ctx.count(1, ("resume-wait", r["parked"], tuple(r["remaining"])))
        if not obs.done or obs.exception is not None or obs.result != "done":
            rf.append(dict(seed=seed, wait=True, why="a run cancelled while %d invocations with an already resolved wait_for_event were "
                           "still replaying (responses %s delivered before), serialized and resumed (then given %s), did not finish: "
                           "done=%s result=%r exception=%r stuck=%s"
                           % (r["parked"], r["delivered_before"], r["remaining"], obs.done, obs.result, obs.exception, obs.stuck)))
    ctx.programs += nres + nh + nw
    ctx.suite("engine.resume_after_cancel", attempts=nres, cancelled_and_resumed=resumed, failures=len(rf),
              resumed_and_left_hanging=hung, cancelled_during_wait_replay=waited)
    ctx.require_coverage("engine.resume_after_cancel", "resumed_and_left_hanging", hung, 10)
    ctx.require_coverage("engine.resume_after_cancel", "cancelled_during_wait_replay", waited, 10)
    ctx.require_coverage("engine.resume_after_cancel", "cancelled_and_resumed", resumed, 20)
    for f in rf[:3]:
        ctx.violation("C31 fails on the real engine: %s" % f["why"],
                      dict(kind="implementation-monitor/L2", input=dict(template=("waitflow(gate after wait)" if f.get("wait") else "fanout") + "+cancel+resume" + ("+hang" if f.get("hang") else ""), seed=f["seed"])))
    report_l2(ctx, fails)
    from props._engine_common import run_runnerdiff
    run_runnerdiff(ctx, ctx.n(60, 1500), 'C31_run_loop_timeout_event_is_the_last_stream_event / C31_run_loop_cancelled_event_is_the_last_stream_event / C31_finished_run_is_frozen',
                   need_outcomes=(3, 4))
    ctx.partial.append("a synchronous step running in an executor thread cannot be cancelled by the engine; only async steps "
                       "are scheduled by the deterministic driver")


def replay(ctx, path):
    print(json.dumps(json.load(open(path)), indent=1)[:4000])
    run(ctx)
