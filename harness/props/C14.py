"""C14 — Pending retries and waiter timeouts survive idle release and restart."""
import asyncio
import json

from props._engine_common import run_l1
from props._idle_common import run_inprocess
from workflows.runtime.types.commands import CommandScheduleWaiterTimeout
from workflows.runtime.types.results import AddWaiter
from workflows.runtime.types.ticks import TickStepResult

THEOREMS = ("C14_timers_conserved / C14_no_idle_announcement_while_retry_pending / C14_retry_survives_idle_release / "
            "C14_no_timer_lost_partial")
ENGINE_THEOREMS = "C14_resumed_waiter_schedules_no_timeout / C14_first_registration_schedules_timeout"


def l1_monitor(rec):
    """partial clause on the real reducer: the first registration of a waiter id with a timeout schedules exactly
    one CommandScheduleWaiterTimeout (so in memory the TimeoutError will come)"""
    if rec[0] != "tick":
        return []
    _, before, t, after, cmds, now = rec
    out = []
    if isinstance(t, TickStepResult) and t.step_name in before.workers:
        b = before.workers[t.step_name]
        for r in t.result:
            if isinstance(r, AddWaiter) and r.timeout is not None:
                existed = any(x.waiter_id == r.waiter_id for x in b.collected_waiters)
                nt = sum(1 for c in cmds if isinstance(c, CommandScheduleWaiterTimeout) and c.waiter_id == r.waiter_id)
                if not existed and nt != 1:
                    out.append("new waiter %s with timeout %s: %d timeouts scheduled" % (r.waiter_id, r.timeout, nt))
    return out


def context_resume_witness():
    """DESIGN C14b on the real engine: snapshot inside wait_for_event(timeout=1 s), resume with Context.from_dict."""
    import vloop
    from workflows import Context, Workflow, step
    from workflows.events import HumanResponseEvent, StartEvent, StopEvent
    got = []

    class W3(Workflow):
        @step
        async def s(self, ctx: Context, ev: StartEvent) -> StopEvent:
            try:
                await ctx.wait_for_event(HumanResponseEvent, waiter_id="w", timeout=1.0)
                got.append("event")
            except asyncio.TimeoutError:
                got.append("timeout")
            return StopEvent(result=got[-1])

    out = {}

    async def main():
        w = W3(timeout=None)
        # in memory: the timeout fires after 1 s
        h0 = w.run()
        t0 = vloop.CLOCK.loop._vt
        out["in_memory"] = await asyncio.wait_for(h0, 30)
        out["in_memory_after"] = vloop.CLOCK.loop._vt - t0
        h = w.run()
        await asyncio.sleep(0.125)
        d = json.loads(json.dumps(h.ctx.to_dict()))
        await h.cancel_run()
        try:
            await h
        except Exception:  # noqa: BLE001
            pass
        h2 = w.run(ctx=Context.from_dict(w, d))
        try:
            out["resumed"] = await asyncio.wait_for(h2, 30)
        except asyncio.TimeoutError:
            out["resumed"] = None

    vloop.run(main())
    return out


def run(ctx):
    ctx.rule = ("server: fixed witness scenarios + generated scenarios (retry delay and wait_for_event timeout shorter / equal "
                "/ longer than idle_timeout, crash at a random instant while the timer is pending, restart) on the real "
                "runtime chain under virtual time vs M-IdleRelease; engine: random reachable reducer histories with "
                "serialize/resume ops vs M-Engine, and the snapshot/from_dict witness; distinct key = scenario signature / "
                "history index")
    ctx.prove()
    out, total = run_inprocess(ctx, "C14", ctx.n(66, 3000), THEOREMS,
                               need=(("retries_scheduled", 3), ("retries_executed", 3),
                                     ("waiter_timeouts_scheduled", 5), ("waiter_timeouts_fired", 1),
                                     ("release_with_waiter_timeout", 1)))
    # engine side: M-Engine tied to the real reducer (incl. to_serialized/from_serialized/rehydrate ops)
    run_l1(ctx, ctx.n(100, 2500), l1_monitor, ENGINE_THEOREMS, need=("waiter_timeout_scheduled", "serde", "resume"))
    w = context_resume_witness()
    ctx.programs += 1
    ctx.count(1, ("context-resume", str(w.get("in_memory")), w.get("in_memory_after"), str(w.get("resumed"))))
    ctx.suite("context-resume", **{k: str(v) for k, v in w.items()})
    if w.get("in_memory") != "timeout" or w.get("in_memory_after") != 1.0:
        ctx.violation("C14: in memory wait_for_event(timeout=1.0) did not raise TimeoutError after 1 s: %r" % (w,),
                      dict(kind="implementation-monitor/L2", observed=w))
    if w.get("resumed") is None:
        ctx.finding("C14/waiter-timeout-lost-on-context-resume",
                    "C14 fails on the real engine: snapshot inside wait_for_event(timeout=1.0), Context.from_dict: still "
                    "waiting after 30 s", dict(kind="implementation-monitor/L2", observed=w,
                                               replay_hint="props.C14.context_resume_witness()"))
    ctx.partial.append("REFUTED: waiter timeouts do not survive an idle release / a restart / a context resume "
                       "(C14_waiter_timeout_survives_release_refuted, C14_resumed_waiter_schedules_no_timeout); a retry does "
                       "not survive a restart (C14_retry_survives_restart_refuted, C14_retry_lost_at_crash_refuted)")
    ctx.partial.append("PROVED for retries vs idle release: no idle announcement while a retry waits out its delay and no "
                       "release drops one (C14_no_idle_announcement_while_retry_pending, C14_retry_survives_idle_release); "
                       "the runner's heap itself (_ControlLoopRunner.scheduled_wakeups) is abstracted to two counters "
                       "whose updates are tied to the persisted ticks by the idlerel suite")
    ctx.assumptions.append("server-start resumption and a sender's reload do not overlap (see C26)")
    ctx.trusted.append("suites/idlerel.py: recording subclasses and the mapping of hook calls to model actions")


def replay(ctx, path):
    print(json.dumps(json.load(open(path)), indent=1)[:6000])
    run(ctx)
