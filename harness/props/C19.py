"""C19 — State stores implement the same state semantics, with isolated snapshots."""
import json
import os
import random
import shutil

import core
from suites import statestore as S

THEOREMS = ("C19_memory_refines_nested_dict / C19_sqlite_refines_nested_dict / C19_stores_agree / "
            "C19_snapshot_isolated_memory / C19_snapshot_isolated_sqlite")


def same(x, y):
    """Equality of JSON values that keeps bool, int and float apart (Python's == has 1 == True == 1.0)."""
    if type(x) is not type(y):
        return False
    if isinstance(x, (list, tuple)):
        return len(x) == len(y) and all(same(p, q) for p, q in zip(x, y))
    if isinstance(x, dict):
        return x.keys() == y.keys() and all(same(v, y[k]) for k, v in x.items())
    return x == y


def first_diff(a, b):
    for i, (x, y) in enumerate(zip(a, b)):
        if not same(x, y):
            return i
    return None if len(a) == len(b) else min(len(a), len(b))


def judge(chain, ops, res):
    """The property evaluated on the real stores' outputs. Returns a list of (key, what, detail)."""
    (om, fm, im), (osq, fs, isq) = res
    orc = S.Oracle(chain)
    oo = [orc.step(o) for o in ops]
    fin = (orc.cls, orc.d)
    out = []
    for name, brk in (("memory", im), ("sqlite", isq)):
        if brk:
            out.append(("C19/snapshot-shares-data",
                        "changing a top-level key of a get_state() snapshot changed the %s store before any write-back" % name,
                        dict(store=name, **brk[0])))
    intkey = S.has_marker([om, fm[1], osq, fs[1]])
    for name, obs, f in (("memory", om, fm), ("sqlite", osq, fs)):
        j = first_diff(obs, oo)
        if j is None and same(f, fin):
            continue
        if intkey:
            key = "C19/numeric-first-segment-int-key"
        elif name == "sqlite" and fresh_set_state(chain, ops):
            key = "C19/sqlite-fresh-set-state-skips-merge"
        elif name == "sqlite" and clear_on_subclass(chain, ops):
            key = "C19/sqlite-clear-keeps-subclass-fields"
        elif any(b for b in (im if name == "memory" else isq)):
            key = "C19/snapshot-shares-data"
        else:
            key = "C19/%s-differs-from-nested-dict" % name
        if j is not None:
            what = "%s store: op #%d %r returned %r, the nested-dict model %r" % (name, j, short(ops[j]), obs[j], oo[j])
        else:
            what = "%s store: final state %r, the nested-dict model %r" % (name, f, fin)
        out.append((key, what, dict(store=name, op_index=j, observed=repr(obs[j] if j is not None else f),
                                    expected=repr(oo[j] if j is not None else fin))))
    return out


def short(o):
    s = repr(o)
    return s if len(s) < 160 else s[:157] + "..."


def fresh_set_state(chain, ops):
    """The first operation that touches the row is a set_state (directly or as write-back)."""
    for o in ops:
        if o[0] in ("set_state",):
            return True
        if o[0] in ("get", "set", "clear", "edit", "get_state"):
            return False
    return False


def clear_on_subclass(chain, ops):
    orc = S.Oracle(chain)
    for o in ops:
        if o[0] == "clear" and orc.cls != list(chain):
            return True
        orc.step(o)
    return False


def shrink(env, chain, ops, key):
    """Greedy deletion of operations while the same finding key persists."""
    budget = 80
    cur = list(ops)
    changed = True
    while changed and budget > 0:
        changed = False
        for i in range(len(cur) - 1, -1, -1):
            if budget <= 0:
                break
            cand = cur[:i] + cur[i + 1:]
            if not cand:
                continue
            budget -= 1
            try:
                ks = [k for k, _, _ in judge(chain, cand, S.run_both(env, chain, cand))]
            except core.CheckError:
                continue
            if key in ks:
                cur, changed = cand, True
    return cur


import itertools as _it
from pydantic import BaseModel as _BM, Field as _Field
_TOK = _it.count(1)


class Tok(_BM):
    token: int = _Field(default_factory=lambda: next(_TOK))
    note: str = "n"


def _stable_defaults(env):
    from workflows.context.state_store import InMemoryStateStore
    import vloop
    out = []
    for store_name in ("memory", "sqlite"):
        for first in ("get", "get_state", "edit_state"):
            async def main():
                store = InMemoryStateStore(Tok()) if store_name == "memory" else env.fresh_sql(Tok)[0]
                seen = []
                if first == "get":
                    seen.append(await store.get("token"))
                elif first == "get_state":
                    seen.append((await store.get_state()).token)
                else:
                    async with store.edit_state() as st:
                        seen.append(st.token)
                seen.append(await store.get("token"))
                seen.append((await store.get_state()).token)
                await store.set("note", "written")
                seen.append(await store.get("token"))
                return seen
            seen = vloop.run(main())
            if len(set(seen)) != 1:
                out.append(dict(why="%s store, typed state with a default_factory field: successive reads of that field around the "
                                    "first write return %s (first read through %s)" % (store_name, seen, first),
                                store=store_name, first_read=first, values=seen))
    return out


def run(ctx):
    ctx.rule = ("random op sequences (1-12 ops: get/set by dotted path incl. numeric, negative, padded and "
                "out-of-range segments, defaults, set_state with same/parent/sub/unrelated class, clear, edit_state, "
                "get_state snapshots that are edited and written back) on DictState and typed G<-P<-C state models, "
                "run on InMemoryStateStore and SqliteStateStore; distinct key = (state class, op kinds, outputs' "
                "shape)")
    ctx.prove()
    ctx.partial.append("memory-store theorems carry wb_clean: a get_state() snapshot is a shallow copy, so writing it back "
                       "after a dotted-path set mutated a shared nested container is outside the model (the property "
                       "speaks about top-level fields/keys of a snapshot only)")
    ctx.trusted.append("json.dumps/loads and pydantic model_dump/model_validate are the identity on JSON values with string "
                       "keys (observed by the statestore suite on every run, not modelled); int() modelled for ASCII text")
    ctx.assumptions.append("segment/key names are not attributes of Python builtins, BaseModel or DictState (generator "
                           "fails closed); typed fields receive values of their annotated kind; edit_state blocks do not raise")
    S.check_pools()
    rng = random.Random(ctx.seed * 19 + 3)
    dbdir = S.fast_scratch(ctx)
    env = S.Env(dbdir)
    copy_flag = S.source_flags().get("statestore_dictlike_copy_copies_data", "true")
    n = ctx.n(320, 6000)
    cases, exprs, fails = [], [], []
    cov = dict(snap_edit_then_read=0, numeric_first_segment_set=0, fresh_set_state_parent=0,
               subclass_then_clear=0, intermediate_created=0, negative_index=0, err_value=0, err_attr=0,
               default_returned=0, parent_merge=0, unrelated_rejected=0, writeback=0, typed_cases=0,
               dict_cases=0, str_index=0, root_get=0, list_assign=0)
    kinds = {}
    try:
        specs = [S.gen_case(rng, i) for i in range(n)] + S.long_path_cases()
        for idx, (chain, ops) in enumerate(specs):
            res = S.run_both(env, chain, ops)
            (om, fm, im), (osq, fs, isq) = res
            cases.append((chain, ops))
            exprs.append(S.case_expr(chain, ops, om, osq, fm, fs, copy_flag=copy_flag))
            measure(cov, kinds, chain, ops, om)
            ctx.count(1, (tuple(chain), tuple(o[0] for o in ops), tuple(r[0] + (r[1] if r[0] == "err" else "") for r in om)))
            if idx < 4:
                ctx.sample(S.jsonable(dict(state_class=chain, ops=ops, memory_outputs=om, sqlite_outputs=osq)), limit=4)
            for key, what, detail in judge(chain, ops, res):
                fails.append((key, what, detail, chain, ops))
        # report monitor failures: one replay per structural key, minimised
        seen = set()
        for key, what, detail, chain, ops in fails:
            if key in seen:
                continue
            seen.add(key)
            small = shrink(env, chain, ops, key)
            rep = S.replay_case(dbdir, chain, small)
            ctx.finding(key, "C19 fails on the real code: " + what,
                        dict(kind="implementation-monitor", state_class=chain, ops=S.jsonable(small),
                             original_ops=S.jsonable(ops), detail=S.jsonable(detail), rerun=S.jsonable(rep),
                             replay_hint="bin/check C19 --replay <this file> re-executes `ops` on both real stores"))
        # ---- the state of a run is ONE value from its first read on: a typed state whose defaults come from a
        # default_factory (run token, counter) reads the same before and after the first write, on both stores
        for w in _stable_defaults(env):
            ctx.violation("C19 fails on the real code: " + w["why"], dict(kind="implementation-monitor", suite="statestore.defaults", detail=w))
    finally:
        env.close()
        shutil.rmtree(dbdir, ignore_errors=True)
    res = ctx.run_cases("statestore", S.header(), exprs, shard=25)
    bad = [i for i, z in enumerate(res) if z != 0]
    ctx.disagreements += len(bad)
    ctx.disagreements_checked = len(bad)
    ctx.programs += len(exprs)
    ctx.suite("statestore", cases=len(exprs), ops=sum(len(o) for _, o in cases), disagreements=len(bad),
              monitor_failures=len(fails), op_kinds=kinds, **cov)
    for k in ("snap_edit_then_read", "numeric_first_segment_set", "fresh_set_state_parent", "subclass_then_clear",
              "intermediate_created", "negative_index", "err_value", "err_attr", "default_returned", "parent_merge",
              "unrelated_rejected", "writeback", "str_index", "root_get", "list_assign"):
        ctx.require_coverage("statestore", k, cov[k], 3)
    if bad and not fails:
        i = bad[0]
        ctx.violation("model/implementation disagreement in suite statestore (no property-level failing input found)",
                      dict(suite="statestore", theorem=THEOREMS, code=res[i], state_class=cases[i][0],
                           ops=S.jsonable(cases[i][1]), coq_expr=exprs[i][:3000],
                           code_meaning="n<1000: memory model differs at op n-1; 1000+n: sqlite model; 2000+n: "
                                        "specification; 3000/3001: final state memory/sqlite"),
                      found_input=False)
    elif bad:
        ctx.notes.append("%d model/implementation disagreements accompany the monitor failures" % len(bad))


def measure(cov, kinds, chain, ops, om):
    orc = S.Oracle(chain)
    cov["dict_cases" if chain == [0] else "typed_cases"] += 1
    snap_edited = False
    touched = False
    for o, r in zip(ops, om):
        k = o[0]
        kinds[k] = kinds.get(k, 0) + 1
        if k == "snap_edit" and orc.snap is not None:
            snap_edited = True
        elif k in ("get", "get_state") and snap_edited:
            cov["snap_edit_then_read"] += 1
            snap_edited = False
        elif k == "snap_write":
            snap_edited = False
            if orc.snap is not None:
                cov["writeback"] += 1
        if k == "set":
            segs = o[1].split(".") if o[1] else []
            if chain == [0] and segs and _isint(segs[0]):
                cov["numeric_first_segment_set"] += 1
            if r == ("ok",) and len(segs) > 1:
                v, created = orc.d, False
                for s in segs[:-1]:
                    try:
                        v = S.Oracle.child(v, s)
                    except S.NotFound:
                        created = True
                        break
                cov["intermediate_created"] += created
                if not created and isinstance(v, list):
                    cov["list_assign"] += 1
        if k in ("get", "set") and o[1]:
            v = orc.d
            for s in o[1].split("."):
                if isinstance(v, list) and _isint(s) and int(s) < 0 and S.Oracle.index(s, len(v)) is not None:
                    cov["negative_index"] += 1
                if isinstance(v, str) and S.Oracle.index(s, len(v)) is not None and k == "get":
                    cov["str_index"] += 1
                try:
                    v = S.Oracle.child(v, s)
                except S.NotFound:
                    break
        if k == "get" and not o[1]:
            cov["root_get"] += 1
        if k == "get" and o[2] and r == ("val", o[2][0]):
            cov["default_returned"] += 1
        if r == ("err", "ValueError"):
            cov["err_value"] += 1
        if r == ("err", "AttributeError"):
            cov["err_attr"] += 1
        if k == "set_state":
            cur = orc.cls
            if not touched and o[1] != cur and cur[:len(o[1])] == o[1]:
                cov["fresh_set_state_parent"] += 1
            if o[1] != cur and cur[:len(o[1])] == o[1]:
                cov["parent_merge"] += 1
            if o[1][:1] != cur[:1]:
                cov["unrelated_rejected"] += 1
        if k == "clear" and orc.cls != list(chain):
            cov["subclass_then_clear"] += 1
        if k in ("get", "set", "clear", "edit", "get_state", "set_state"):
            touched = True
        orc.step(o)


def _isint(s):
    try:
        int(s)
        return True
    except ValueError:
        return False


def replay(ctx, path):
    rec = json.load(open(path))
    print(json.dumps({k: rec[k] for k in rec if k not in ("rerun", "original_ops")}, indent=1)[:3000])
    if "ops" in rec and "state_class" in rec:
        ops = [tuple(tuple(x) if isinstance(x, list) and i == 2 and o[0] == "get" else x for i, x in enumerate(o))
               for o in rec["ops"]]
        ops = [_retuple(o) for o in ops]
        rep = S.replay_case(os.path.join(ctx.scratch, "replay"), rec["state_class"], ops)
        print("re-execution on the real stores now:")
        print(json.dumps(S.jsonable(rep), indent=1)[:6000])
        for key, what, _ in judge(rec["state_class"], ops, ((rep["memory"], tuple(rep["memory_final"]), rep["isolation_breaks"]["memory"]),
                                                           (rep["sqlite"], tuple(rep["sqlite_final"]), rep["isolation_breaks"]["sqlite"]))):
            ctx.finding(key, "C19 fails on the real code (replay): " + what, dict(kind="replay", source=path))
    ctx.prove()


def _retuple(o):
    """JSON turned tuples into lists: restore the op shapes the suite uses."""
    o = list(o)
    if o[0] == "get":
        o[2] = tuple(o[2]) if o[2] is not None else None
    if o[0] in ("edit", "snap_edit"):
        o[1] = [tuple(e) for e in o[1]]
    return tuple(o)
