"""Shared pieces of the engine-group checks (C01, C02, C10, ...): run the L1 `reducer`
correspondence suite, apply a property monitor to every implementation transition it produced,
and turn the outcome into verdicts with the common protocol:

* monitor failure on the implementation  -> VIOLATION with the failing history as replay
* model/implementation disagreement only -> VIOLATION ... no-failing-input-found (names the
  suite and the theorems whose model is no longer tied to the code)"""
from suites import reducer as R


def run_l1(ctx, nhist, monitor, theorems, need=()):
    """monitor(kind-tagged record) -> list of failure strings.  Returns (#bad histories, #monitor failures)."""
    hs, bad, cov = R.run_suite(ctx, nhist)
    for k in ("ticks", "feedback_tick", "queue_at_capacity", "retry_queued", "waiter_resolved") + tuple(need):
        ctx.require_coverage("reducer", k, cov.c.get(k, 0))
    fails = []
    ntrans = 0
    for hi, h in enumerate(hs):
        for rec in h["monitor"]:
            ntrans += 1
            for why in monitor(rec):
                fails.append((hi, why))
        ctx.count(h["nops"], ("l1", hi, h["nops"]) if h["nops"] > 5 else None)
        if hi < 2:
            ctx.sample(dict(kind="l1-history", config=R.describe_cfg(h["cfg"]), first_ops=h["ops"][:3],
                            nops=h["nops"]), limit=8)
    ctx.programs += len(hs)
    ctx.disagreements += len(bad)
    ctx.disagreements_checked += len(bad)
    ctx.mark("l1")
    ctx.suite("reducer.monitor", transitions=ntrans, failures=len(fails))
    ctx.require_coverage("reducer.monitor", "transitions", ntrans, 50)
    for hi, why in fails[:3]:
        h = hs[hi]
        ctx.violation("%s fails on the implementation reducer: %s" % (ctx.pid, why),
                      dict(kind="implementation-monitor/L1", why=why, config=R.describe_cfg(h["cfg"]),
                           ops=h["ops"],
                           replay_hint="ops are the ticks applied to control_loop._reduce_tick in order "
                                       "(Gallina notation; `expect` lists are the implementation's encoded results)"))
    if bad and not fails and any(v[1] for v in ctx.violations):
        ctx.notes.append("%d reducer model/implementation disagreements accompany the concrete failures found by other "
                         "stages" % len(bad))
    elif bad and not fails:
        h = hs[bad[0]]
        detail = None
        try:
            detail = ctx.eval_terms(R.HEADER, [R.detail_term(h)])
        except Exception as ex:  # noqa: BLE001
            detail = "detail evaluation failed: %r" % (ex,)
        ctx.violation("model/implementation disagreement in suite reducer (no property-level failing input found)",
                      dict(suite="reducer", theorem="%s (Model/Engine.v no longer matches control_loop.py)" % theorems,
                           histories_disagreeing=len(bad), first_bad_op=h.get("first_bad_op"),
                           config=R.describe_cfg(h["cfg"]), ops=h["ops"][:h.get("first_bad_op") or 1],
                           model_encoding_at_first_bad_op=detail),
                      found_input=False)
    elif bad:
        ctx.notes.append("%d model/implementation disagreements accompany the monitor failures" % len(bad))
    return len(bad), len(fails)


def run_l2(ctx, templates, n, monitor, need=(), label="engine", run_kw=None):
    """Run `n` generated workflows (round-robin over `templates`) on the real engine under virtual time and
    apply monitor(spec, rec, obs) -> (failures:list[str], facts:dict of counters) to each.
    A failure is a concrete failing run: VIOLATION with (template, seed, schedule) as replay."""
    import random
    from suites import engine as E
    rng = random.Random(ctx.seed * 131 + sum(map(ord, ctx.pid)))
    fails, facts_total = [], {}
    for i in range(n):
        seed = rng.randrange(1 << 30)
        tmpl = templates[i % len(templates)]
        try:
            spec, rec, obs = E.run_case(tmpl, seed, **(run_kw or {}))
        except RuntimeError as ex:
            if "quiescent" not in str(ex):
                raise
            # the real engine kept producing work without any driver action (livelock): a concrete failing run
            fails.append(dict(template=tmpl.__name__, seed=seed, actions=[],
                              why="livelock: the engine never became quiescent between two driver actions (%s)" % ex))
            continue
        why, facts = monitor(spec, rec, obs)
        for k, v in (facts or {}).items():
            facts_total[k] = facts_total.get(k, 0) + int(v)
        if obs.stuck:
            facts_total["stuck"] = facts_total.get("stuck", 0) + 1
        ctx.count(1, ("l2", tmpl.__name__, len(rec.log), len(obs.stream), tuple(sorted((facts or {}).items()))))
        if i < 3:
            ctx.sample(dict(kind="l2-run", template=tmpl.__name__, seed=seed, facts=facts,
                            actions=[str(a) for a in obs.actions[:6]],
                            outcome=(type(obs.exception).__name__ if obs.exception else repr(obs.result))[:80]), limit=8)
        for w in why:
            fails.append(dict(template=tmpl.__name__, seed=seed, why=w, actions=[str(a) for a in obs.actions]))
    ctx.programs += n
    ctx.mark(label)
    ctx.suite(label, runs=n, failures=len(fails), **facts_total)
    try:
        for k in need:
            k, m = (k if isinstance(k, tuple) else (k, 1))
            ctx.require_coverage(label, k, facts_total.get(k, 0), m)
    except Exception:
        # the behaviour a coverage counter waits for may be exactly what the code under check no longer does: the
        # monitor failures already collected (those not recorded as known findings) are reported before the machinery error
        keys = ctx.known_keys()
        other = [f for f in fails if not any(k in f["why"] for k in keys)]
        if other:
            report_l2(ctx, other)
        raise
    return fails, facts_total


def report_l2(ctx, fails, limit=3):
    seen = set()
    for f in fails:
        key = f["why"].split(":")[0][:60]
        if key in seen or len(seen) >= limit:
            continue
        seen.add(key)
        ctx.violation("%s fails on the real engine: %s" % (ctx.pid, f["why"]),
                      dict(kind="implementation-monitor/L2", input=f,
                           replay_hint="suites.engine.run_case(engine_specs.<template>, seed) reproduces the run"))


def run_runnerdiff(ctx, n, theorems, need_outcomes=()):
    """L2 runner differential (suites/runnerdiff.py): complete processed-tick log, published stream and outcome of real
    runs vs Model/Runner.v, compared exactly inside Coq.  A disagreement without a concrete monitor failure is
    reported as `no-failing-input-found`, naming the runner-level theorems that rest on the model."""
    import random
    from suites import engine_specs as S, runnerdiff as RD
    rng = random.Random(ctx.seed * 211 + 5)
    tmpls = [S.rd_fan, S.rd_wait, S.rd_ir, S.retrychain, S.retrywait, S.tworetries, S.rd_multi, S.rd_exit_cancel, S.rd_exit_timeout, S.rd_exit_fail]
    exprs, infos, skipped = [], [], 0
    for i in range(n):
        seed = rng.randrange(1 << 30)
        tmpl = tmpls[i % len(tmpls)]
        try:
            e, info = RD.run_case(tmpl, seed)
        except RuntimeError as ex:
            if "quiescent" not in str(ex):
                raise
            e, info = None, "livelock"
        if e is None:
            skipped += 1
            continue
        exprs.append(e)
        infos.append((tmpl.__name__, seed, info))
        ctx.count(1, ("runnerdiff", tmpl.__name__, info["ticks"], info["actions"], info["idle_checks"], info["delayed"]))
        if len(infos) <= 2:
            ctx.sample(dict(kind="l2-runnerdiff", template=tmpl.__name__, seed=seed, ticks=info["ticks"],
                            actions=[a[:80] for a in info["acts"][:4]], published=info["published"]), limit=10)
    res = ctx.run_cases("runnerdiff", RD.HEADER, exprs, shard=12)
    bad = [i for i, z in enumerate(res) if z != 0]
    tot = lambda k: sum(x[2][k] for x in infos)  # noqa: E731
    ctx.programs += n
    ctx.mark("runnerdiff")
    ctx.suite("runnerdiff", cases=len(exprs), skipped=skipped, disagreements=len(bad), ticks=tot("ticks"), idle_checks=tot("idle_checks"),
              time_advances=tot("delayed"), external_deliveries=tot("externals"), published=tot("published"),
              **{"runs_ended_by_" + nm: sum(1 for x in infos if x[2]["outcome"] == code)
                 for code, nm in ((1, "result"), (2, "failure"), (3, "cancellation"), (4, "timeout"))})
    ctx.disagreements += len(bad)
    ctx.disagreements_checked += len(bad)
    if bad:
        name, seed, info = infos[bad[0]]
        detail = dict(suite="runnerdiff", theorem="%s (Model/Runner.v no longer matches _ControlLoopRunner)" % theorems,
                      cases_disagreeing=len(bad), first=dict(template=name, seed=seed, first_difference_at=res[bad[0]],
                                                             actions=info["acts"][:30], real_encoding_head=info["expect"][:80]))
        if any(v[1] for v in ctx.violations):
            ctx.notes.append("%d runner model/implementation disagreements accompany the concrete failures" % len(bad))
        else:
            ctx.violation("model/implementation disagreement in suite runnerdiff (no property-level failing input found)",
                          detail, found_input=False)
    ctx.require_coverage("runnerdiff", "cases", len(exprs), 20)
    ctx.require_coverage("runnerdiff", "idle_checks", tot("idle_checks"), 10)
    ctx.require_coverage("runnerdiff", "time_advances", tot("delayed"), 3)
    ctx.require_coverage("runnerdiff", "external_deliveries", tot("externals"), 5)
    for code, nm in ((1, "result"), (2, "failure"), (3, "cancellation"), (4, "timeout")):
        if code in need_outcomes:
            ctx.require_coverage("runnerdiff", "runs_ended_by_" + nm, sum(1 for x in infos if x[2]["outcome"] == code), 1)
    return len(bad)
