"""Shared pieces of the engine-group checks (C01, C02, C10, ...): run the L1 `reducer`
correspondence suite, apply a property monitor to every implementation transition it produced,
and turn the outcome into verdicts with the common protocol:

* monitor failure on the implementation  -> VIOLATION with the failing history as replay
* model/implementation disagreement only -> VIOLATION ... no-failing-input-found (names the
  suite and the theorems whose model is no longer tied to the code)"""
from suites import reducer as R


def run_l1(ctx, nhist, monitor, theorems, need=()):
    """monitor(kind-tagged record) -> list of failure strings.  Returns (#bad histories, #monitor failures)."""
    hs, bad, cov = R.run_suite(ctx, nhist)
    for k in ("ticks", "feedback_tick", "queue_at_capacity", "retry_queued", "waiter_resolved") + tuple(need):
        ctx.require_coverage("reducer", k, cov.c.get(k, 0))
    fails = []
    ntrans = 0
    for hi, h in enumerate(hs):
        for rec in h["monitor"]:
            ntrans += 1
            for why in monitor(rec):
                fails.append((hi, why))
        ctx.count(h["nops"], ("l1", hi, h["nops"]) if h["nops"] > 5 else None)
        if hi < 2:
            ctx.sample(dict(kind="l1-history", config=R.describe_cfg(h["cfg"]), first_ops=h["ops"][:3],
                            nops=h["nops"]), limit=8)
    ctx.programs += len(hs)
    ctx.disagreements += len(bad)
    ctx.disagreements_checked += len(bad)
    ctx.suite("reducer.monitor", transitions=ntrans, failures=len(fails))
    ctx.require_coverage("reducer.monitor", "transitions", ntrans, 50)
    for hi, why in fails[:3]:
        h = hs[hi]
        ctx.violation("%s fails on the implementation reducer: %s" % (ctx.pid, why),
                      dict(kind="implementation-monitor/L1", why=why, config=R.describe_cfg(h["cfg"]),
                           ops=h["ops"],
                           replay_hint="ops are the ticks applied to control_loop._reduce_tick in order "
                                       "(Gallina notation; `expect` lists are the implementation's encoded results)"))
    if bad and not fails:
        h = hs[bad[0]]
        detail = None
        try:
            detail = ctx.eval_terms(R.HEADER, [R.detail_term(h)])
        except Exception as ex:  # noqa: BLE001
            detail = "detail evaluation failed: %r" % (ex,)
        ctx.violation("model/implementation disagreement in suite reducer (no property-level failing input found)",
                      dict(suite="reducer", theorem="%s (Model/Engine.v no longer matches control_loop.py)" % theorems,
                           histories_disagreeing=len(bad), first_bad_op=h.get("first_bad_op"),
                           config=R.describe_cfg(h["cfg"]), ops=h["ops"][:h.get("first_bad_op") or 1],
                           model_encoding_at_first_bad_op=detail),
                      found_input=False)
    elif bad:
        ctx.notes.append("%d model/implementation disagreements accompany the monitor failures" % len(bad))
    return len(bad), len(fails)
