"""C03 — Queued work never stalls and idleness is reported only when truly idle."""
from props._engine_common import run_l1, run_l2, report_l2
from suites import engine_probe as PR, engine_specs as S
from workflows.events import UnhandledEvent, WorkflowIdleEvent
from workflows.runtime import control_loop as CL
from workflows.runtime.types.commands import (CommandCompleteRun, CommandFailWorkflow, CommandHalt,
                                              CommandPublishEvent)
from workflows.runtime.types.ticks import TickIdleCheck

THEOREMS = "C03_live_tick_preserves_nostall / C03_idle_event_only_when_quiet / C03_no_other_tick_publishes_idle"
K_DELIVERED = "C03/idle-before-delivered-event-processed"


def stalled(state):
    return [n for n, w in state.workers.items() if w.queue and len(w.in_progress) < w.config.num_workers]


def quiet(state):
    return state.is_running and all(not w.queue and not w.in_progress for w in state.workers.values())


def l1_monitor(rec):
    if rec[0] != "tick":
        return []
    _, before, t, after, cmds, now = rec
    out = []
    ends = any(isinstance(c, (CommandHalt, CommandCompleteRun, CommandFailWorkflow)) for c in cmds)
    if not stalled(before) and not ends:
        for n in stalled(after):
            w = after.workers[n]
            out.append("step %s has %d queued events but only %d of %d workers running after a %s tick"
                       % (n, len(w.queue), len(w.in_progress), w.config.num_workers, type(t).__name__))
    for c in cmds:
        if isinstance(c, CommandPublishEvent) and isinstance(c.event, WorkflowIdleEvent):
            if not isinstance(t, TickIdleCheck):
                out.append("WorkflowIdleEvent published by a %s tick" % type(t).__name__)
            if not quiet(before):
                out.append("WorkflowIdleEvent published while step work is queued or running")
        if isinstance(c, CommandPublishEvent) and isinstance(c.event, UnhandledEvent):
            if c.event.idle != CL._check_idle_state(after):
                out.append("UnhandledEvent.idle=%s but the resulting state idle test is %s"
                           % (c.event.idle, CL._check_idle_state(after)))
            if c.event.idle and not quiet(after):
                out.append("UnhandledEvent(idle=true) while step work is queued or running")
    return out


def l1_rewind_monitor(rec):
    """C03_resume_establishes_nostall on the real rewind_in_progress: after a resume no step has events waiting below its
    worker limit"""
    if rec[0] != "rewind":
        return []
    _, before, after, cmds, cfg = rec
    out = []
    for name, w in after.workers.items():
        if w.queue and len(w.in_progress) < w.config.num_workers:
            out.append("after rewind_in_progress step %s has %d queued events but only %d of %d workers running (%d were in "
                       "progress and %d queued before)" % (name, len(w.queue), len(w.in_progress), w.config.num_workers,
                                                          len(before.workers[name].in_progress), len(before.workers[name].queue)))
    return out


def l2_monitor(spec, rec, obs):
    """every idle announcement of the run against what the real runner still held at that moment"""
    out = []
    snaps = list(PR.IDLE_SNAPS)
    PR.reset()
    nidle = len(snaps)
    for s in snaps:
        if s["queued"] or s["in_progress"] or s["worker_tasks"]:
            out.append("C03/idle-with-step-work: %s announced with %d queued, %d in progress, %d worker tasks"
                       % (s["kind"], s["queued"], s["in_progress"], s["worker_tasks"]))
        if s["retries_scheduled"]:
            out.append("C03/idle-with-pending-delayed-retry: %s announced while retries %s wait out their delay"
                       % (s["kind"], s["retries_scheduled"]))
        if s["delivered_unprocessed"] or s["buffered"]:
            out.append("%s: %s announced while delivered ticks %s (buffered %s) are still unprocessed"
                       % (K_DELIVERED, s["kind"], s["delivered_unprocessed"], s["buffered"]))
    # no stall on the live engine: at every quiescent point of the schedule (the driver settles the loop before
    # each action) a step with queued events must be at its worker limit -- read through StepStateChanged
    # telemetry: PREPARING (queued) events of a step never coexist with fewer RUNNING slots than num_workers.
    # (the exact statement is evaluated on reducer transitions by the L1 monitor)
    return out, dict(idle_announcements=nidle,
                     runs_with_retry_delay=1 if spec.get("retry_delay") else 0,
                     announcements_with_delivered_unprocessed=sum(
                         1 for s in snaps if s["delivered_unprocessed"] or s["buffered"]))


def run(ctx):
    ctx.rule = ("L1: random reachable reducer histories (real _reduce_tick transitions), no-stall and idle-publication "
                "statements evaluated on each; L2: generated fan-out / send-and-return-None / delayed-retry / wait "
                "workflows on the real engine under virtual time with gate-driven schedules; at each idle announcement "
                "the real runner's scheduled wake-ups, tick buffer and delivered-but-unprocessed ticks are inspected; "
                "distinct key = history index / (template, log length, stream length, facts)")
    ctx.prove()
    run_l1(ctx, ctx.n(160, 4000), lambda rec: l1_monitor(rec) + l1_rewind_monitor(rec), THEOREMS,
           need=("tick_TickIdleCheck", "rewind_peek"))
    PR.install()
    PR.reset()
    fails, facts = run_l2(ctx, [S.sendnone, S.retrychain, S.retrywait, S.tworetries, S.sameretries, S.fanout, S.waitfan, S.irflow], ctx.n(210, 4000), l2_monitor,
                          need=(("idle_announcements", 20), ("runs_with_retry_delay", 20)))
    known = [f for f in fails if f["why"].startswith(K_DELIVERED)]
    other = [f for f in fails if not f["why"].startswith(K_DELIVERED)]
    if known:
        ctx.finding(K_DELIVERED, known[0]["why"], dict(kind="implementation-monitor/L2", input=known[0],
                                                       occurrences=len(known)))
    ctx.partial.append("the clause 'no event already delivered to the run is still waiting to be processed' is refuted "
                       "(C03_idle_before_delivered_event_refuted) and listed as a known finding")
    report_l2(ctx, other)
    from props._engine_common import run_runnerdiff
    run_runnerdiff(ctx, ctx.n(60, 1500), 'C03_idle_never_with_pending_retry / C03_idle_before_delivered_event_refuted')
    # a retry whose delay has elapsed is accepted work with free capacity: the timer heap hands out everything that is due
    # (three or more wake-ups pending at once, handed out in several pops)
    from suites import timerheap as TH
    TH.run_suite(ctx, ctx.n(400, 8000), "C03", "C06_run_loop_wait_step_fires_exactly_what_is_due (everything due fires)")


def replay(ctx, path):
    import json
    print(json.dumps(json.load(open(path)), indent=1)[:4000])
    run(ctx)
